"""CASTCHECK / DIVGUARD helpers."""
import re

from .core import op_local, const_val
from .lib_range import decode_cond, check_helpers

INT_BITS = {"u8": 8, "u16": 16, "u32": 32, "u64": 64, "u128": 128, "usize": 64,
            "i8": 8, "i16": 16, "i32": 32, "i64": 64, "i128": 128, "isize": 64}


def int_range(ty):
    b = INT_BITS.get(ty)
    if b is None:
        return None
    if ty.startswith("u"):
        return (0, (1 << b) - 1)
    return (-(1 << (b - 1)), (1 << (b - 1)) - 1)


def is_narrowing(frm, to):
    a, b = int_range(frm), int_range(to)
    if a is None or b is None:
        return False
    return a[0] < b[0] or a[1] > b[1]


def param_of(body, op):
    """If operand derives (by copies only) from exactly one parameter place, return (param, proj)."""
    ors = body.origins(op)
    ps = set()
    for o in ors:
        if o[0] == "param":
            ps.add((o[1], o[2]))
        else:
            return None
    if len(ps) == 1:
        return ps.pop()
    return None


def idents(origins):
    """Identity of a value by where it was defined (casts stripped)."""
    out = set()
    for o in origins:
        k = o[0]
        if k == "cast":
            out |= idents(o[4])
        elif k in ("param", "local"):
            out.add((k, o[1], o[2]))
        elif k == "call":
            out.add(("call", o[1]))
        elif k in ("rv", "agg"):
            out.add((k, o[1], o[2]))
        elif k == "const":
            out.add(("const", str(o[1].get("v"))))
        else:
            out.add((k,))
    return frozenset(out)


def dominating_checks(facts, body, pos, helpers=None):
    """Decoded conditions established on every path reaching pos=(bb, idx):
       - `helper(cond, ..)?` and `helper(lo).and_then(|()| helper(hi))?` where the Try::branch dominates pos
         and its Break edge cannot reach pos;
       - comparison switches dominating pos with exactly one edge reaching pos.
    Yields dicts: decode_cond result + 'ctx' = (body_of_cond, parent_body, closure_aggregate|None)."""
    from .lib_errdisc import closure_arg_body
    helpers = helpers if helpers is not None else check_helpers(facts)
    hs = set(h.id for h in helpers)
    bb0, _ = pos
    out = []

    def feed(b, op):
        for o in b.origins(op):
            if o[0] != "call":
                continue
            t = o[2]
            fn = t.get("fn")
            if not fn:
                continue
            if fn["def"] in hs:
                c = decode_cond(b, t["args"][0])
                if c:
                    out.append(dict(c, ctx=(b, None, None)))
            elif fn["name"] == "and_then" and fn["def"].startswith("std::result::Result"):
                feed(b, t["args"][0])
                cb = closure_arg_body(facts, b, t["args"][1])
                agg = None
                for o2 in b.origins(t["args"][1]):
                    if o2[0] == "agg":
                        agg = o2[3]
                if cb is not None:
                    for cbi, ct in cb.calls():
                        cfn = ct.get("fn")
                        if cfn and cfn["def"] in hs and ct["dst"]["l"] == 0:
                            c = decode_cond(cb, ct["args"][0])
                            if c:
                                out.append(dict(c, ctx=(cb, b, agg)))

    for bi, t in body.calls():
        fn = t.get("fn")
        if not fn or fn["def"] != "std::ops::Try::branch" or not body.dominates(bi, bb0) or bi == bb0:
            continue
        brk_reaches = False
        for (ub, us) in body.uses_of_local(t["dst"]["l"]):
            if us == "term":
                continue
            st = body.blocks[ub]["stmts"][us]
            if st["rv"]["k"] == "discr":
                for (sb, ss) in body.uses_of_local(st["dst"]["l"]):
                    if ss == "term" and body.term(sb)["k"] == "switch":
                        for val, tb in body.term(sb)["vals"]:
                            if val == 1 and (tb == bb0 or bb0 in body.reachable(tb)):
                                brk_reaches = True
        if brk_reaches:
            continue
        feed(body, t["args"][0])

    for bi in sorted(body.live):
        t = body.term(bi)
        if t["k"] != "switch" or not body.dominates(bi, bb0) or bi == bb0:
            continue
        c = decode_cond(body, t["d"])
        if not c or c["kind"] not in ("cmp", "cmp2"):
            continue
        true_t = None
        false_t = None
        for val, tb in t["vals"]:
            if val == 0:
                false_t = tb
            elif val == 1:
                true_t = tb
        if true_t is None:
            true_t = t["else"]
        if false_t is None:
            false_t = t["else"]
        reach_true = bb0 in body.reachable(true_t) or bb0 == true_t
        reach_false = bb0 in body.reachable(false_t) or bb0 == false_t
        if reach_true and not reach_false:
            out.append(dict(c, ctx=(body, None, None)))
        elif reach_false and not reach_true:
            neg = {"Ge": "Lt", "Le": "Gt", "Lt": "Ge", "Gt": "Le", "Eq": "Ne", "Ne": "Eq"}
            out.append(dict(c, op=neg[c["op"]], ctx=(body, None, None)))
    return out


def resolve_subject(origins, ctx):
    """Identity of a checked subject in terms of the enclosing function (maps closure upvars to the
    operands captured by the parent)."""
    cb, pb, agg = ctx
    if pb is None:
        return idents(origins)
    out = set()
    for so in origins:
        if so[0] == "cast":
            out |= resolve_subject(so[4], ctx)
            continue
        if so[0] == "param" and so[1] == 1 and agg is not None:
            m = re.match(r"^\*?\.(\d+)", so[2])
            if m and int(m.group(1)) < len(agg["ops"]):
                out |= idents(pb.origins(agg["ops"][int(m.group(1))]))
                continue
        out.add(("closure-local",) + tuple(str(x) for x in so[:3]))
    return frozenset(out)


def dominating_bounds(facts, body, pos, subject_param, helpers=None):
    """Interval established for a subject (a parameter (l, proj) or a frozenset of identities) by the checks
    dominating pos."""
    if isinstance(subject_param, tuple):
        subject_ids = frozenset([("param", subject_param[0], subject_param[1])])
    else:
        subject_ids = frozenset(subject_param)
    iv = {}
    for c in dominating_checks(facts, body, pos, helpers):
        if c["kind"] != "cmp":
            continue
        if resolve_subject(c["subject_origins"], c["ctx"]) != subject_ids:
            continue
        op, k = c["op"], c["const"]
        if k is None or isinstance(k, float):
            continue
        if op == "Ge":
            iv["min"] = max(iv.get("min", k), k)
        elif op == "Gt":
            iv["min"] = max(iv.get("min", k + 1), k + 1)
        elif op == "Le":
            iv["max"] = min(iv.get("max", k), k)
        elif op == "Lt":
            iv["max"] = min(iv.get("max", k - 1), k - 1)
        elif op == "Eq":
            iv["min"] = iv["max"] = k
        elif op == "Ne" and k == 0:
            iv["min"] = max(iv.get("min", 1), 1)
    return iv
