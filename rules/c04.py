"""C04 — STREAMINFO block-size and frame-size bounds (structural clauses)."""
import re

from .core import Finding, RuleResult, FactError, op_local
from .lib_cast import idents, dominating_checks, resolve_subject
from .lib_mpt import path_str
from .tyutil import result_parts

PROPERTY = "C04"
TECHNIQUE = ("MPT / dominance on the two stream encoders (role-based), WHO-CALLS / WHO-WRITES on the bound fields, "
             "backward slices of the values written")
EXPLANATION = (
    "Decides structurally: (1) in both stream encoders (role: functions returning Result<Stream, EncodeError> that "
    "add frames) a set_block_sizes(b, b) call whose arguments are the block_size parameter dominates every add_frame; "
    "(2) on the encode paths frames enter a Stream only through Stream::add_frame - the only caller of "
    "StreamInfo::update_frame_info and, besides the decode-only frames_mut accessor, the only writer of the frame list "
    "- and update_frame_info assigns all four bound fields, the frame-size ones from BitRepr::count_bits(frame) / 8; "
    "(3) the final short frame cannot lower the minimum block size: EITHER every assignment of min_block_size that "
    "depends on a frame's block size is guarded by a lower-bound comparison with 16, OR in each encoder every path from "
    "an add_frame to the Ok result passes a set_block_sizes(b, b) with the verified block size (RFC 9639 section 8.2: "
    "the last block is excluded). The byte lengths themselves are not decided (they equal count_bits/8 iff C08).")
NOT_DECIDED = "the numeric values; 24-bit overflow of frame sizes; streams assembled by users through add_frame"
ASSUMPTIONS = ["frame size = count_bits/8 is exact (C08)"]

STREAM = "component::datatype::Stream"


def encoders(facts):
    out = []
    for b in facts.body_list:
        if b.kind != "Fn":
            continue
        rp = result_parts(b.raw.get("output"))
        if rp is None or rp[0] != STREAM or rp[1] != "error::EncodeError":
            continue
        bodies = [b] + facts.closures_of(b)
        if any((t.get("fn") or {}).get("def") == STREAM + "::add_frame" for bb in bodies for _x, t in bb.calls()):
            out.append(b)
    return out


def is_setbs(t):
    return (t.get("fn") or {}).get("def") == "component::datatype::StreamInfo::set_block_sizes"


def run(facts, tier, ctx):
    out = []
    encs = encoders(facts)
    want = 1 if facts.tag == "F0" else 2
    if len(encs) < want:
        raise FactError("stream encoders found: %s (expected %d)" % ([e.id for e in encs], want))

    r1 = RuleResult("MPT/bounds-init", "set_block_sizes(block_size, block_size) dominates every add_frame in each encoder")
    r3 = RuleResult("MPT/min-block-size", "the final short frame cannot lower min_block_size below the requested block "
                    "size (guard >= 16 at the write, or a re-assertion of the bounds after the last add_frame)")
    for e in encs:
        # block_size parameter: the usize parameter passed to set_block_sizes twice
        sb = []
        for bi, t in e.calls():
            if is_setbs(t):
                a1, a2 = idents(e.origins(t["args"][1])), idents(e.origins(t["args"][2]))
                if a1 == a2 and all(i[0] == "param" for i in a1):
                    sb.append(bi)
        adds = []
        for bb in [e] + facts.closures_of(e):
            for bi, t in bb.calls():
                if (t.get("fn") or {}).get("def") == STREAM + "::add_frame":
                    if bb.id == e.id:
                        adds.append(bi)
                    else:
                        # closure: the block of e where the closure is created
                        top = bb
                        while top.raw.get("parent") != e.id and top.raw.get("parent") in facts.bodies:
                            top = facts.bodies[top.raw["parent"]]
                        for ebi, si, s in e.iter_stmts():
                            if s["k"] == "assign" and s["rv"]["k"] == "agg" and s["rv"].get("closure") == top.id:
                                adds.append(ebi)
        if not adds:
            raise FactError("no add_frame site located in %s" % e.id)
        for a in sorted(set(adds)):
            where = e.loc(a, "term")
            if any(e.dominates(s, a) for s in sb):
                r1.ok({"encoder": e.id, "add_frame": where, "verdict": "ok"})
            else:
                r1.fail(Finding("MPT/bounds-init", e.id, "add_frame-before-bounds-init", 0, where,
                                "add_frame at %s is not dominated by set_block_sizes(block_size, block_size)" % where))
        # (3B) re-assertion after the last add_frame on the Ok paths
        ok_blocks = []
        for bi, si, s in e.iter_stmts():
            if s["k"] == "assign" and s["dst"]["l"] == 0 and not s["dst"]["p"] and s["rv"]["k"] == "agg" \
                    and s["rv"].get("variant") == "Ok":
                ok_blocks.append(bi)
        b_holds = bool(ok_blocks)
        bad_path = None
        for a in sorted(set(adds)):
            for s in e.succ[a]:
                p = e.find_path(s, set(ok_blocks), removed=set(sb) - {a})
                if p is not None:
                    b_holds = False
                    bad_path = [a] + p
        r3.notes.append("%s: alternative B (bounds re-asserted after the last add_frame) %s"
                        % (e.id, "holds" if b_holds else "does not hold"))
        e._c04_b = (b_holds, bad_path)
    r1.require_floor(want, "add_frame sites in the stream encoders")
    out.append(r1)

    # ---------------------------------------------------------------- (2)
    r2 = RuleResult("WHO-CALLS", "frames enter a Stream only through add_frame; update_frame_info writes all four bounds")
    ufi = facts.body("component::datatype::StreamInfo::update_frame_info")
    callers = set()
    pushers = set()
    for b in facts.body_list:
        for bi, t in b.calls():
            fn = t.get("fn") or {}
            if fn.get("def") == ufi.id:
                callers.add(b.id)
            if fn.get("name") == "push" and "component::datatype::Frame" in (fn.get("full") or ""):
                for o in b.origins(t["args"][0]):
                    if o[0] == "param" and ".frames" in o[2]:
                        pushers.add(b.id)
                    if o[0] == "call" and (o[2].get("fn") or {}).get("name") == "frames_mut":
                        pushers.add(b.id + " (via frames_mut)")
    allowed_callers = {STREAM + "::add_frame"}
    extra = callers - allowed_callers
    if extra:
        r2.fail(Finding("WHO-CALLS", sorted(extra)[0], "update_frame_info-called-elsewhere", 0, "",
                        "update_frame_info is also called from %s" % sorted(extra)))
    else:
        r2.ok({"callee": ufi.id, "callers": sorted(callers), "verdict": "ok"})
    for pz in sorted(pushers):
        if pz == STREAM + "::add_frame" or (pz.startswith("component::parser::") and "frames_mut" in pz):
            r2.ok({"frame_list_writer": pz, "verdict": "ok"})
        else:
            r2.fail(Finding("WHO-CALLS", pz, "frame-list-written-outside-add_frame", 0, "",
                            "%s pushes a Frame into Stream.frames without updating the STREAMINFO bounds" % pz))
    # add_frame calls update_frame_info unconditionally
    af = facts.body(STREAM + "::add_frame")
    ub = [bi for bi, t in af.calls() if (t.get("fn") or {}).get("def") == ufi.id]
    if ub and all(af.find_path(0, set(af.returns()), removed=set(ub)) is None for _ in [0]):
        r2.ok({"function": af.id, "clause": "every path through add_frame updates the bounds", "verdict": "ok"})
    else:
        r2.fail(Finding("WHO-CALLS", af.id, "add_frame-skips-update", 0, af.loc(),
                        "a path through add_frame does not call update_frame_info"))
    # fields written
    written = {}
    for bi, si, s in ufi.iter_stmts():
        if s["k"] == "assign" and s["dst"]["p"] and s["dst"]["l"] == 1:
            m = re.findall(r"\.([a-z_]+)$", "".join(s["dst"]["p"]))
            if m:
                written[m[0]] = (bi, si)
    for f in ("min_block_size", "max_block_size", "min_frame_size", "max_frame_size"):
        if f in written:
            r2.ok({"function": ufi.id, "writes": f, "site": ufi.loc(*written[f]), "verdict": "ok"})
        else:
            r2.fail(Finding("WHO-WRITES", ufi.id, "bound-not-updated:" + f, 0, ufi.loc(),
                            "update_frame_info does not assign %s" % f))
    # frame sizes from count_bits / 8
    for f in ("min_frame_size", "max_frame_size"):
        if f not in written:
            continue
        bi, si = written[f]
        rv = ufi.blocks[bi]["stmts"][si]["rv"]
        ok = _from_count_bits_div8(ufi, rv)
        if ok:
            r2.ok({"function": ufi.id, "field": f, "value": "min/max(BitRepr::count_bits(frame) / 8, old)", "verdict": "ok"})
        else:
            r2.fail(Finding("WHO-WRITES", ufi.id, "frame-size-not-from-count_bits:" + f, 0, ufi.loc(bi, si),
                            "%s is not computed from BitRepr::count_bits(frame) / 8" % f))
    r2.require_floor(8, "bound-update obligations")
    out.append(r2)

    # ---------------------------------------------------------------- (3)
    # alternative A: the min_block_size write is guarded by >= 16
    a_holds = False
    if "min_block_size" in written:
        bi, si = written["min_block_size"]
        for c in dominating_checks(facts, ufi, (bi, si)):
            if c["kind"] == "cmp" and c["op"] in ("Ge", "Gt") and (c["const"] or 0) >= (16 if c["op"] == "Ge" else 15):
                a_holds = True
    r3.notes.append("alternative A (write guarded by >= 16): %s" % ("holds" if a_holds else "does not hold"))
    for e in encs:
        b_holds, bad_path = e._c04_b
        sample = {"encoder": e.id, "alternative_A": a_holds, "alternative_B": b_holds}
        if a_holds or b_holds:
            r3.ok(dict(sample, verdict="ok"))
        else:
            r3.fail(Finding("MPT/min-block-size", e.id, "final-short-frame-lowers-min-block-size", 0,
                            e.loc(bad_path[-1], "term") if bad_path else e.loc(),
                            "every added frame - including the final short one - lowers StreamInfo.min_block_size "
                            "(update_frame_info: min(block_size, old), no lower bound), and %s returns Ok without "
                            "re-asserting set_block_sizes(block_size, block_size) after the last add_frame:\n%s\n"
                            "e.g. 4096+7 samples give min_block_size = 7 (< 16, invalid per RFC 9639 section 8.2)"
                            % (e.id, path_str(e, bad_path) if bad_path else "")), dict(sample, verdict="FAIL"))
    r3.require_floor(want, "stream encoders")
    out.append(r3)
    # ------------------------------------------------------------ RANGE/block-size argument
    # the requested block size becomes both STREAMINFO bounds; on every Ok path of an encoder it has been verified to lie
    # in the documented range (in particular >= 16), in the encoder itself or in a `?`-checked callee.
    from . import lib_effect as E
    ra = RuleResult("RANGE/block-size-argument", "on every Ok path of a stream encoder the block_size argument was verified "
                    "to be >= 16 and <= 65535")
    # any other function that produces a Result<Stream, EncodeError> and sets the block-size bounds itself (a frame-less
    # fast path for an empty source, seeded C17-9) writes its argument into STREAMINFO as well: same obligation
    extra = []
    for b_ in facts.body_list:
        if b_.kind != "Fn" or b_ in encs:
            continue
        rp_ = result_parts(b_.raw.get("output"))
        if rp_ is None or rp_[0] != STREAM or rp_[1] != "error::EncodeError":
            continue
        if any(is_setbs(t_) for _x, t_ in b_.calls()):
            extra.append(b_)
    for e in encs + extra:
        ectx = E.Ctx(facts)
        ectx.open_loops = True
        ectx.collect_asserts = True
        from . import lib_fill as _lf
        try:
            _fd = re.escape(_lf.feeder_body(facts).id)
        except FactError:
            _fd = r"<no feeder>"
        # the worker-count function, by role: the par function that asks for the available parallelism
        _wc = [b.id for b in facts.body_list if b.kind == "Fn" and b.id.startswith("par::") and any(
            (tt.get("fn") or {}).get("def", "").endswith("available_parallelism") for _bi, tt in b.calls())]
        ectx.noinline = [r"^coding::encode_fixed", _fd, r"Context::new$", r"ParContext::", r"^par::encode_with"] \
            + [re.escape(x) + "$" for x in _wc]
        it = E.Interp(ectx, e)
        try:
            it.run()
        except E.Undecided as ex:
            ra.fail(Finding("RANGE/block-size-argument", e.id, "undecided", 0, e.loc(), str(ex)))
            continue
        # block_size parameter: the usize parameter handed to set_block_sizes
        bsp = None
        for bi, t in e.calls():
            if is_setbs(t):
                from .lib_expr import expr as lexpr
                a = lexpr(e, t["args"][1])
                if a[0] == "p" and not a[2]:
                    bsp = a
        lo = hi = None
        oks_here = [r for r in ectx.ok_returns if r[0] == e.id]
        if len(oks_here) != 1:
            ra.fail(Finding("RANGE/block-size-argument", e.id, "ok-returns", 0, e.loc(), "expected one `Ok(stream)` site, found %d"
                            % len(oks_here)))
            continue
        for f in oks_here[0][2]:
            if f[0] == "ifnonempty" and f[3] == 1:
                # established in every iteration of a loop over the frame-buffer pool, whose size is the worker count times a
                # constant; the worker count is non-zero (C06 WORKERS/non-zero)
                d = f[1]
                if not (d[0] == "range" and E.is_c(E.strip_casts(d[2]), 0) and any(x in E.canon(d[3]) for x in _wc)):
                    continue
                f = ("cond", f[2], 1)
            if f[0] != "cond" or f[2] != 1:
                continue
            c = E.strip_casts(f[1])
            if not (isinstance(c, tuple) and c[0] == "bin"):
                continue
            a, b = E.strip_casts(c[2]), E.strip_casts(c[3])
            if bsp is not None and a == bsp and E.is_c(b):
                if c[1] == "Ge":
                    lo = b[1] if lo is None else max(lo, b[1])
                if c[1] == "Gt":
                    lo = b[1] + 1 if lo is None else max(lo, b[1] + 1)
                if c[1] == "Le":
                    hi = b[1] if hi is None else min(hi, b[1])
                if c[1] == "Lt":
                    hi = b[1] - 1 if hi is None else min(hi, b[1] - 1)
        sample = {"encoder": e.id, "verified_range": [lo, hi]}
        if e.id.startswith("coding::") and facts.tag != "F0" and bsp is not None and lo is None:
            # the single-thread entry dispatches to the par encoder first; its own path is judged below the dispatch
            pass
        if bsp is not None and lo is not None and lo >= 16 and hi is not None and hi <= 65535:
            ra.ok(dict(sample, verdict="ok"))
        else:
            ra.fail(Finding("RANGE/block-size-argument", e.id, "block-size-not-range-checked", 0, e.loc(),
                            "on the Ok paths of %s the block_size argument is only known to lie in [%s, %s]: a value below 16 "
                            "(or above 65535) would be written into STREAMINFO as minimum/maximum block size"
                            % (e.id, lo, hi)), dict(sample, verdict="FAIL"))
    ra.require_floor(want, "stream encoders")
    out.append(ra)
    out.append(rule_accum(facts))
    # the frame-size bounds are taken from count_bits() in the single-thread loop (and from the precomputed bytes in the
    # workers): they are the sizes of the emitted frames only if write == count_bits for every component (C08)
    from . import c08
    out += c08.size_rules(facts)
    return out


def _from_count_bits_div8(body, rv, depth=0):
    """rvalue derives from count_bits(..) / 8 (possibly through min/max calls and casts)."""
    seen = {"cb": False, "div8": False}

    def walk_op(op, d):
        if d > 20:
            return
        for o in body.origins(op):
            walk_origin(o, d)

    def walk_origin(o, d):
        if o[0] == "call":
            fn = o[2].get("fn") or {}
            if fn.get("name") == "count_bits" and fn.get("trait") == "component::bitrepr::BitRepr":
                seen["cb"] = True
                return
            for a in o[2]["args"]:
                walk_op(a, d + 1)
        elif o[0] == "rv":
            r = o[3]
            if r["k"] == "bin":
                if r["op"] == "Div" and r["b"].get("k") == "const" and r["b"].get("v") == 8:
                    seen["div8"] = True
                if r["op"] == "Shr" and r["b"].get("k") == "const" and r["b"].get("v") == 3:
                    seen["div8"] = True
                walk_op(r["a"], d + 1)
                walk_op(r["b"], d + 1)
            elif "a" in r:
                walk_op(r["a"], d + 1)
        elif o[0] == "cast":
            for s in o[4]:
                walk_origin(s, d + 1)

    if rv["k"] == "use":
        walk_op(rv["op"], 0)
    elif rv["k"] == "cast":
        walk_op(rv["op"], 0)
    else:
        for kk in ("a", "b", "op"):
            if kk in rv and isinstance(rv[kk], dict):
                walk_op(rv[kk], 0)
    return seen["cb"] and seen["div8"]


def rule_accum(facts):
    """ACCUM/bounds: the four bounds are running minima / maxima over the frames: each minimum field becomes
    min(value of this frame, old value), each maximum field max(..), the frame value is the frame's block size resp. its
    count_bits()/8, and a fresh STREAMINFO starts the minima at the largest value of the field type and the maxima at 0
    (the identities of min / max), so the bounds after n frames are the extremes of exactly those n frames."""
    from . import lib_effect as E
    ac = RuleResult("ACCUM/bounds", "STREAMINFO bounds are running min / max over the added frames, started from the identities")
    ufi = facts.body("component::datatype::StreamInfo::update_frame_info")
    ectx = E.Ctx(facts)
    ectx.track_fields = True
    ectx.noinline = [r"count_bits$", r"Frame::block_size$"]
    it = E.Interp(ectx, ufi)
    try:
        it.run()
    except E.Undecided as e:
        ac.fail(Finding("ACCUM/bounds", ufi.id, "undecided", 0, ufi.loc(), "cannot summarise %s: %s" % (ufi.id, e)))
        return ac
    WANT = {"min_block_size": ("min", r"Frame::block_size$"), "max_block_size": ("max", r"Frame::block_size$"),
            "min_frame_size": ("min", r"BitRepr>::count_bits$"), "max_frame_size": ("max", r"BitRepr>::count_bits$")}
    for f, (op, src) in WANT.items():
        v = it.fields.get(("arg1", ("." + f,)))
        where = ufi.loc()
        if v is None:
            ac.fail(Finding("ACCUM/bounds", ufi.id, "not-updated:" + f, 0, where, "update_frame_info leaves %s unchanged" % f))
            continue
        v = E.strip_casts(v)
        old = ("p", 1, ("." + f,))
        is_a1 = lambda y: isinstance(y, tuple) and y and y[0] == "p" and y[1] == 1
        is_a2 = lambda y: isinstance(y, tuple) and y and y[0] == "p" and y[1] == 2
        news = []

        def leaves(x):
            # maximal sub-expressions that depend on the frame and not on self
            if not isinstance(x, tuple) or not x:
                return
            if isinstance(x[0], str) and E.mentions(x, is_a2) and not E.mentions(x, is_a1):
                if x not in news:
                    news.append(x)
                return
            for y in (x if isinstance(x[0], tuple) else x[1:]):
                if isinstance(y, tuple):
                    leaves(y)
        leaves(v)
        distinct = {E.canon(n) for n in news}
        good = False
        why = "the new value is %s" % E.show(v)[:120]
        if len(distinct) == 1:
            n = E.strip_casts(news[0])

            def has_src(x):
                return E.mentions(x, lambda y: isinstance(y, tuple) and y and y[0] == "call" and re.search(src, y[1])
                                  and y[2] and E.strip_casts(y[2][0]) == ("p", 2, ()))
            if src.endswith("count_bits$"):
                srcok = isinstance(n, tuple) and n[0] == "bin" and ((n[1] == "Div" and E.is_c(n[3], 8)) or (n[1] == "Shr" and E.is_c(n[3], 3))) \
                    and E.strip_casts(n[2])[0] == "call" and has_src(n[2])
                why = "the frame value is %s, not count_bits(frame) / 8" % E.show(n)[:100]
            else:
                srcok = n[0] == "call" and has_src(n)
                why = "the frame value is %s, not the frame's block size" % E.show(n)[:100]
            if srcok:
                # the update, as a function of (frame value, old value), is min / max: evaluate the summary on a grid
                fn = min if op == "min" else max
                bad = None
                for nv in (0, 1, 2, 7, 8, 9, 300):
                    for ov in (0, 1, 2, 7, 8, 9, 300):
                        env = {x: nv for x in news}
                        env[old] = ov
                        got = E.evalc(v, env)
                        if got != fn(nv, ov):
                            bad = (nv, ov, got)
                            break
                    if bad:
                        break
                good = bad is None
                if bad:
                    why = "for a frame value of %d and an old value of %d the field becomes %s" % bad
        if good:
            ac.ok({"field": f, "update": E.show(v)[:140], "verdict": "ok"})
        else:
            ac.fail(Finding("ACCUM/bounds", ufi.id, "not-running-%s:%s" % (op, f), 0, where,
                            "%s is not updated as %s(this frame, old value): %s. After the last frame the field is not the %s "
                            "over the emitted frames" % (f, op, why, "smallest" if op == "min" else "largest")))
    # identities in the constructor
    ctor = facts.body("component::datatype::StreamInfo::new")
    it2 = E.Interp(E.Ctx(facts), ctor)
    try:
        it2.run()
        rv = it2.retval
        while isinstance(rv, tuple) and rv and rv[0] in ("okval", "okif"):
            rv = rv[1]
        if isinstance(rv, tuple) and rv[0] == "agg" and rv[2] == "Ok":
            rv = rv[3][0]
        adt = facts.adts.get("component::datatype::StreamInfo")
        names = [x["name"] for x in adt["variants"][0]["fields"]]
        tys = {x["name"]: x["ty"] for x in adt["variants"][0]["fields"]}
        vals = dict(zip(names, rv[3])) if isinstance(rv, tuple) and rv[0] == "agg" and len(rv[3]) == len(names) else {}
        for f, (op, _src) in WANT.items():
            got = E.evalc(vals.get(f)) if f in vals else None
            w = E.INT_BITS.get(tys.get(f))
            want = (1 << w) - 1 if (op == "min" and w) else 0
            if got == want:
                ac.ok({"field": f, "initial": got, "verdict": "identity of " + op})
            else:
                ac.fail(Finding("ACCUM/bounds", ctor.id, "initial:" + f, 0, ctor.loc(),
                                "a fresh STREAMINFO starts %s at %s; the running %s needs %s, otherwise the field never reaches "
                                "the value of the %s frame" % (f, got, op, want, "smallest" if op == "min" else "largest")))
    except E.Undecided as e:
        ac.fail(Finding("ACCUM/bounds", ctor.id, "undecided", 0, ctor.loc(), "cannot summarise %s: %s" % (ctor.id, e)))
    ac.require_floor(8, "bound accumulation obligations")
    return ac
