"""EFFECT — bit-effect inference over the structured Ok-subgraph of MIR bodies (no execution, no solver).

A type-and-effect style analysis.  For a body it produces

  * an *event tree*: the ordered sink operations the body performs on its Ok paths
      ('w', sink, width, value, op, site)         write / write_lsbs / write_msbs / write_twoc / write_zeros
      ('wba', sink, bytes, site)                  write_bytes_aligned  (= align, then 8*len(bytes))
      ('align', sink, site)  ('reset', sink, site)
      ('comp', sink, type, component, site)       nested <T as BitRepr>::write
      ('extra', sink, type, value, site)          BlockSizeSpec/SampleRateSpec::write_extra_bits
      ('push', vec, value, site)                  heapless::Vec::push / Vec::push     (unit = one element)
      ('mark', sink, id)                          MemSink::len / as_slice observed here
      ('loop', desc, [events])                    desc = ('range', id, lo, hi) | ('coll', id, X)
      ('case', scrutinee, [(label, [events])])
  * the *return value* as a symbolic expression (accumulators in loops become closed-form sums).

Expressions are the nested tuples of lib_expr plus
  ('idx', id) ('elem', id)        loop index / element            ('sumloop', desc, step)   closed-form sum
  ('okval', r)                    payload of `r?` / unwrap        ('case', scrut, ((label, e), ...))
  ('closure', id, upvars)         ('storage', key)                ('sinklen', id) ('sinkbytes', id)
  ('iter', X) ('map', it, f) ('next', id)

NF (normal form) = polynomial over atoms with case trees:  ('poly', {monomial: coeff}) | ('case', key, {label: NF}).
Anything the engine cannot normalise raises Undecided (the obligation is then reported, never guessed).
"""
import re

from .core import op_place

BITSINK = "bitsink::BitSink"
BITREPR = "component::bitrepr::BitRepr"

PASS = [
    r"^<.* as std::ops::Deref>::deref$", r"^<.* as std::ops::DerefMut>::deref_mut$",
    r"Vec::<T, A>::as_slice$", r"Vec::<T, A>::as_mut_slice$", r"^<.* as std::convert::AsRef<.*>>::as_ref$",
    r"^<.* as std::borrow::Borrow<.*>>::borrow$", r"^<.* as std::clone::Clone>::clone$",
    r"^<.* as std::convert::Into<.*>>::into$", r"^<.* as std::convert::From<.*>>::from$",
    r"^std::cell::RefCell::<.*>::borrow_mut$", r"^std::cell::RefCell::<T>::borrow_mut$",
    r"^std::option::Option::<.*>::as_ref$", r"^std::option::Option::<T>::as_ref$",
    r"^std::result::Result::<.*>::map_err", r"^std::result::Result::<T, E>::map_err",
    r"^core::slice::<impl \[.*\]>::iter$", r"^<.* as std::iter::IntoIterator>::into_iter$",
    r"^heapless::.*::as_slice$", r"^std::convert::identity",
]
LEN = [r"^core::slice::<impl \[.*\]>::len$", r"^std::vec::Vec::<.*>::len$", r"^heapless::.*::len$"]
OKVAL = [r"^std::result::Result::<.*>::unwrap$", r"^std::result::Result::<.*>::expect$",
         r"^std::option::Option::<.*>::unwrap$", r"^std::option::Option::<.*>::expect$"]
NOINLINE = [r"BitRepr>::", r"::count_extra_bits$", r"::write_extra_bits$", r"utf8like_bytesize$",
            r"encode_to_utf8like$", r"::checksum$", r"::tag$", r"::into_tag$"]

INT_BITS = {"u8": 8, "i8": 8, "u16": 16, "i16": 16, "u32": 32, "i32": 32, "u64": 64, "i64": 64,
            "usize": 64, "isize": 64}


class Undecided(Exception):
    pass


def has_effect(ev, ignore_push=False):
    """Does an event list contain anything but empty control structure and marks?"""
    for e in ev:
        if e[0] == "mark" or (ignore_push and e[0] == "push"):
            continue
        if e[0] == "loop":
            if has_effect(e[2], ignore_push):
                return True
        elif e[0] == "case":
            if any(has_effect(x, ignore_push) for _l, x in e[2]):
                return True
        else:
            return True
    return False


def mk_okval(r):
    """Payload of `r?` / unwrap: folds Ok(x)? and Some(x)? immediately."""
    if isinstance(r, tuple) and r and r[0] == "allok":
        return mk_okval(r[1][-1])
    if isinstance(r, tuple) and r and r[0] == "okif":
        return mk_okval(r[1])
    if isinstance(r, tuple) and r and r[0] == "optmap":
        return r[2]
    if isinstance(r, tuple) and r and r[0] == "agg" and r[2] in ("Ok", "Some") and len(r[3]) == 1 \
            and r[1] in ("std::result::Result", "std::option::Option"):
        return r[3][0]
    return ("okval", r)


def fn_names(fn):
    return [x for x in (fn.get("res_full"), fn.get("res"), fn.get("full"), fn.get("def")) if x]


def fn_is(fn, pats):
    ns = fn_names(fn)
    return any(re.search(p, n) for p in pats for n in ns)


def C(v):
    return ("c", v, None)


def proj_of(e, p):
    """Value expression for the projection p of e (same shapes the interpreter builds)."""
    k = e[0]
    if k == "p":
        return ("p", e[1], tuple(e[2]) + tuple(p))
    if k == "l":
        return ("l", e[1], e[2], tuple(e[3]) + tuple(p))
    if k == "proj":
        return ("proj", e[1], tuple(e[2]) + tuple(p))
    return ("proj", e, tuple(p))


def is_c(e, v=None):
    return isinstance(e, tuple) and e[0] == "c" and isinstance(e[1], int) and (v is None or e[1] == v)


def strip_casts(e):
    while isinstance(e, tuple) and e and e[0] == "cast":
        e = e[2]
    return e


def mk_bin(op, a, b):
    if op == "Add":
        if is_c(a, 0):
            return b
        if is_c(b, 0):
            return a
    if op == "Mul":
        if is_c(a, 1):
            return b
        if is_c(b, 1):
            return a
    if op == "Sub" and is_c(b, 0):
        return a
    if is_c(a) and is_c(b):
        x, y = a[1], b[1]
        if op == "Add":
            return C(x + y)
        if op == "Sub":
            return C(x - y)
        if op == "Mul":
            return C(x * y)
        if op == "Shl":
            return C(x << y)
        if op == "Shr":
            return C(x >> y)
        if op == "BitOr":
            return C(x | y)
    return ("bin", op, a, b)


def mentions(e, pred):
    if not isinstance(e, tuple) or not e:
        return False
    if pred(e):
        return True
    # a node is (kind, children...); an argument list is a bare tuple of nodes: visit all of its elements
    for x in (e if isinstance(e[0], tuple) else e[1:]):
        if isinstance(x, tuple) and mentions(x, pred):
            return True
    return False


# ------------------------------------------------------------------------------------------- interpreter

class Ctx:
    """Shared across one top-level analysis: id counters, marks."""

    def __init__(self, facts):
        self.facts = facts
        self.nloop = 0
        self.nmark = 0
        self.notes = []
        self.arrlen = {}
        self.noinline = []          # extra regexes of callees that must stay opaque calls
        self.reader = False         # reader mode: applications of nom parser values become events
        self.open_loops = False     # accept loops without a recognisable trip count (body recorded once)
        self.track_fields = False   # track stores to fields of by-reference parameters (sink internals)
        self.veclen_keys = set()
        self.merge_helpers = True   # inline private helpers that write to a sink passed to them
        self.option_algebra = False  # model Option / bool combinators as case trees (then_some, or, filter, map_or, ...)
        self.wtypes = {}            # site -> operand type of write_msbs / write_lsbs / write_twoc events
        self.sink_internal = False  # analyse BitSink impls themselves: sink methods are inlined, not turned into events
        self.fields_written = set()
        self.field_base = {}
        self.collect_asserts = False  # record every assert terminator / panicky std call with the facts known there
        self.asserts = []
        self.aggs = []              # aggregate construction sites (crate enums/structs) with the facts known there
        self.ok_returns = []        # (body id, block, facts) at every `_0 = Ok(..)` of a body
        self.verify_fn = r"verify_macro_impl$"   # fn(cond, ..) -> Result that is Ok iff cond
        self.napply = 0
        self.log_calls = None       # regex: calls whose (name, args, site) are appended to self.calls
        self.calls = []

    def apply_id(self):
        self.napply += 1
        return self.napply

    def loop_id(self):
        self.nloop += 1
        return self.nloop

    def mark_id(self):
        self.nmark += 1
        return self.nmark


class Interp:
    def __init__(self, ctx, body, args=None, depth=0):
        self.ctx = ctx
        self.facts = ctx.facts
        self.body = body
        self.depth = depth
        self.env = {}
        for i in range(1, body.argc + 1):
            self.env[i] = args[i - 1] if args and i - 1 < len(args) and args[i - 1] is not None else ("p", i, ())
        self.veclen = {}
        self.fields = {}
        self.tsubst = {}            # generic type parameter name -> concrete type (set when inlined with known generics)
        self.assume = []
        self._ok = None
        self._ipdom = None
        self.retval = None

    # ------------------------------------------------------------------ ok sub-graph
    def bad_blocks(self):
        bad = set()
        b = self.body
        for bi in b.live:
            t = b.term(bi)
            if t["k"] == "call" and t.get("fn") and t["fn"].get("name") == "from_residual" and t["dst"]["l"] == 0:
                bad.add(bi)
            for s in b.blocks[bi]["stmts"]:
                if s["k"] == "assign" and s["dst"]["l"] == 0 and not s["dst"]["p"] and s["rv"]["k"] == "agg" \
                        and s["rv"].get("variant") == "Err":
                    bad.add(bi)
        return bad

    @property
    def ok(self):
        if self._ok is None:
            b = self.body
            bad = self.bad_blocks()
            fwd = b.reachable(0, removed=bad)
            rets = [r for r in b.returns() if r in fwd]
            back = set(rets)
            stack = list(rets)
            while stack:
                x = stack.pop()
                for p in b.pred[x]:
                    if p in fwd and p not in back:
                        back.add(p)
                        stack.append(p)
            self._ok = fwd & back
        return self._ok

    def oksucc(self, bi):
        return [x for x in self.body.succ[bi] if x in self.ok]

    @property
    def ipdom(self):
        if self._ipdom is None:
            b = self.body
            nodes = set(self.ok)
            EXIT = -1
            succ = {n: self.oksucc(n) for n in nodes}
            rsucc = {n: [] for n in nodes}
            rsucc[EXIT] = []
            rpred = {n: [] for n in nodes}
            rpred[EXIT] = []
            for n in nodes:
                if b.term(n)["k"] == "ret":
                    rsucc[EXIT].append(n)
                    rpred[n].append(EXIT)
                for s in succ[n]:
                    rsucc[s].append(n)
                    rpred[n].append(s)
            self._ipdom = b._compute_dom(rsucc, rpred, EXIT, nodes | {EXIT})
        return self._ipdom

    # ------------------------------------------------------------------ evaluation
    def operand(self, op):
        if op is None:
            return ("?", "none")
        if op.get("k") == "const":
            if "closure" in op:
                return ("closure", op["closure"], ())
            if "def" in op:
                return ("fn", (op.get("fn") or {}).get("res_full") or (op.get("fn") or {}).get("full") or op["def"])
            if "cdef" in op:
                v = op.get("sv", op.get("v"))
                if isinstance(v, int):
                    return ("c", v, None)
                m = re.match(r"^<(\w+) as bitsink::seal_(?:signed_)?bits::Sealed>::BITS(_LOG2)?$", op.get("s") or "")
                if m:
                    ty = self.tsubst.get(m.group(1), m.group(1))
                    if ty in INT_BITS:
                        return C(INT_BITS[ty] if not m.group(2) else INT_BITS[ty].bit_length() - 1)
                return ("c", v, op["cdef"])
            if "param" in op:
                return ("cparam", op["param"])
            if "static" in op:
                return ("static", op["static"])
            if op.get("promoted"):
                pid = re.sub(r"::<[^<>]*>", "", op.get("s") or "")
                pb = self.facts.bodies.get(pid) or self.facts.bodies.get(op.get("s") or "")
                if pb is not None and self.depth < 8:
                    try:
                        sub = Interp(self.ctx, pb, [], self.depth + 1)
                        sub.run()
                        if sub.retval is not None:
                            self.note_array(sub.retval, op.get("ty"))
                            return sub.retval
                    except Undecided:
                        pass
            v = op.get("sv", op.get("v"))
            if v is None:
                v = op.get("s")
            r = ("c", v, None)
            self.note_array(r, op.get("ty"))
            return r
        pl = op_place(op)
        if pl is None:
            return ("?", "operand")
        return self.place(pl)

    def place(self, pl):
        v = self.place0(pl)
        ty = pl.get("ty") if pl["p"] else self.body.local_ty(pl["l"])
        self.note_array(v, ty)
        return v

    def note_array(self, v, ty):
        m = re.match(r"^&?(?:mut )?\[[^;\]]+; (\d+)\]$", ty or "")
        if m:
            self.ctx.arrlen[canon(v)] = int(m.group(1))

    def place0(self, pl):
        base = self.env.get(pl["l"])
        if base is None:
            base = ("l", self.body.id, pl["l"], ())
        p = []
        for x in pl["p"]:
            if x == "*":
                continue
            m = re.match(r"^\[_(\d+)\]$", x)
            if m:
                idx = self.env.get(int(m.group(1)), ("l", self.body.id, int(m.group(1)), ()))
                base = self.proj(base, p)
                p = []
                base = ("index", base, idx)
                continue
            p.append(x)
        if self.ctx.track_fields and p and all(x.startswith(".") for x in p):
            key = (canon(base), tuple(p))
            if key in self.fields:
                return self.fields[key]
        return self.proj(base, p)

    def proj(self, e, p):
        p = [x for x in p if x != "*"]
        if not p:
            return e
        k = e[0]
        if k == "p":
            return ("p", e[1], tuple(e[2]) + tuple(p))
        if k == "l":
            return ("l", e[1], e[2], tuple(e[3]) + tuple(p))
        if k in ("elem", "storage", "proj", "index", "okval") and k != "proj":
            return ("proj", e, tuple(p))
        if k == "proj":
            return ("proj", e[1], tuple(e[2]) + tuple(p))
        if k == "okif":
            return self.proj(e[1], p)
        if k == "ovf":
            if p[0] == ".0":
                return self.proj(e[1], p[1:])
            if p[0] == ".1":
                return ("c", 0, None)      # overflow flag of a checked op: false on every non-panicking path
        if k == "branch":
            if p[0] == "@Continue" and len(p) >= 2 and p[1] == ".0":
                return self.proj(mk_okval(e[1]), p[2:])
            return ("?", "branch-proj")
        if k == "next":
            if p[0] == "@Some" and len(p) >= 2 and p[1] == ".0":
                return self.proj(e[1], p[2:])
            return ("?", "next-proj")
        if k == "closure":
            m = re.match(r"^\.(\d+)$", p[0])
            if m and int(m.group(1)) < len(e[2]):
                return self.proj(e[2][int(m.group(1))], p[1:])
        if k == "agg":
            q = p
            if q[0].startswith("@"):
                if e[2] != q[0][1:]:
                    return ("?", "variant-mismatch")
                q = q[1:]
                if not q:
                    return e
            m = re.match(r"^\.(\d+)$", q[0])
            if m and int(m.group(1)) < len(e[3]):
                return self.proj(e[3][int(m.group(1))], q[1:])
        if k == "case":
            return ("case", e[1], tuple((lab, self.proj(v, p)) for lab, v in e[2]))
        if k == "call" or k == "cast" or k == "len" or k == "sinkbytes":
            return ("proj", e, tuple(p))
        return ("proj", e, tuple(p))

    def rvalue(self, rv):
        k = rv["k"]
        if k == "use":
            return self.operand(rv["op"])
        if k in ("ref", "copyderef", "rawptr"):
            return self.place(rv["pl"])
        if k == "cast":
            inner = self.operand(rv["op"])
            ck = rv.get("ck", "")
            if ck.startswith("PointerCoercion") or ck in ("Transmute", "PtrToPtr"):
                return inner
            if is_c(inner):
                return inner
            return ("cast", rv.get("to"), inner, rv.get("from"))
        if k == "bin":
            op = rv["op"].replace("WithOverflow", "")
            if op.endswith("Unchecked"):
                op = op[:-9]
            a_, b_ = self.operand(rv["a"]), self.operand(rv["b"])
            # comparisons of an unsigned value with 0 that are constant (`0..=7` patterns generate `0 <= x`)
            if op in ("Le", "Ge", "Lt", "Gt") and re.match(r"^(u8|u16|u32|u64|u128|usize)$", self.body.op_ty(rv["a"]) or ""):
                if (op == "Le" and is_c(a_, 0)) or (op == "Ge" and is_c(b_, 0)):
                    return C(1)
                if (op == "Lt" and is_c(b_, 0)) or (op == "Gt" and is_c(a_, 0)):
                    return C(0)
            v = mk_bin(op, a_, b_)
            if rv["op"].endswith("WithOverflow"):
                return ("ovf", v, op, a_, b_, self.body.op_ty(rv["a"]))
            return v
        if k == "un":
            if rv["op"] == "PtrMetadata":
                return self.len_of(self.operand(rv["a"]))
            return ("un", rv["op"], self.operand(rv["a"]))
        if k == "agg":
            ops = tuple(self.operand(o) for o in rv.get("ops", []))
            if rv.get("ak") == "closure":
                return ("closure", rv["closure"], ops)
            return ("agg", rv.get("adt", rv.get("ak")), rv.get("variant"), ops)
        if k == "discr":
            return ("discr", self.place(rv["pl"]))
        if k == "repeat":
            return ("repeat", self.operand(rv["op"]))
        return ("?", k)

    def field_default(self, k):
        """Value of a tracked field that has not been stored to yet."""
        if k[1] and k[1][-1] == "#len":
            return ("len", self.proj(self.ctx.field_base[k], list(k[1][:-1])))
        return self.proj(self.ctx.field_base[k], list(k[1]))

    def len_of(self, x):
        if self.ctx.track_fields:
            r0 = strip_casts(x)
            if isinstance(r0, tuple) and r0 and r0[0] == "p" and r0[2]:
                fk = (canon(("p", r0[1], ())), tuple(r0[2]) + ("#len",))
                if fk in self.fields:
                    return self.fields[fk]
        x0 = strip_casts(x)
        # lengths that follow from the construction: a copy has the length of its source, a sub-slice the length of its range
        if isinstance(x0, tuple) and x0 and x0[0] == "call" and len(x0[2]) >= 1:
            nm = x0[1]
            if re.search(r"::(to_vec|to_owned|clone|as_slice|as_mut_slice|as_ref|as_mut|into_vec|into_boxed_slice)$", nm) and len(x0[2]) == 1:
                return self.len_of(x0[2][0])
            if re.search(r"ops::Index(Mut)?<std::ops::Range(To|From|ToInclusive|Inclusive)?<usize>> for|Index(Mut)?<std::ops::Range", nm) \
                    and len(x0[2]) == 2 and isinstance(x0[2][1], tuple) and x0[2][1] and x0[2][1][0] == "agg":
                r = x0[2][1]
                if r[1] == "std::ops::RangeTo" and len(r[3]) == 1:
                    return r[3][0]
                if r[1] == "std::ops::Range" and len(r[3]) == 2:
                    return mk_bin("Sub", r[3][1], r[3][0])
                if r[1] == "std::ops::RangeFrom" and len(r[3]) == 1:
                    return mk_bin("Sub", self.len_of(x0[2][0]), r[3][0])
        key = canon(x)
        if key in self.veclen:
            return self.veclen[key]
        if key in self.ctx.arrlen:
            return C(self.ctx.arrlen[key])
        return ("len", x)

    # ------------------------------------------------------------------ calls
    def call(self, bi, t, ev):
        """Evaluate a call terminator: returns the value assigned to the destination; appends events to ev."""
        fn = t.get("fn")
        args = [self.operand(a) for a in t["args"]]
        site = self.body.loc(bi, "term")
        if not fn:
            return ("call", "<indirect>", tuple(args), ())
        name = fn.get("name")
        full = fn.get("res_full") or fn.get("full") or fn["def"]
        trait = fn.get("trait")
        if self.ctx.log_calls and re.search(self.ctx.log_calls, full):
            self.ctx.calls.append((full, tuple(args), site, self.body.id,
                                   list(self.assume) if self.ctx.collect_asserts else None))
        # ---- sink operations (trait methods, on any receiver)
        if trait == BITSINK and not (self.ctx.sink_internal and (fn.get("res") in self.facts.bodies)):
            g = fn.get("gargs") or []
            if name == "write":
                ty = g[1] if len(g) > 1 else "?"
                if ty not in INT_BITS:
                    raise Undecided("write::<%s> at %s: operand width unknown" % (ty, site))
                ev.append(("w", args[0], C(INT_BITS[ty]), args[1], "write", site))
            elif name in ("write_lsbs", "write_msbs", "write_twoc"):
                ev.append(("w", args[0], args[2], args[1], name, site))
                self.ctx.wtypes[site] = g[1] if len(g) > 1 else None
            elif name == "write_zeros":
                ev.append(("w", args[0], args[1], C(0), name, site))
            elif name == "write_bytes_aligned":
                ev.append(("wba", args[0], args[1], self.len_of(args[1]), site))
            elif name == "align_to_byte":
                ev.append(("align", args[0], site))
            else:
                raise Undecided("unknown BitSink method %s at %s" % (name, site))
            return ("call", full, tuple(args), ())
        if re.match(r"^bitsink::MemSink::<.*>::", full) or re.match(r"^bitsink::MemSink::<", fn["def"]) \
                or fn["def"].startswith("bitsink::MemSink::"):
            if name == "clear":
                ev.append(("reset", args[0], site))
                return C(0)
            if name in ("len", "as_slice"):
                mid = self.ctx.mark_id()
                ev.append(("mark", args[0], mid))
                return ("sinklen", mid) if name == "len" else ("sinkbytes", mid)
            if name in ("paddings", "paddings_to_byte") and self.ctx.sink_internal \
                    and not (self.ctx.noinline and fn_is(fn, self.ctx.noinline)):
                v = self.try_inline(fn, args)
                if v is not None:
                    return v
            if name in ("reserve", "write_to_byte_slice", "new", "with_capacity", "is_empty", "into_inner", "to_bitstring", "paddings", "paddings_to_byte"):
                return ("call", full, tuple(args), ())
            if not self.ctx.sink_internal:
                # a private, effect-free helper of the sink type (e.g. the shared padding formula) is just a function
                if not (t.get("argtys") or [""])[0].startswith("&mut "):
                    v = self.try_inline(fn, args)
                    if v is not None:
                        return v
                raise Undecided("unmodelled MemSink method %s at %s" % (name, site))
        if trait == BITREPR and name == "write":
            ev.append(("comp", args[1], fn.get("self_ty"), args[0], site))
            return ("call", full, tuple(args), ())
        if name == "write_extra_bits" and fn.get("local"):
            ev.append(("extra", args[1], fn["def"].rsplit("::", 1)[0], args[0], site))
            return ("call", full, tuple(args), ())
        # ---- vectors
        if self.ctx.track_fields and re.search(r"Vec::<|^<std::vec::Vec<", full) and args:
            r0 = strip_casts(args[0])
            if isinstance(r0, tuple) and r0 and r0[0] == "p" and r0[2] and all(x.startswith(".") for x in r0[2]):
                base = ("p", r0[1], ())
                key = (canon(base), tuple(r0[2]) + ("#len",))
                cur = self.fields.get(key, ("len", r0))
                new = None
                if name == "push":
                    new = mk_bin("Add", cur, C(1))
                elif name == "extend_from_slice" and len(args) == 2:
                    new = mk_bin("Add", cur, self.len_of(args[1]))
                elif name == "resize" and len(args) >= 2:
                    new = args[1]
                elif name == "clear":
                    new = C(0)
                elif name == "extend" and len(args) == 2 and isinstance(args[1], tuple) and args[1] and args[1][0] == "call" \
                        and re.search(r"Iterator>?::take$|::take$", args[1][1]) and len(args[1][2]) == 2 \
                        and isinstance(args[1][2][0], tuple) and args[1][2][0] and args[1][2][0][0] == "call" \
                        and re.search(r"iter::repeat(::<.*>)?$|iter::repeat_n", args[1][2][0][1]):
                    # extend(repeat(x).take(n)): n more elements
                    new = mk_bin("Add", cur, args[1][2][1])
                elif name in ("truncate", "pop", "insert", "append", "extend", "resize_with", "drain", "remove", "retain",
                              "split_off", "dedup", "swap_remove", "set_len"):
                    new = ("?", "vec length after %s" % name)
                if new is not None:
                    self.ctx.field_base[key] = base
                    self.ctx.veclen_keys.add(key)
                    self.fields[key] = new
                    self.ctx.fields_written.add(key)
                    if name != "push":
                        return C(0) if name in ("resize", "clear") else ("call", full, tuple(args), ())
        if name == "push" and (re.search(r"heapless::", full) or re.search(r"Vec::<", full)):
            ev.append(("push", args[0], args[1], site))
            return ("call", full, tuple(args), ())
        if name == "resize" and re.search(r"Vec::<", full) and len(args) >= 2:
            self.veclen[canon(args[0])] = args[1]
            return C(0)
        if fn_is(fn, LEN) and len(args) == 1:
            return self.len_of(args[0])
        # ---- control combinators
        if name == "branch" and trait == "std::ops::Try":
            return ("branch", args[0])
        if fn_is(fn, OKVAL):
            return mk_okval(args[0])
        if name == "with" and re.search(r"LocalKey", full) and len(args) == 2:
            clo = args[1]
            key = args[0]
            return self.inline_closure(clo, [("storage", canon(key))], ev, site)
        if name in ("call_mut", "call_once", "call") and trait in ("std::ops::FnMut", "std::ops::FnOnce", "std::ops::Fn"):
            clo = args[0]
            tup = args[1]
            if tup[0] == "agg" and tup[1] == "tuple":
                if self.ctx.reader:
                    return self.apply_parser(clo, list(tup[3]), ev, site)
                return self.inline_closure(clo, list(tup[3]), ev, site)
            raise Undecided("closure call with untupled arguments at %s" % site)
        if self.ctx.reader and re.match(r"^nom::number::(streaming|complete)::be_u(8|16|24|32|64)$", fn["def"]):
            aid = self.ctx.apply_id()
            ev.append(("apply", ("fn", fn["def"]), site, aid))
            return ("applied", aid, ("fn", fn["def"]))
        if self.ctx.reader and fn["def"].startswith("component::parser::") and fn["def"] in self.facts.bodies \
                and re.match(r"^std::result::Result<\(.*nom::Err<", t.get("dty") or ""):
            aid = self.ctx.apply_id()
            pe = ("call", fn["def"], tuple(args[1:]) if False else tuple(args), ())
            ev.append(("apply", pe, site, aid))
            return ("applied", aid, pe)
        if self.ctx.option_algebra:
            v = self.option_op(fn, name, full, args, ev, site)
            if v is not None:
                return v
        if name == "and_then" and re.search(r"^std::(result::Result|option::Option)::<", full) and len(args) == 2 \
                and isinstance(strip_casts(args[1]), tuple) and strip_casts(args[1])[0] == "closure":
            # r.and_then(f): on the Ok path the closure runs with r's payload; the result is Ok iff both are
            r2 = self.inline_closure(args[1], [mk_okval(args[0])], ev, site)
            return ("allok", (args[0], r2))
        if name == "map" and self.ctx.collect_asserts and re.search(r"^std::option::Option::<", full) and len(args) == 2 \
                and isinstance(strip_casts(args[1]), tuple) and strip_casts(args[1])[0] == "closure":
            v = self.inline_closure(args[1], [self.proj(args[0], ["@Some", ".0"])], ev, site)
            return ("optmap", args[0], v)
        if name == "map_or_else" and re.search(r"Option", full) and len(args) == 3:
            none_v = self.inline_closure(args[1], [], ev, site, pure=True)
            some_v = self.inline_closure(args[2], [self.proj(args[0], ["@Some", ".0"])], ev, site, pure=True)
            return ("case", ("discr", args[0]), ((0, none_v), (1, some_v)))
        if name == "try_repeat_while" and len(args) == 2:
            n = None
            m = re.search(r"repeat::Count<(\d+)>", full)
            if m:
                n = int(m.group(1))
            ev.append(("repeat", n, args[0], args[1], site))
            return ("call", full, tuple(args), ())
        if name == "max" and fn_is(fn, [r"^std::cmp::max"]):
            return ("call", "max", tuple(args), ())
        # ---- iterators
        if name == "into_iter" and trait == "std::iter::IntoIterator":
            return ("iter", args[0])
        if name == "iter" and fn_is(fn, [r"^core::slice::<impl \[.*\]>::iter$"]):
            return ("iter", args[0])
        if name == "map" and trait == "std::iter::Iterator":
            return ("map", args[0], args[1])
        if name == "sum" and trait == "std::iter::Iterator":
            return ("itersum", args[0])
        if name == "collect" and trait == "std::iter::Iterator":
            return ("collect", args[0])
        # ---- pass-through
        if fn_is(fn, PASS) and args:
            return args[0]
        # ---- internal iteration: for_each / try_for_each / fold over a collection == the equivalent `for` loop
        if trait == "std::iter::Iterator" and name in ("for_each", "try_for_each") and len(args) == 2 \
                and isinstance(strip_casts(args[1]), tuple) and strip_casts(args[1])[0] == "closure" and not self.ctx.reader:
            lid = self.ctx.loop_id()
            # xs.map(f).for_each(g) is `for x in xs { g(f(x)) }`
            src_it = args[0]
            mapper = None
            s0 = strip_casts(src_it)
            if isinstance(s0, tuple) and s0 and s0[0] == "map" and isinstance(strip_casts(s0[2]), tuple) \
                    and strip_casts(s0[2])[0] == "closure":
                src_it, mapper = s0[1], s0[2]
            desc = self.iter_desc(src_it, lid)
            pev = []
            na = len(self.assume)
            self.assume.append(("range", ("idx", lid), desc[2], desc[3]) if desc[0] == "range" else ("elemof", ("elem", lid), desc[2]))
            if mapper is not None and not self.ctx.track_fields:
                item = self.inline_closure(mapper, [desc_var(desc)], pev, site)
                self.inline_closure(args[1], [item], pev, site)
                del self.assume[na:]
                ev.append(("loop", desc, pev))
                if name == "try_for_each":
                    return ("agg", "std::result::Result", "Ok", (("agg", "tuple", None, ()),))
                return ("agg", "tuple", None, ())
            if self.ctx.track_fields:
                # fields written by the closure are loop carried: discover them, find their per-iteration steps, and
                # leave `initial + SUM(step)` behind (same treatment as a `for` loop)
                pre = dict(self.fields)
                self.inline_closure(args[1], [desc_var(desc)], [], site)
                keys = [k for k in self.fields if self.fields.get(k) != pre.get(k)]
                self.fields.clear()
                self.fields.update(pre)
                for k in keys:
                    self.fields[k] = ("lc", lid, k)
                self.inline_closure(args[1], [desc_var(desc)], [], site)
                after = dict(self.fields)
                steps = {k: field_step(after.get(k), ("lc", lid, k), lid) for k in keys}
                itno = ("idx", lid) if desc[0] != "range" else mk_bin("Sub", ("idx", lid), desc[2])
                closed = {k: mk_bin("Add", pre.get(k, self.field_default(k)), mk_bin("Mul", itno, st))
                          for k, st in steps.items() if is_c(st) and st[1] != 0}

                def close(e):
                    if not isinstance(e, tuple) or not e:
                        return e
                    if e[0] == "lc" and len(e) > 2 and e[1] == lid and e[2] in closed:
                        return closed[e[2]]
                    return tuple(close(x) if isinstance(x, tuple) else x for x in e)
                for k in keys:
                    if steps.get(k) is None and closed:
                        steps[k] = field_step(close(after.get(k)), ("lc", lid, k), lid)
                self.fields.clear()
                self.fields.update(pre)
                for k in keys:
                    self.fields[k] = closed.get(k, ("partial", lid, k))
                self.inline_closure(args[1], [desc_var(desc)], pev, site)
                self.fields.clear()
                self.fields.update(pre)
                for k in keys:
                    st = steps.get(k)
                    init = pre.get(k, self.field_default(k))
                    if st is None:
                        self.fields[k] = ("?", "field after internal iteration")
                    elif not is_c(st, 0):
                        self.fields[k] = mk_bin("Add", init, ("sumloop", desc, close(st) if closed else st))
            else:
                self.inline_closure(args[1], [desc_var(desc)], pev, site)
            del self.assume[na:]
            ev.append(("loop", desc, pev))
            if name == "try_for_each":
                return ("agg", "std::result::Result", "Ok", (("agg", "tuple", None, ()),))
            return ("agg", "tuple", None, ())
        if trait == "std::iter::Iterator" and name in ("find_map", "all", "any", "find", "position") and len(args) == 2 \
                and isinstance(strip_casts(args[1]), tuple) and strip_casts(args[1])[0] == "closure" \
                and not self.ctx.reader and not self.ctx.track_fields:
            # short-circuiting internal iteration: the closure runs on a prefix of the elements; what it checks / writes per
            # element is recorded once (as for a `for` loop), the result of the search itself stays opaque
            lid = self.ctx.loop_id()
            try:
                desc = self.iter_desc(args[0], lid)
                pev = []
                na = len(self.assume)
                self.assume.append(("range", ("idx", lid), desc[2], desc[3]) if desc[0] == "range"
                                   else ("elemof", ("elem", lid), desc[2]))
                qr = self.inline_closure(args[1], [desc_var(desc)], pev, site)
                del self.assume[na:]
                ev.append(("loop", desc, pev))
                if self.ctx.collect_asserts and name in ("any", "all") and not has_effect(pev) and isinstance(qr, tuple):
                    # a pure predicate: `!any(p)` / `all(p)` state p == 0 / p == 1 for every element (see assume_eq)
                    return ("quant", name, desc, qr, full)
            except Undecided:
                pass
            return ("call", full, tuple(args), ())
        if trait == "std::iter::Iterator" and name == "fold" and len(args) == 3 \
                and isinstance(strip_casts(args[2]), tuple) and strip_casts(args[2])[0] == "closure" and not self.ctx.reader:
            lid = self.ctx.loop_id()
            try:
                desc = self.iter_desc(args[0], lid)
                acc = ("lc", lid, "acc")
                pev = []
                r = self.inline_closure(args[2], [acc, desc_var(desc)], pev, site)
                r0 = r[1] if isinstance(r, tuple) and r and r[0] == "ovf" else r
                step = None
                if isinstance(r0, tuple) and r0 and r0[0] == "bin" and r0[1] == "Add":
                    is_acc = lambda e: e == acc
                    if r0[2] == acc and not mentions(r0[3], is_acc):
                        step = r0[3]
                    elif r0[3] == acc and not mentions(r0[2], is_acc):
                        step = r0[2]
                if step is not None and not has_effect(pev):
                    return mk_bin("Add", args[1], ("sumloop", desc, step))
            except Undecided:
                pass
        # ---- closures passed to an unknown combinator must not hide sink operations
        for a in args:
            if isinstance(a, tuple) and a[0] == "closure" and self.closure_touches_sink(a[1]):
                raise Undecided("closure with sink operations passed to unmodelled %s at %s" % (full, site))
        # ---- inline small pure local functions (accessors, arithmetic helpers)
        v = self.try_inline(fn, args, ev)
        if v is not None:
            return v
        if self.ctx.sink_internal and fn.get("local") and (t.get("argtys") or [""])[0].startswith("&mut ") \
                and not fn_is(fn, NOINLINE) and not (self.ctx.noinline and fn_is(fn, self.ctx.noinline)):
            raise Undecided("cannot summarise %s (called with a mutable sink at %s)" % (full, site))
        return ("call", full, tuple(args), tuple(fn.get("gargs") or ()))

    # ------------------------------------------------------------------ Option algebra (ctx.option_algebra)
    def opt_case(self, o, on_none, on_some):
        """Case analysis of an Option value: on_none() / on_some(payload) are applied at the leaves."""
        o0 = strip_casts(o)
        if isinstance(o0, tuple) and o0 and o0[0] == "agg" and o0[2] == "None":
            return on_none()
        if isinstance(o0, tuple) and o0 and o0[0] == "agg" and o0[2] == "Some" and len(o0[3]) == 1:
            return on_some(o0[3][0])
        if isinstance(o0, tuple) and o0 and o0[0] == "case":
            return ("case", o0[1], tuple((lab, self.opt_case(v, on_none, on_some)) for lab, v in o0[2]))
        return ("case", ("discr", o0), ((0, on_none()), (1, on_some(self.proj(o0, ["@Some", ".0"])))))

    def option_op(self, fn, name, full, args, ev, site):
        NONE = ("agg", "std::option::Option", "None", ())
        some = lambda v: ("agg", "std::option::Option", "Some", (v,))
        is_clo = lambda x: isinstance(strip_casts(x), tuple) and strip_casts(x)[0] == "closure"
        call = lambda clo, ps: self.inline_closure(clo, ps, ev, site, pure=True)
        if re.search(r"^core::bool::<impl bool>::then_some$", fn["def"]) and len(args) == 2:
            return ("case", args[0], ((0, NONE), (1, some(args[1]))))
        if re.search(r"^core::bool::<impl bool>::then$", fn["def"]) and len(args) == 2 and is_clo(args[1]):
            return ("case", args[0], ((0, NONE), (1, some(call(args[1], [])))))
        g = fn.get("gargs") or []
        # integer TryFrom / TryInto: Ok(value) iff the value fits the target type
        if fn["def"] in ("std::convert::TryInto::try_into", "std::convert::TryFrom::try_from") and len(args) == 1 and len(g) >= 2:
            src_t, dst_t = (g[0], g[1]) if fn["def"].endswith("try_into") else (g[1], g[0])
            if src_t in INT_BITS and dst_t in INT_BITS:
                lo, hi = (0, (1 << INT_BITS[dst_t]) - 1) if dst_t.startswith("u") else \
                    (-(1 << (INT_BITS[dst_t] - 1)), (1 << (INT_BITS[dst_t] - 1)) - 1)
                fits = ("bin", "Le", args[0], C(hi))
                okv = ("agg", "std::result::Result", "Ok", (("cast", dst_t, args[0], src_t),))
                errv = ("agg", "std::result::Result", "Err", (("?", "TryFromIntError"),))
                v = ("case", fits, ((0, errv), (1, okv)))
                if not src_t.startswith("u") or lo != 0:
                    v = ("case", ("bin", "Ge", args[0], C(lo)), ((0, errv), (1, v)))
                return v
        if fn["def"] == "std::result::Result::<T, E>::ok" and len(args) == 1:
            def res_case(r):
                r0 = strip_casts(r)
                if isinstance(r0, tuple) and r0 and r0[0] == "agg" and r0[2] == "Ok":
                    return some(r0[3][0])
                if isinstance(r0, tuple) and r0 and r0[0] == "agg" and r0[2] == "Err":
                    return NONE
                if isinstance(r0, tuple) and r0 and r0[0] == "case":
                    return ("case", r0[1], tuple((lab, res_case(x)) for lab, x in r0[2]))
                return None
            return res_case(args[0])
        if re.search(r"^std::result::Result::<", fn["def"]):
            return self.result_op(fn, name, args, is_clo, call, some, NONE)
        if not re.search(r"^std::option::Option::<", fn["def"]):
            return None
        a = args
        if name == "flatten" and len(a) == 1:
            return self.opt_case(a[0], lambda: NONE, lambda v: v)
        if name == "map" and len(a) == 2 and isinstance(strip_casts(a[1]), tuple) and strip_casts(a[1])[0] == "fn":
            # Option::map(Some(x), Type::Variant)  (a tuple-variant constructor used as a function)
            ctor = str(strip_casts(a[1])[1])
            owner = ctor.rsplit("::", 1)[0]
            adt = self.facts.adts.get(owner)
            if adt and any(vr["name"] == ctor.rsplit("::", 1)[1] for vr in adt["variants"]):
                return self.opt_case(a[0], lambda: NONE, lambda v: some(("agg", owner, ctor.rsplit("::", 1)[1], (v,))))
        if name in ("as_ref", "as_mut", "as_deref", "cloned", "copied", "take") and len(a) == 1:
            return a[0]
        if name == "or" and len(a) == 2:
            return self.opt_case(a[0], lambda: a[1], lambda v: some(v))
        if name == "or_else" and len(a) == 2 and is_clo(a[1]):
            return self.opt_case(a[0], lambda: call(a[1], []), lambda v: some(v))
        if name == "unwrap_or" and len(a) == 2:
            return self.opt_case(a[0], lambda: a[1], lambda v: v)
        if name == "unwrap_or_else" and len(a) == 2 and is_clo(a[1]):
            return self.opt_case(a[0], lambda: call(a[1], []), lambda v: v)
        if name == "map_or" and len(a) == 3 and is_clo(a[2]):
            return self.opt_case(a[0], lambda: a[1], lambda v: call(a[2], [v]))
        if name == "map_or_else" and len(a) == 3 and is_clo(a[1]) and is_clo(a[2]):
            return self.opt_case(a[0], lambda: call(a[1], []), lambda v: call(a[2], [v]))
        if name == "map" and len(a) == 2 and is_clo(a[1]):
            return self.opt_case(a[0], lambda: NONE, lambda v: some(call(a[1], [v])))
        if name == "and_then" and len(a) == 2 and is_clo(a[1]):
            return self.opt_case(a[0], lambda: NONE, lambda v: call(a[1], [v]))
        if name == "filter" and len(a) == 2 and is_clo(a[1]):
            return self.opt_case(a[0], lambda: NONE, lambda v: ("case", call(a[1], [v]), ((0, NONE), (1, some(v)))))
        if name in ("is_some", "is_none") and len(a) == 1:
            yes, no = (C(1), C(0)) if name == "is_some" else (C(0), C(1))
            return self.opt_case(a[0], lambda: no, lambda v: yes)
        return None

    def res_case(self, r, on_err, on_ok):
        """Case analysis of a Result value: on_err(e) / on_ok(v) are applied at the leaves."""
        r0 = strip_casts(r)
        if isinstance(r0, tuple) and r0 and r0[0] == "agg" and r0[2] == "Ok" and len(r0[3]) == 1:
            return on_ok(r0[3][0])
        if isinstance(r0, tuple) and r0 and r0[0] == "agg" and r0[2] == "Err" and len(r0[3]) == 1:
            return on_err(r0[3][0])
        if isinstance(r0, tuple) and r0 and r0[0] == "case":
            return ("case", r0[1], tuple((lab, self.res_case(v, on_err, on_ok)) for lab, v in r0[2]))
        return None

    def result_op(self, fn, name, a, is_clo, call, some, NONE):
        """Result combinators on values whose Ok/Err shape is known at every leaf (integer try_from, ...)."""
        ok = lambda v: ("agg", "std::result::Result", "Ok", (v,))
        err = lambda e: ("agg", "std::result::Result", "Err", (e,))

        def ctor(f):
            f0 = strip_casts(f)
            if isinstance(f0, tuple) and f0[0] == "fn":
                c = re.sub(r"::<.*$", "", str(f0[1]))
                owner, _, var = c.rpartition("::")
                adt = self.facts.adts.get(owner)
                if adt and any(vr["name"] == var for vr in adt["variants"]):
                    return lambda v: ("agg", owner, var, (v,))
            if is_clo(f):
                return lambda v: call(f, [v])
            return None
        if name == "map" and len(a) == 2 and ctor(a[1]):
            return self.res_case(a[0], err, lambda v: ok(ctor(a[1])(v)))
        if name == "map_err" and len(a) == 2 and ctor(a[1]):
            return self.res_case(a[0], lambda e: err(ctor(a[1])(e)), ok)
        if name == "or_else" and len(a) == 2 and is_clo(a[1]):
            return self.res_case(a[0], lambda e: call(a[1], [e]), ok)
        if name == "and_then" and len(a) == 2 and is_clo(a[1]) and not self.ctx.collect_asserts:
            return self.res_case(a[0], err, lambda v: call(a[1], [v]))
        if name == "or" and len(a) == 2:
            return self.res_case(a[0], lambda e: a[1], ok)
        if name == "unwrap_or" and len(a) == 2:
            return self.res_case(a[0], lambda e: a[1], lambda v: v)
        if name == "unwrap_or_else" and len(a) == 2 and is_clo(a[1]):
            return self.res_case(a[0], lambda e: call(a[1], [e]), lambda v: v)
        if name == "unwrap_or_default" and len(a) == 1:
            return None
        if name in ("is_ok", "is_err") and len(a) == 1:
            yes, no = (C(1), C(0)) if name == "is_ok" else (C(0), C(1))
            return self.res_case(a[0], lambda e: no, lambda v: yes)
        if name == "err" and len(a) == 1:
            return self.res_case(a[0], some, lambda v: NONE)
        return None

    def closure_touches_sink(self, cid, seen=None):
        seen = seen or set()
        if cid in seen:
            return False
        seen.add(cid)
        b = self.facts.bodies.get(cid)
        if b is None:
            return False
        for _bi, t in b.calls():
            fn = t.get("fn") or {}
            if fn.get("trait") in (BITSINK,) or (fn.get("trait") == BITREPR and fn.get("name") == "write"):
                return True
        for c in self.facts.closures_of(b, recursive=True):
            if self.closure_touches_sink(c.id, seen):
                return True
        return False

    def try_inline(self, fn, args, caller_ev=None):
        if self.depth >= 5 or not fn.get("local", True) and fn.get("res") not in self.facts.bodies:
            return None
        if fn_is(fn, NOINLINE) or (self.ctx.noinline and fn_is(fn, self.ctx.noinline)):
            return None
        cid = None
        for cand in (fn.get("res"), fn.get("def")):
            if cand in self.facts.bodies:
                cid = cand
                break
        if cid is None or fn.get("res_kind") in ("unresolved", "virtual"):
            return None
        cb = self.facts.bodies[cid]
        if len(cb.blocks) > 160 or cb.argc != len(args):
            return None
        na = len(self.ctx.asserts)
        ng = len(self.ctx.aggs)
        try:
            sub = Interp(self.ctx, cb, args, self.depth + 1)
            sub.fields = self.fields
            names = []
            for pr in cb.raw.get("preds") or []:
                nm = pr.split(":")[0].strip()
                if re.match(r"^[A-Z]\w*$", nm) and nm != "Self" and nm not in names:
                    names.append(nm)
            g = [self.tsubst.get(x, x) for x in (fn.get("gargs") or [])]
            if names and len(g) >= len(names):
                sub.tsubst = dict(zip(names, g[-len(names):]))
            ev = sub.run()
            if self.ctx.sink_internal:
                pass
            elif has_effect(ev, ignore_push=self.ctx.collect_asserts):
                # a private inherent helper that writes to a sink it was handed (`fn write_part(&self, sink: &mut S)`): its
                # events are the caller's events.  Trait methods (BitRepr::write, BitSink::*) are never merged this way.
                if caller_ev is not None and self.ctx.merge_helpers and fn.get("local") and not fn.get("trait") \
                        and not cb.raw.get("impl_trait") and not self.ctx.reader:
                    caller_ev.extend(ev)
                    return sub.retval
                del self.ctx.asserts[na:]
                return None
            if self.ctx.collect_asserts:
                # assertion sites inside the callee were recorded without the caller's facts: prepend them
                for rec in self.ctx.asserts[na:] + self.ctx.aggs[ng:]:
                    rec["assume"] = list(self.assume) + rec["assume"]
                    rec.setdefault("via", []).append(self.body.id)
                out_ty = cb.raw.get("output") or ""
                if sub.assume and re.match(r"^std::(result::Result|option::Option)<", out_ty):
                    # the callee returns Ok/Some only on paths where these conditions hold
                    return ("okif", sub.retval, tuple(sub.assume))
            return sub.retval
        except Undecided:
            del self.ctx.asserts[na:]
            return None

    def apply_parser(self, pexpr, params, ev, site):
        """Reader mode: `parser(input)`.  Local closures are inlined; nom combinators are unwrapped; primitive parsers
        become ('apply', parser, site) events."""
        p = strip_casts(pexpr)
        wraps = []
        while isinstance(p, tuple) and p[0] == "call" and re.match(
                r"^nom::combinator::(map|verify|into|map_res|map_opt|complete|cut|opt)\b", p[1]) and p[2]:
            wraps.append((p[1].split("::<")[0].rsplit("::", 1)[1], p[2][1] if len(p[2]) > 1 else None))
            p = strip_casts(p[2][0])
        for w, _f in wraps:
            if w in ("opt", "complete", "cut", "map_res", "map_opt"):
                ev.append(("wrap", w, site))
        maps = [f for w, f in wraps if w == "map" and f is not None]
        if maps:
            inner = self.apply_parser(p, params, ev, site)
            rest = self.proj(mk_okval(inner), [".0"])
            o = self.proj(mk_okval(inner), [".1"])
            for f in reversed(maps):
                f = strip_casts(f)
                if isinstance(f, tuple) and f[0] == "closure":
                    o = self.inline_closure(f, [o], ev, site)
                elif isinstance(f, tuple) and f[0] == "fn":
                    nm = re.sub(r"::<.*$", "", str(f[1]))
                    adt, _, var = nm.rpartition("::")
                    if adt in self.facts.adts and any(v["name"] == var for v in self.facts.adts[adt]["variants"]):
                        o = ("agg", adt, var, (o,))
                    else:
                        o = ("call", nm, (o,), ())
                else:
                    o = ("call", "<map-fn>", (f, o), ())
            return ("agg", "std::result::Result", "Ok", (("agg", "tuple", None, (rest, o)),))
        if isinstance(p, tuple) and p[0] == "closure":
            return self.inline_closure(p, params, ev, site)
        if isinstance(p, tuple) and p[0] == "call":
            nm = p[1].split("::<")[0]
            if nm == "nom::bits" or nm == "nom::bits::bits":
                sub = []
                v = self.apply_parser(p[2][0], [("bitinput",)], sub, site)
                ev.append(("bitsblock", sub, site))
                return v
            if re.match(r"^nom::multi::many_m_n$", nm) and len(p[2]) == 3:
                sub = []
                self.apply_parser(p[2][2], [("loopinput",)], sub, site)
                ev.append(("rloop", p[2][0], p[2][1], sub, site))
                return ("applied", self.ctx.apply_id(), p)
            if re.match(r"^nom::multi::(many0|many1|many_till|many0_count|many1_count|fold_many0)$", nm):
                sub = []
                self.apply_parser(p[2][0], [("loopinput",)], sub, site)
                ev.append(("rmany", nm.rsplit("::", 1)[1], sub, tuple(p[2][1:]), site))
                return ("applied", self.ctx.apply_id(), p)
            if re.match(r"^nom::branch::alt$", nm) and p[2]:
                alts = p[2][0]
                arms = []
                if isinstance(alts, tuple) and alts[0] == "agg":
                    for a in alts[3]:
                        sub = []
                        self.apply_parser(a, [("altinput",)], sub, site)
                        arms.append(sub)
                ev.append(("ralt", arms, site))
                return ("applied", self.ctx.apply_id(), p)
        aid = self.ctx.apply_id()
        ev.append(("apply", p, site, aid))
        return ("applied", aid, p)

    def inline_closure(self, clo, params, ev, site, pure=False):
        clo = strip_casts(clo)
        if not (isinstance(clo, tuple) and clo[0] == "closure"):
            raise Undecided("cannot resolve closure at %s: %s" % (site, str(clo)[:80]))
        cb = self.facts.bodies.get(clo[1])
        if cb is None:
            raise Undecided("closure body %s not exported (%s)" % (clo[1], site))
        if self.depth >= 8:
            raise Undecided("closure nesting too deep at %s" % site)
        sub = Interp(self.ctx, cb, [clo] + list(params), self.depth + 1)
        sub.veclen = self.veclen
        sub.fields = self.fields
        sub.assume = self.assume
        na = len(self.assume)
        sev = sub.run()
        del self.assume[na:]
        if pure and any(e[0] != "mark" for e in sev):
            raise Undecided("value closure %s performs sink operations" % clo[1])
        ev.extend(sev)
        return sub.retval

    # ------------------------------------------------------------------ structured walk
    def run(self):
        ev = []
        if 0 not in self.ok:
            raise Undecided("%s has no Ok path" % self.body.id)
        end = self.seq(0, None, ev)
        return ev

    def exec_block_stmts(self, bi):
        b = self.body
        for s in b.blocks[bi]["stmts"]:
            if s["k"] != "assign":
                continue
            if s["dst"]["p"]:
                if self.ctx.track_fields:
                    pj = [x for x in s["dst"]["p"] if x != "*"]
                    if pj and all(x.startswith(".") for x in pj):
                        base = self.env.get(s["dst"]["l"], ("l", b.id, s["dst"]["l"], ()))
                        key = (canon(base), tuple(pj))
                        self.ctx.field_base[key] = base
                        self.fields[key] = self.rvalue(s["rv"])
                        self.ctx.fields_written.add(key)
                continue
            v = self.rvalue(s["rv"])
            self.env[s["dst"]["l"]] = v
            if self.ctx.collect_asserts and s["dst"]["l"] == 0 and s["rv"]["k"] == "agg" and s["rv"].get("variant") == "Ok":
                self.ctx.ok_returns.append((self.body.id, bi, list(self.assume)))
            if self.ctx.collect_asserts and s["rv"]["k"] == "agg" and s["rv"].get("ak") == "adt" \
                    and s["rv"].get("adt") in self.facts.adts and s["rv"].get("ops"):
                self.ctx.aggs.append({"adt": s["rv"]["adt"], "variant": s["rv"].get("variant"), "ops": v[3],
                                      "assume": list(self.assume), "body": self.body.id})

    def exec_term(self, bi, ev):
        t = self.body.term(bi)
        if t["k"] == "call":
            v = self.call(bi, t, ev)
            if not t["dst"]["p"]:
                self.env[t["dst"]["l"]] = v

    def assume_switch(self, t, tgt):
        """Record what taking the edge to `tgt` of switch `t` implies."""
        sc = self.operand(t["d"])
        labs = [v for v, x in t["vals"] if x == tgt]
        if len(labs) > 1 and t["else"] != tgt and all(isinstance(v, int) for v in labs):
            self.assume.append(("cond", ("bin", "Le", C(min(labs)), sc), 1))
            self.assume.append(("cond", ("bin", "Le", sc, C(max(labs))), 1))
            return
        if len(labs) == 1 and t["else"] != tgt:
            self.assume_eq(sc, labs[0])
        elif not labs and t["else"] == tgt and len(t["vals"]) == 1:
            # two-way switch: the other label
            other = t["vals"][0][0]
            # only a bool (or a two-variant discriminant, typed isize) has "the other value"; for an integer scrutinee the
            # else edge only says `!= other`
            two_valued = t.get("dty") == "bool" or (t.get("dty") == "isize" and isinstance(strip_casts(sc), tuple)
                                                   and strip_casts(sc)[0] == "discr")
            if two_valued and other in (0, 1):
                self.assume_eq(sc, 1 - other, ne=other)
            elif t.get("dty") is None and other in (0, 1):
                self.assume_eq(sc, 1 - other, ne=other)
            else:
                self.assume.append(("ne", sc, C(other)))

    def assume_eq(self, sc, val, ne=None):
        if val is None:
            if ne is not None:
                self.assume.append(("ne", sc, C(ne)))
            return
        s0 = strip_casts(sc)
        # `r?` continuing: r is Ok
        if isinstance(s0, tuple) and s0[0] == "discr" and isinstance(s0[1], tuple) and s0[1][0] == "branch" and val == 0:
            self.assume_ok(s0[1][1])
            return
        # explicit `match r { Ok(..) => .., Err(e) => return Err(e) }` / `if let Err(e) = r { return .. }` on a Result that
        # carries verification conditions: in the Ok arm (discriminant 0) they hold
        if isinstance(s0, tuple) and s0[0] == "discr" and isinstance(s0[1], tuple) and s0[1] and val == 0 \
                and s0[1][0] in ("allok", "okif"):
            self.assume_ok(s0[1])
            return
        if isinstance(s0, tuple) and s0 and s0[0] == "quant" and ((s0[1] == "any" and val == 0) or (s0[1] == "all" and val == 1)):
            self.assume.append(("forall", s0[2], s0[3], val))
            return
        self.assume.append(("cond", sc, val))

    def assume_ok(self, r):
        r = strip_casts(r)
        if not isinstance(r, tuple):
            return
        if r[0] == "allok":
            for x in r[1]:
                self.assume_ok(x)
        elif r[0] == "okif":
            self.assume.extend(r[2])
            self.assume_ok(r[1])
        elif r[0] == "call" and re.search(self.ctx.verify_fn, r[1].split("::<")[0]) and r[2]:
            self.assume.append(("cond", r[2][0], 1))
        elif r[0] == "call":
            # an opaque fallible call whose result was Ok on this path
            self.assume.append(("okcall", r[1], r[2]))
        elif r[0] == "case":
            oks = [lab for lab, v in r[2] if not (isinstance(v, tuple) and v[0] == "agg" and v[2] in ("Err", "None"))]
            errs = [lab for lab, v in r[2] if isinstance(v, tuple) and v[0] == "agg" and v[2] in ("Err", "None")]
            if len(oks) == 1 and errs and isinstance(oks[0], int):
                self.assume_eq(r[1], oks[0])
                for lab, v in r[2]:
                    if lab == oks[0]:
                        self.assume_ok(v)

    def record_assert(self, bi, t):
        cond = self.operand(t["cond"])
        goal = None
        msg = t.get("msg") or ""
        pl = op_place(t["cond"])
        if pl is not None and pl["p"] == [".1"]:
            base = self.env.get(pl["l"])
            if isinstance(base, tuple) and base[0] == "ovf" and len(base) >= 6:
                goal = ("noovf", base[2], base[3], base[4], base[5])
        if goal is None:
            goal = ("cond", cond, 1 if t.get("exp") else 0)
        self.ctx.asserts.append({"body": self.body.id, "bb": bi, "msg": msg, "goal": goal, "site": self.body.loc(bi, "term"),
                                 "assume": list(self.assume)})
        # having passed the assertion, its condition holds
        if goal[0] == "cond":
            self.assume.append(goal)

    def loop_of(self, h):
        """Natural loop (set of blocks) with header h in the ok sub-graph, or None."""
        b = self.body
        backs = [p for p in b.pred[h] if p in self.ok and b.dominates(h, p)]
        if not backs:
            return None
        blocks = {h}
        stack = [x for x in backs]
        while stack:
            x = stack.pop()
            if x in blocks:
                continue
            blocks.add(x)
            for p in b.pred[x]:
                if p in self.ok and p not in blocks:
                    stack.append(p)
        return blocks

    def seq(self, bi, stop, ev, in_loop_header=None):
        """Walk from block bi until `stop` (exclusive) or a return; returns the block where it stopped."""
        b = self.body
        guard = 0
        while bi is not None and bi != stop:
            guard += 1
            if guard > 2000:
                raise Undecided("walk does not terminate in %s" % b.id)
            if bi != in_loop_header:
                loop = self.loop_of(bi)
                if loop is not None:
                    bi = self.do_loop(bi, loop, ev)
                    continue
            self.exec_block_stmts(bi)
            t = b.term(bi)
            if t["k"] == "ret":
                self.retval = self.env.get(0, ("?", "ret"))
                return bi
            if t["k"] == "assert" and self.ctx.collect_asserts:
                self.record_assert(bi, t)
            self.exec_term(bi, ev)
            succ = self.oksucc(bi)
            if len(succ) == 0:
                raise Undecided("dead end at bb%d of %s" % (bi, b.id))
            if len(succ) == 1:
                if t["k"] == "switch" and self.ctx.collect_asserts:
                    self.assume_switch(t, succ[0])
                bi = succ[0]
                continue
            # a real branch: case over the switch
            if t["k"] != "switch":
                raise Undecided("multi-successor non-switch at bb%d of %s" % (bi, b.id))
            join = self.ipdom.get(bi)
            if join == -1:
                join = None
            scrut = self.operand(t["d"])
            if is_c(scrut):
                # decided at analysis time: follow the taken edge only
                taken = [tgt for val, tgt in t["vals"] if val == scrut[1]]
                nxt = taken[0] if taken else t["else"]
                if nxt in self.ok:
                    bi = nxt
                    continue
            labels = {}
            for val, tgt in t["vals"]:
                if tgt in self.ok:
                    labels.setdefault(tgt, []).append(val)
            if t["else"] in self.ok:
                labels.setdefault(t["else"], []).append("else")
            arms = []
            envs = []
            base_env = dict(self.env)
            base_vl = dict(self.veclen)
            base_fields = dict(self.fields)
            arm_fields = []
            for tgt in succ:
                self.env = dict(base_env)
                self.veclen = dict(base_vl)
                self.fields.clear()
                self.fields.update(base_fields)
                aev = []
                na = len(self.assume)
                if self.ctx.collect_asserts:
                    self.assume_switch(t, tgt)
                endb = self.seq(tgt, join, aev)
                del self.assume[na:]
                lab = self.norm_label(t, labels[tgt], self.variant_count(t))
                arms.append((lab, aev))
                arm_fields.append((lab, dict(self.fields), endb is not None and b.term(endb)["k"] == "ret" and join is None))
                envs.append((lab, self.env, self.retval if endb is not None and b.term(endb)["k"] == "ret"
                             and join is None else None))
            # merge environments
            merged = dict(base_env)
            keys = set()
            for _lab, e, _r in envs:
                keys |= set(e.keys())
            for kx in keys:
                vals = [(lab, e.get(kx, base_env.get(kx))) for lab, e, _r in envs]
                if all(v[1] == vals[0][1] for v in vals):
                    merged[kx] = vals[0][1]
                else:
                    merged[kx] = ("case", scrut, tuple((lab, v if v is not None else ("?", "undef")) for lab, v in vals))
            self.env = merged
            self.veclen = base_vl
            if self.ctx.track_fields:
                fk = set()
                for _l, fd, _r in arm_fields:
                    fk |= set(fd.keys())
                self.fields.clear()
                for kx in fk:
                    vals = [(lab, fd.get(kx, base_fields.get(kx))) for lab, fd, _r in arm_fields]
                    if all(v[1] == vals[0][1] for v in vals):
                        if vals[0][1] is not None:
                            self.fields[kx] = vals[0][1]
                    else:
                        self.fields[kx] = ("case", scrut, tuple(
                            (lab, v if v is not None else self.field_default(kx)) for lab, v in vals))
            if any(aev for _lab, aev in arms):
                ev.append(("case", scrut, arms))
            if join is None:
                # every arm ended in the return block
                self.retval = merged.get(0, ("?", "ret"))
                return None
            bi = join
        return bi

    def variant_count(self, t):
        """Number of variants of the enum whose discriminant the switch tests (None if unknown)."""
        l = op_place(t["d"])
        if l is None or l["p"]:
            return None
        ds = self.body.whole_defs(l["l"])
        if len(ds) != 1 or ds[0][1] == "term":
            return None
        rv = self.body.blocks[ds[0][0]]["stmts"][ds[0][1]]["rv"]
        if rv["k"] != "discr":
            return None
        pl = rv["pl"]
        ty = pl.get("ty") if pl["p"] else self.body.local_ty(pl["l"])
        ty = re.sub(r"^&(mut )?", "", ty or "")
        if re.match(r"^std::option::Option<", ty) or re.match(r"^std::result::Result<", ty) \
                or re.match(r"^std::ops::ControlFlow<", ty):
            return 2
        adt = self.facts.adts.get(re.sub(r"<.*$", "", ty))
        if adt and adt.get("variants"):
            return len(adt["variants"])
        return None

    @staticmethod
    def norm_label(t, vals, nvar=None):
        vals = sorted(vals, key=str)
        if len(vals) == 1 and vals[0] == "else":
            others = [v for v, _tgt in t["vals"]]
            if nvar is not None and len(others) == nvar - 1:
                rest = [i for i in range(nvar) if i not in others]
                if len(rest) == 1:
                    return rest[0]
            if t.get("dty") == "bool" and others == [0]:
                return 1
            if t.get("dty") == "bool" and others == [1]:
                return 0
            return "else"
        if len(vals) == 1:
            return vals[0]
        return tuple(vals)

    # ------------------------------------------------------------------ loops
    def do_loop(self, h, loop, ev):
        b = self.body
        # header chain: from h to the first switch having a successor outside the loop
        chain = []
        x = h
        exit_b = body_b = None
        while True:
            chain.append(x)
            succ = self.oksucc(x)
            t = b.term(x)
            if t["k"] == "switch" and len(succ) == 2 and any(s not in loop for s in succ):
                outs = [s for s in succ if s not in loop]
                ins = [s for s in succ if s in loop]
                if len(outs) != 1 or len(ins) != 1:
                    raise Undecided("loop at bb%d of %s has an unsupported exit shape" % (h, b.id))
                exit_b, body_b = outs[0], ins[0]
                break
            if len(succ) != 1 or succ[0] not in loop or succ[0] == h:
                raise Undecided("loop header chain at bb%d of %s is not straight-line" % (h, b.id))
            x = succ[0]
        # other exits from the loop (break) are not supported
        for n in loop:
            for s in self.oksucc(n):
                if s not in loop and not (n == chain[-1] and s == exit_b):
                    raise Undecided("loop at bb%d of %s has a second exit (bb%d -> bb%d)" % (h, b.id, n, s))
        lid = self.ctx.loop_id()
        # loop-carried locals: whole definitions both inside and outside the loop
        carried = []
        for l, ds in b.defs.items():
            inside = [d for d in ds if d[2] and d[0] in loop]
            outside = [d for d in ds if d[2] and d[0] not in loop and d[0] in self.ok]
            if inside and (outside or 1 <= l <= b.argc):
                carried.append(l)
        pre_env = dict(self.env)
        pre_vl = dict(self.veclen)
        pre_fields = dict(self.fields)

        def one_pass(setup):
            self.env = dict(pre_env)
            self.veclen = dict(pre_vl)
            self.fields.clear()
            self.fields.update(pre_fields)
            setup()
            pev = []
            desc = None
            for cx in chain:
                self.exec_block_stmts(cx)
                t = b.term(cx)
                if t["k"] == "call":
                    fn = t.get("fn") or {}
                    if fn.get("name") == "next" and fn.get("trait") == "std::iter::Iterator":
                        it = self.operand(t["args"][0])
                        desc = self.iter_desc(it, lid)
                        self.env[t["dst"]["l"]] = ("next", desc_var(desc))
                        continue
                    self.exec_term(cx, pev)
            cond = self.operand(b.term(chain[-1])["d"]) if desc is None else None
            self.seq(body_b, h, pev)
            return desc, cond, pev, dict(self.env)

        # pass 0 (field tracking only): which fields does one iteration store to?
        fkeys = []
        if self.ctx.track_fields:
            na0 = len(self.assume)
            nas0 = len(self.ctx.asserts)
            nm0 = self.ctx.nmark

            def setup0():
                for l in carried:
                    self.env[l] = ("lc", lid, l)
            try:
                one_pass(setup0)
                fkeys = [k for k in self.fields if self.fields.get(k) != pre_fields.get(k)]
            finally:
                del self.assume[na0:]
                del self.ctx.asserts[nas0:]
                self.ctx.nmark = nm0

        # pass 1: symbolic loop-carried values, discover recurrences
        def setup1():
            for l in carried:
                self.env[l] = ("lc", lid, l)
            for k in fkeys:
                self.fields[k] = ("lc", lid, k)
        save_marks = self.ctx.nmark
        na1 = len(self.assume)
        nas1 = len(self.ctx.asserts)
        desc, cond, _pev, env1 = one_pass(setup1)
        fields1 = dict(self.fields)
        del self.assume[na1:]
        del self.ctx.asserts[nas1:]
        fsteps = {}
        islc = lambda e: isinstance(e, tuple) and len(e) > 1 and e[0] == "lc" and e[1] == lid

        def step_of(v, lc):
            if isinstance(v, tuple) and v and v[0] == "ovf":
                v = v[1]
            if v == lc:
                return C(0)
            if isinstance(v, tuple) and v and v[0] == "bin" and v[1] == "Add":
                if v[2] == lc and not mentions(v[3], islc):
                    return v[3]
                if v[3] == lc and not mentions(v[2], islc):
                    return v[2]
                # (lc + a) + b
                inner = step_of(v[2], lc)
                if inner is not None and not mentions(v[3], islc):
                    return mk_bin("Add", inner, v[3])
            if isinstance(v, tuple) and v and v[0] == "case" and evalc(v[1]) is not None:
                d = evalc(v[1])
                for lab, x in v[2]:
                    if d in (lab if isinstance(lab, tuple) else (lab,)):
                        return step_of(x, lc)
            if isinstance(v, tuple) and v and v[0] == "case" and not mentions(v[1], islc):
                arms = [(lab, step_of(x, lc)) for lab, x in v[2]]
                if all(a[1] is not None for a in arms):
                    if all(a[1] == arms[0][1] for a in arms):
                        return arms[0][1]
                    return ("case", v[1], tuple(arms))
            return None
        for k in fkeys:
            fsteps[k] = step_of(fields1.get(k), ("lc", lid, k))
        steps = {}
        for l in carried:
            v = env1.get(l)
            lc = ("lc", lid, l)
            if v == lc:
                steps[l] = C(0)
            elif isinstance(v, tuple) and v[0] == "bin" and v[1] == "Add" and v[2] == lc \
                    and not mentions(v[3], lambda e: isinstance(e, tuple) and len(e) > 1 and e[0] == "lc" and e[1] == lid):
                steps[l] = v[3]
            elif isinstance(v, tuple) and v[0] == "bin" and v[1] == "Add" and v[3] == lc \
                    and not mentions(v[2], lambda e: isinstance(e, tuple) and len(e) > 1 and e[0] == "lc" and e[1] == lid):
                steps[l] = v[2]
            elif isinstance(v, tuple) and v[0] == "bin" and v[1] == "Sub" and v[2] == lc and is_c(v[3]):
                steps[l] = C(-v[3][1])
            elif isinstance(v, tuple) and v[0] == "ovf" and isinstance(v[1], tuple) and v[1][0] == "bin" and v[1][1] == "Sub" \
                    and v[1][2] == lc and is_c(v[1][3]):
                steps[l] = C(-v[1][3][1])
            else:
                steps[l] = None
        strided = None
        if desc is None:
            # while loop: cond must be `iv < bound`
            c = strip_casts(cond)
            countdown = None
            chunked = None
            if isinstance(c, tuple) and c[0] == "bin":
                # `while n > 0 { n -= 1; .. }` / `while n != 0`: n iterations
                cd = None
                if c[1] in ("Gt", "Ne") and isinstance(c[2], tuple) and c[2][0] == "lc" and c[2][1] == lid and is_c(c[3], 0):
                    cd = c[2][2]
                if c[1] in ("Lt", "Ne") and isinstance(c[3], tuple) and c[3][0] == "lc" and c[3][1] == lid and is_c(c[2], 0):
                    cd = c[3][2]
                if cd is not None and is_c(steps.get(cd), -1):
                    countdown = cd
                # `while n > c { ..; n -= s }` / `while n >= c`: a count-down in chunks of a constant s >= 1.  The trip
                # count is ceil((n0 - c) / s) resp. floor((n0 - c) / s) + 1 when the loop is entered and 0 otherwise.
                if countdown is None and c[1] in ("Gt", "Ge") and isinstance(c[2], tuple) and c[2][0] == "lc" \
                        and c[2][1] == lid and is_c(c[3]) and isinstance(c[3][1], int) and c[3][1] >= 0:
                    stc = steps.get(c[2][2])
                    if is_c(stc) and isinstance(stc[1], int) and stc[1] <= -1 and not (c[1] == "Ge" and c[3][1] < -stc[1]):
                        chunked = (c[2][2], c[1], c[3][1], -stc[1])
            if countdown is not None:
                pass
            elif chunked is not None:
                pass
            elif not (isinstance(c, tuple) and c[0] == "bin" and c[1] == "Lt" and isinstance(c[2], tuple)
                    and c[2][0] == "lc" and c[2][1] == lid):
                if not (self.ctx.reader or self.ctx.open_loops):
                    raise Undecided("while loop at bb%d of %s: condition %s is not `induction variable < bound`"
                                    % (h, b.id, show(cond)))
                # reader mode: an open-ended loop (e.g. `while !is_last`); body events are recorded once
                self.ctx.nmark = save_marks
                self.env = dict(pre_env)
                for l in carried:
                    self.env[l] = ("?", "loop-carried _%d" % l)
                pev = []
                for cx in chain:
                    self.exec_block_stmts(cx)
                    if b.term(cx)["k"] == "call":
                        self.exec_term(cx, pev)
                self.seq(body_b, h, pev)
                ev.append(("loop", ("while", lid, cond), pev))
                self.env = dict(pre_env)
                for l in carried:
                    self.env[l] = ("?", "after-loop _%d" % l)
                self.veclen = pre_vl
                return exit_b
            if countdown is not None:
                ivl = countdown
                desc = ("range", lid, C(0), pre_env.get(ivl, ("?", "init")))
                iv_local = ivl
            elif chunked is not None:
                ivl, cop, cc, cs = chunked
                n0 = pre_env.get(ivl, ("?", "init"))
                over = mk_bin("Sub", n0, C(cc))
                trips = mk_bin("Div", mk_bin("Add", over, C(cs - 1)), C(cs)) if cop == "Gt" \
                    else mk_bin("Add", mk_bin("Div", over, C(cs)), C(1))
                trips = ("case", mk_bin(cop, n0, C(cc)), ((1, trips), (0, C(0))))
                desc = ("range", lid, C(0), trips)
                iv_local = ivl
            else:
                ivl = c[2][2]
                bound = c[3]
                if mentions(bound, lambda e: isinstance(e, tuple) and len(e) > 1 and e[0] == "lc" and e[1] == lid):
                    raise Undecided("while loop at bb%d of %s: bound is not loop invariant" % (h, b.id))
                st = steps.get(ivl)
                if not is_c(st) or st[1] <= 0:
                    raise Undecided("while loop at bb%d of %s: induction step is not a positive constant" % (h, b.id))
                lo = pre_env.get(ivl, ("?", "init"))
                desc = ("range", lid, lo, bound)
                if st[1] != 1:
                    strided = (ivl, st[1])
                iv_local = ivl
        else:
            iv_local = None
            countdown = None
            chunked = None

        # fields with a constant step have the closed form init + iteration * step; steps of other fields may depend on them
        fclosed = {}
        if fkeys:
            itno = ("idx", lid) if desc[0] != "range" else mk_bin("Sub", ("idx", lid), desc[2])
            for k in fkeys:
                st = fsteps.get(k)
                if is_c(st) and st[1] != 0 and not strided:
                    fclosed[k] = mk_bin("Add", pre_fields.get(k, self.field_default(k)), mk_bin("Mul", itno, st))

            def close(e):
                if not isinstance(e, tuple) or not e:
                    return e
                if e[0] == "lc" and len(e) > 2 and e[1] == lid and e[2] in fclosed:
                    return fclosed[e[2]]
                return tuple(close(x) if isinstance(x, tuple) else x for x in e)
            if fclosed:
                for k in fkeys:
                    if fsteps.get(k) is None:
                        fsteps[k] = step_of(close(fields1.get(k)), ("lc", lid, k))

        # pass 2: closed forms
        def setup2():
            for l in carried:
                st = steps.get(l)
                if l == iv_local and countdown is not None:
                    self.env[l] = mk_bin("Sub", pre_env.get(l, ("?", "init")), ("idx", lid))
                elif l == iv_local and chunked is not None:
                    self.env[l] = mk_bin("Sub", pre_env.get(l, ("?", "init")), mk_bin("Mul", ("idx", lid), C(chunked[3])))
                elif l == iv_local:
                    self.env[l] = ("idx", lid)
                elif st is None:
                    self.env[l] = ("?", "loop-carried _%d" % l)
                elif is_c(st, 0):
                    self.env[l] = pre_env.get(l, ("?", "init"))
                elif desc[0] == "range" and not mentions(st, lambda e: isinstance(e, tuple) and len(e) > 1 and e[0] in ("idx", "elem")
                                                         and e[1] == lid):
                    # invariant step: v = init + (idx - lo) * step
                    k = mk_bin("Sub", ("idx", lid), desc[2])
                    if strided:
                        raise Undecided("strided loop with a second induction variable at bb%d of %s" % (h, b.id))
                    self.env[l] = mk_bin("Add", pre_env.get(l, ("?", "init")), mk_bin("Mul", k, st))
                else:
                    self.env[l] = ("partial", lid, l)
            for k in fkeys:
                if k in fclosed:
                    self.fields[k] = fclosed[k]
                else:
                    self.fields[k] = ("partial", lid, k) if not is_c(fsteps.get(k), 0) else pre_fields.get(k, self.field_default(k))
        self.ctx.nmark = save_marks
        na_loop = len(self.assume)
        if desc[0] == "range":
            self.assume.append(("range", ("idx", lid), desc[2], desc[3]))
        else:
            self.assume.append(("elemof", ("elem", lid), desc[2]))
        desc2, _cond2, pev, env2 = one_pass(setup2)
        # what the loop verified about *every* element / index holds for all of them afterwards
        univ = [f for f in self.assume[na_loop + 1:] if f[0] == "cond"
                and mentions(f[1], lambda e: isinstance(e, tuple) and len(e) > 1 and e[0] in ("elem", "idx") and e[1] == lid)]
        once = [f for f in self.assume[na_loop + 1:] if f[0] == "cond" and f not in univ]
        del self.assume[na_loop:]
        for f in univ:
            self.assume.append(("forall", desc, f[1], f[2]))
        for f in once:
            # holds after the loop provided the loop ran at least once
            self.assume.append(("ifnonempty", desc, f[1], f[2]))
        if strided:
            pev = self.destride(pev, strided, desc, h)
        ev.append(("loop", desc, pev))
        # after the loop
        self.env = dict(pre_env)
        for k2, v2 in env2.items():
            if k2 not in self.env:
                self.env[k2] = v2
        for l in carried:
            st = steps.get(l)
            if st is None:
                self.env[l] = ("?", "after-loop _%d" % l)
            elif is_c(st, 0):
                pass
            elif l == iv_local and chunked is not None:
                self.env[l] = mk_bin("Sub", pre_env.get(l, ("?", "init")), mk_bin("Mul", desc[3], C(chunked[3])))
            elif l == iv_local:
                self.env[l] = ("?", "iv-after-loop")
            else:
                # re-evaluate the step in terms of idx/elem (pass 2 environment gives it): recompute from env1 form
                step2 = subst_lc(st, lid, env2, carried, iv_local)
                self.env[l] = mk_bin("Add", pre_env.get(l, ("?", "init")), ("sumloop", desc, step2))
        self.veclen = pre_vl
        if self.ctx.track_fields:
            self.fields.clear()
            self.fields.update(pre_fields)
            for k in fkeys:
                st = fsteps.get(k)
                init = pre_fields.get(k, self.field_default(k))
                if st is None:
                    self.fields[k] = ("?", "field after loop")
                elif not is_c(st, 0):
                    self.fields[k] = mk_bin("Add", init, ("sumloop", desc, subst_lc(close(st) if fclosed else st, lid, env2, carried, iv_local)))
        return exit_b

    def iter_desc(self, it, lid):
        x = it
        while isinstance(x, tuple) and x and (x[0] == "iter" or (
                x[0] == "call" and re.search(r"Iterator>?::(copied|cloned|by_ref)(::<.*>)?$", x[1]) and x[2])):
            x = x[1] if x[0] == "iter" else x[2][0]
        if isinstance(x, tuple) and x[0] == "agg" and x[1] == "std::ops::Range":
            return ("range", lid, x[3][0], x[3][1])
        if isinstance(x, tuple) and x[0] in ("map", "?"):
            raise Undecided("for loop over an adapted iterator: %s" % show(it))
        return ("coll", lid, x)

    def destride(self, pev, strided, desc, h):
        """`while t0 < end { try_repeat!(off to N; while t0 + off < end => body(off)); t0 += N }`  ==  for t in t0..end"""
        ivl, step = strided
        lid = desc[1]
        reps = [e for e in pev if e[0] == "repeat"]
        rest = [e for e in pev if e[0] not in ("repeat", "mark")]
        if len(reps) != 1 or rest:
            raise Undecided("strided while loop at bb%d of %s is not the unrolled-repeat idiom" % (h, self.body.id))
        _k, n, condc, bodyc, site = reps[0]
        if n != step:
            raise FindingSignal("unroll-mismatch", "the loop advances by %d but the unrolled body repeats %s times (%s)"
                                % (step, n, site))
        # condition closure: (idx + off) < bound
        cb = self.facts.bodies.get(condc[1]) if condc[0] == "closure" else None
        if cb is None:
            raise Undecided("repeat condition closure not found (%s)" % site)
        sub = Interp(self.ctx, cb, [condc, ("off", lid)], self.depth + 1)
        sub.run()
        want = ("bin", "Lt", ("bin", "Add", ("idx", lid), ("off", lid)), desc[3])
        if sub.retval != want:
            raise FindingSignal("unroll-guard", "the unrolled body's guard is %s, expected %s (%s)"
                                % (show(sub.retval), show(want), site))
        bev = []
        self.inline_closure(bodyc, [C(0)], bev, site)
        return bev


class FindingSignal(Exception):
    def __init__(self, kind, msg):
        Exception.__init__(self, msg)
        self.kind = kind


def constructed_len(x):
    """Length of a value that follows from how it was built (copy of a slice, sub-slice by range), or None."""
    x0 = strip_casts(x)
    if isinstance(x0, tuple) and x0 and x0[0] == "call" and len(x0[2]) >= 1:
        nm = x0[1]
        if re.search(r"::(to_vec|to_owned|clone|as_slice|as_mut_slice|as_ref|as_mut|into_vec|into_boxed_slice)$", nm) and len(x0[2]) == 1:
            inner = constructed_len(x0[2][0])
            return inner if inner is not None else ("len", x0[2][0])
        if re.search(r"Index(Mut)?<std::ops::Range", nm) and len(x0[2]) == 2 and isinstance(x0[2][1], tuple) \
                and x0[2][1] and x0[2][1][0] == "agg":
            r = x0[2][1]
            if r[1] == "std::ops::RangeTo" and len(r[3]) == 1:
                return r[3][0]
            if r[1] == "std::ops::Range" and len(r[3]) == 2:
                return mk_bin("Sub", r[3][1], r[3][0])
            if r[1] == "std::ops::RangeFrom" and len(r[3]) == 1:
                base = constructed_len(x0[2][0])
                return mk_bin("Sub", base if base is not None else ("len", x0[2][0]), r[3][0])
    return None


def field_step(v, lc, lid):
    """Per-iteration increment of a loop-carried field value v (in terms of its value lc at the start of the iteration)."""
    islc = lambda e: isinstance(e, tuple) and len(e) > 1 and e[0] == "lc" and e[1] == lid
    if isinstance(v, tuple) and v and v[0] == "ovf":
        v = v[1]
    if v == lc:
        return C(0)
    if isinstance(v, tuple) and v and v[0] == "bin" and v[1] == "Add":
        if v[2] == lc and not mentions(v[3], islc):
            return v[3]
        if v[3] == lc and not mentions(v[2], islc):
            return v[2]
        inner = field_step(v[2], lc, lid)
        if inner is not None and not mentions(v[3], islc):
            return mk_bin("Add", inner, v[3])
    if isinstance(v, tuple) and v and v[0] == "case" and evalc(v[1]) is not None:
        d = evalc(v[1])
        for lab, x in v[2]:
            if d in (lab if isinstance(lab, tuple) else (lab,)):
                return field_step(x, lc, lid)
    if isinstance(v, tuple) and v and v[0] == "case" and not mentions(v[1], islc):
        arms = [(lab, field_step(x, lc, lid)) for lab, x in v[2]]
        if all(a[1] is not None for a in arms):
            if all(a[1] == arms[0][1] for a in arms):
                return arms[0][1]
            return ("case", v[1], tuple(arms))
    return None


def desc_var(desc):
    return ("idx", desc[1]) if desc[0] == "range" else ("elem", desc[1])


def subst_lc(e, lid, env2, carried, iv_local):
    """Replace ('lc', lid, l) in a step expression by the pass-2 closed form of l."""
    if not isinstance(e, tuple) or not e:
        return e
    if e[0] == "lc" and len(e) > 2 and e[1] == lid:
        return env2.get(e[2], ("?", "lc"))
    return tuple(subst_lc(x, lid, env2, carried, iv_local) if isinstance(x, tuple) else x for x in e)


# ------------------------------------------------------------------------------------------- printing / canon

def show(e):
    if not isinstance(e, tuple):
        return str(e)
    k = e[0]
    if k == "c":
        return str(e[2] if len(e) > 2 and e[2] else e[1])
    if k == "p":
        return "arg%d%s" % (e[1], "".join(e[2]))
    if k == "l":
        return "_%d%s" % (e[2], "".join(e[3]))
    if k == "call":
        nm = e[1]
        nm = nm.split("::")[-1] if not nm.startswith("<") else nm
        return "%s(%s)" % (nm, ", ".join(show(a) for a in e[2]))
    if k == "bin":
        return "(%s %s %s)" % (show(e[2]), e[1], show(e[3]))
    if k == "un":
        return "%s(%s)" % (e[1], show(e[2]))
    if k == "len":
        return "len(%s)" % show(e[1])
    if k == "cast":
        return "(%s as %s)" % (show(e[2]), e[1])
    if k == "agg":
        return "%s::%s{%s}" % (e[1], e[2], ", ".join(show(a) for a in e[3]))
    if k == "proj":
        return "%s%s" % (show(e[1]), "".join(e[2]))
    if k == "index":
        return "%s[%s]" % (show(e[1]), show(e[2]))
    if k in ("idx", "elem", "off"):
        return "%s#L%d" % (k, e[1])
    if k == "okval":
        return "ok(%s)" % show(e[1])
    if k == "discr":
        return "discr(%s)" % show(e[1])
    if k == "case":
        return "case %s {%s}" % (show(e[1]), "; ".join("%s=>%s" % (l, show(v)) for l, v in e[2]))
    if k == "sumloop":
        return "SUM[%s](%s)" % (show_desc(e[1]), show(e[2]))
    if k == "closure":
        return "closure(%s)" % e[1].split("::")[-1]
    if k in ("iter", "collect", "itersum"):
        return "%s(%s)" % (k, show(e[1]))
    if k == "map":
        return "map(%s, %s)" % (show(e[1]), show(e[2]))
    if k == "fn":
        return "fn " + str(e[1])
    if k == "static":
        return "static " + str(e[1])
    if k == "applied":
        return "read#%d" % e[1]
    return str(e)


def evalc(e, env=None, bits=64):
    """Constant-fold a closed expression tree (table rows): ints only; returns None if not closed."""
    env = env or {}
    if not isinstance(e, tuple):
        return None
    k = e[0]
    if k in env:
        return env[k]
    if e in env:
        return env[e]
    if k == "c":
        return e[1] if isinstance(e[1], int) else None
    if k == "cast":
        v = evalc(e[2], env)
        if v is None:
            return None
        w = INT_BITS.get(e[1])
        if w is None:
            return v
        v &= (1 << w) - 1
        if e[1].startswith("i") and v >= 1 << (w - 1):
            v -= 1 << w
        return v
    if k == "bin":
        a, b = evalc(e[2], env), evalc(e[3], env)
        if a is None or b is None:
            return None
        op = e[1]
        try:
            return {"Add": lambda: a + b, "Sub": lambda: a - b, "Mul": lambda: a * b, "Div": lambda: a // b,
                    "Rem": lambda: a % b, "Shl": lambda: a << b, "Shr": lambda: a >> b, "BitOr": lambda: a | b,
                    "BitAnd": lambda: a & b, "BitXor": lambda: a ^ b, "Lt": lambda: int(a < b),
                    "Le": lambda: int(a <= b), "Gt": lambda: int(a > b), "Ge": lambda: int(a >= b),
                    "Eq": lambda: int(a == b), "Ne": lambda: int(a != b)}[op]()
        except (KeyError, ZeroDivisionError, ValueError):
            return None
    if k == "call" and re.search(r"(^|::)(min|max)(::<\w+>)?$", e[1]) and len(e[2]) == 2:
        vs = [evalc(a, env) for a in e[2]]
        if None in vs:
            return None
        return min(vs) if re.search(r"(^|::)min(::<\w+>)?$", e[1]) else max(vs)
    if k == "ovf":
        return evalc(e[1], env)
    if k == "call":
        m = re.search(r"<impl ([iu](?:8|16|32|64|size))>::(wrapping_shl|wrapping_shr|wrapping_add|wrapping_sub|wrapping_mul|wrapping_neg|saturating_sub|saturating_add)$", e[1])
        if m:
            vs = [evalc(a, env) for a in e[2]]
            if None in vs:
                return None
            w = INT_BITS[m.group(1)]
            op = m.group(2)
            signed = m.group(1).startswith("i")
            lo, hi = (-(1 << (w - 1)), (1 << (w - 1)) - 1) if signed else (0, (1 << w) - 1)

            def wrap(v):
                v &= (1 << w) - 1
                return v - (1 << w) if signed and v >= 1 << (w - 1) else v
            if op == "wrapping_shl":
                return wrap(vs[0] << (vs[1] & (w - 1)))
            if op == "wrapping_shr":
                return wrap(vs[0] >> (vs[1] & (w - 1))) if not signed else wrap(vs[0] >> (vs[1] & (w - 1)))
            if op == "wrapping_add":
                return wrap(vs[0] + vs[1])
            if op == "wrapping_sub":
                return wrap(vs[0] - vs[1])
            if op == "wrapping_mul":
                return wrap(vs[0] * vs[1])
            if op == "wrapping_neg":
                return wrap(-vs[0])
            if op == "saturating_sub":
                return max(lo, min(hi, vs[0] - vs[1]))
            if op == "saturating_add":
                return max(lo, min(hi, vs[0] + vs[1]))
    if k == "call" and re.search(r"leading_zeros$", e[1]) and len(e[2]) == 1:
        v = evalc(e[2][0], env)
        m = re.search(r"impl (u\d+|usize)>", e[1])
        w = INT_BITS.get(m.group(1), 32) if m else 32
        if v is None or v < 0:
            return None
        return w - v.bit_length()
    if k == "case":
        d = evalc(e[1], env)
        if d is None:
            return None
        other = None
        for lab, v in e[2]:
            labs = lab if isinstance(lab, tuple) else (lab,)
            if d in labs:
                return evalc(v, env)
            if "else" in labs:
                other = v
        return evalc(other, env) if other is not None else None
    return None


def evalv(e, env, facts):
    """Evaluate a closed value expression for one table row: ints and enum/struct aggregates.
    env maps parameter index -> value.  Returns int | ('agg', adt, variant, (values...)) | None."""
    if not isinstance(e, tuple):
        return None
    k = e[0]
    if k == "c":
        return e[1] if isinstance(e[1], int) else None
    if k == "p":
        v = env.get(e[1])
        return _vproj(v, list(e[2]))
    if k == "agg":
        vals = tuple(evalv(x, env, facts) for x in e[3])
        return ("agg", e[1], e[2], vals)
    if k == "proj":
        return _vproj(evalv(e[1], env, facts), list(e[2]))
    if k == "discr":
        v = evalv(e[1], env, facts)
        if isinstance(v, tuple) and v[0] == "agg":
            if v[1] == "std::option::Option":
                return {"None": 0, "Some": 1}.get(v[2])
            if v[1] == "std::result::Result":
                return {"Ok": 0, "Err": 1}.get(v[2])
            adt = facts.adts.get(v[1])
            if adt:
                for i, var in enumerate(adt["variants"]):
                    if var["name"] == v[2]:
                        return var.get("discr", i) if var.get("discr") is not None else i
        return None
    if k == "cast":
        v = evalv(e[2], env, facts)
        if isinstance(v, tuple) and v[0] == "agg" and not v[3]:
            v = evalv(("discr", e[2]), env, facts)          # fieldless enum `as` integer
        if not isinstance(v, int):
            return None
        w = INT_BITS.get(e[1])
        if w is None:
            return v
        v &= (1 << w) - 1
        if e[1].startswith("i") and v >= 1 << (w - 1):
            v -= 1 << w
        return v
    if k == "bin":
        a, b = evalv(e[2], env, facts), evalv(e[3], env, facts)
        if not isinstance(a, int) or not isinstance(b, int):
            return None
        return evalc(("bin", e[1], C(a), C(b)))
    if k == "ovf":
        return evalv(e[1], env, facts)
    if k == "un" and len(e) == 3:
        v = evalv(e[2], env, facts)
        if not isinstance(v, int):
            return None
        if e[1] == "Neg":
            return -v
        if e[1] == "Not" and v in (0, 1):
            return 1 - v
        return None
    if k == "call" and re.search(r"(^|::)saturating_sub(::<[^<>]*>)?$", e[1]) and len(e[2]) == 2:
        vs = [evalv(x, env, facts) for x in e[2]]
        if not all(isinstance(x, int) for x in vs) or min(vs) < 0:
            return None         # unsigned operands only (the signed form clamps at the type's minimum)
        return max(0, vs[0] - vs[1])
    if k == "okval":
        v = evalv(e[1], env, facts)
        if isinstance(v, tuple) and v[0] == "agg" and v[2] in ("Some", "Ok") and v[3]:
            return v[3][0]
        return None
    if k in env:
        return env[k]
    if e in env:
        return env[e]
    if k == "call" and re.search(r"leading_zeros$", e[1]) and len(e[2]) == 1:
        v = evalv(e[2][0], env, facts)
        if not isinstance(v, int):
            return None
        return evalc(("call", e[1], (C(v),)))
    if k == "call" and re.search(r"is_power_of_two$", e[1]) and len(e[2]) == 1:
        v = evalv(e[2][0], env, facts)
        return int(v > 0 and v & (v - 1) == 0) if isinstance(v, int) else None
    if k == "call" and re.search(r"(^|::)(min|max)(::<\w+>)?$", e[1]) and len(e[2]) == 2:
        vs = [evalv(x, env, facts) for x in e[2]]
        if not all(isinstance(x, int) for x in vs):
            return None
        return min(vs) if re.search(r"(^|::)min(::<\w+>)?$", e[1]) else max(vs)
    if k == "call" and re.search(r"trailing_zeros$", e[1]) and len(e[2]) == 1:
        v = evalv(e[2][0], env, facts)
        if not isinstance(v, int) or v < 0:
            return None
        m = re.search(r"impl (u\d+|usize)>", e[1])
        w = INT_BITS.get(m.group(1), 64) if m else 64
        return w if v == 0 else (v & -v).bit_length() - 1
    if k == "call" and re.search(r"RangeInclusive<.*>::contains|RangeInclusive::<.*>::contains", e[1]) and len(e[2]) == 2:
        r = e[2][0]
        x = evalv(e[2][1], env, facts)
        if isinstance(r, tuple) and r[0] == "call" and re.search(r"RangeInclusive::<.*>::new$|RangeInclusive<.*>::new$", r[1]):
            lo, hi = evalv(r[2][0], env, facts), evalv(r[2][1], env, facts)
            if all(isinstance(z, int) for z in (lo, hi, x)):
                return int(lo <= x <= hi)
        return None
    if k == "call" and re.search(r"ops::Range<.*>::contains|ops::Range::<.*>::contains", e[1]) and len(e[2]) == 2:
        r = e[2][0]
        x = evalv(e[2][1], env, facts)
        if isinstance(r, tuple) and r[0] == "agg" and r[1] == "std::ops::Range":
            lo, hi = evalv(r[3][0], env, facts), evalv(r[3][1], env, facts)
            if all(isinstance(z, int) for z in (lo, hi, x)):
                return int(lo <= x < hi)
        return None
    if k == "call" and re.search(r"Option::<.*>::unwrap_or$", e[1]) and len(e[2]) == 2:
        v = evalv(e[2][0], env, facts)
        if isinstance(v, tuple) and v[0] == "agg" and v[2] == "Some":
            return v[3][0]
        if isinstance(v, tuple) and v[0] == "agg" and v[2] == "None":
            return evalv(e[2][1], env, facts)
        return None
    if k == "case":
        d = evalv(e[1], env, facts)
        if not isinstance(d, int):
            return None
        other = None
        for lab, v in e[2]:
            labs = lab if isinstance(lab, tuple) else (lab,)
            if d in labs:
                return evalv(v, env, facts)
            if "else" in labs:
                other = v
        return evalv(other, env, facts) if other is not None else None
    return None


def _vproj(v, p):
    p = [x for x in p if x != "*"]
    while p:
        if not (isinstance(v, tuple) and v[0] == "agg"):
            return None
        x = p.pop(0)
        if x.startswith("@"):
            if v[2] != x[1:]:
                return None
            continue
        m = re.match(r"^\.(\d+)$", x)
        if not m or int(m.group(1)) >= len(v[3]):
            return None
        v = v[3][int(m.group(1))]
    return v


def reads_of(e):
    """Ids of parser applications an expression depends on directly (not those nested inside a parser's own argument)."""
    out = set()

    def go(x):
        if isinstance(x, tuple) and x:
            if x[0] == "applied" and len(x) > 1:
                out.add(x[1])
                return
            for y in x:
                if isinstance(y, tuple):
                    go(y)
    go(e)
    return sorted(out)


def walk_expr(e):
    """All tuple sub-expressions (pre-order), descending through argument tuples."""
    if isinstance(e, tuple) and e:
        if isinstance(e[0], str):
            yield e
        for x in e:
            if isinstance(x, tuple):
                for y in walk_expr(x):
                    yield y


def show_desc(d):
    if d[0] == "while":
        return "#L%d while %s" % (d[1], show(d[2])[:80])
    if d[0] == "range":
        return "#L%d in %s..%s" % (d[1], show(d[2]), show(d[3]))
    return "#L%d in %s" % (d[1], show(d[2]))


def canon(e):
    """Canonical string of a value expression: value-preserving casts and reference plumbing removed."""
    e = strip_casts(e)
    if not isinstance(e, tuple):
        return str(e)
    k = e[0]
    if k == "c":
        return str(e[1]) if e[2] is None else "%s" % (e[2],)
    if k == "p":
        return "arg%d%s" % (e[1], "".join(e[2]))
    if k == "l":
        return "%s:_%d%s" % (e[1].split("::")[-1], e[2], "".join(e[3]))
    if k == "call":
        return "%s(%s)" % (e[1], ",".join(canon(a) for a in e[2]))
    if k == "bin":
        a, b = canon(e[2]), canon(e[3])
        if e[1] in ("Add", "Mul", "BitOr", "BitAnd", "Eq", "Ne") and b < a:
            a, b = b, a
        return "(%s %s %s)" % (a, e[1], b)
    if k == "un":
        return "%s(%s)" % (e[1], canon(e[2]))
    if k == "len":
        return "len(%s)" % canon(e[1])
    if k == "agg":
        return "%s::%s{%s}" % (e[1], e[2], ",".join(canon(a) for a in e[3]))
    if k == "proj":
        return "%s%s" % (canon(e[1]), "".join(e[2]))
    if k == "index":
        return "%s[%s]" % (canon(e[1]), canon(e[2]))
    if k in ("idx", "elem", "off"):
        return "#L%d" % e[1]
    if k == "okval":
        return "ok(%s)" % canon(e[1])
    if k == "discr":
        return "discr(%s)" % canon(e[1])
    if k == "storage":
        return "storage(%s)" % e[1]
    if k == "static":
        return "static(%s)" % e[1]
    if k == "applied":
        return "read#%d" % e[1]
    if k in ("iter", "collect", "itersum"):
        return "%s(%s)" % (k, canon(e[1]))
    if k == "map":
        return "map(%s,%s)" % (canon(e[1]), canon(e[2]))
    if k == "somepayload":
        return "some(%s)" % canon(e[1])
    if k == "case":
        return "case(%s){%s}" % (canon(e[1]), ";".join("%s:%s" % (l, canon(v)) for l, v in e[2]))
    if k == "sumloop":
        return "SUM[%s](%s)" % (canon_desc(e[1]), canon(e[2]))
    return str(e)


def canon_desc(d):
    if d[0] == "range":
        return "#L%d:%s..%s" % (d[1], canon(d[2]), canon(d[3]))
    return "#L%d:%s" % (d[1], canon(d[2]))


# ------------------------------------------------------------------------------------------- normal forms

def P(d):
    return ("poly", {k: v for k, v in d.items() if v != 0})


def nf_const(c):
    return P({(): c})


def nf_atom(key, m8=False):
    return P({(("@8:" if m8 else "") + key,): 1})


def nf_is_case(n):
    return n[0] == "case"


def nf_add(a, b):
    if nf_is_case(a):
        return nf_case(a[1], {l: nf_add(v, b) for l, v in a[2].items()})
    if nf_is_case(b):
        return nf_case(b[1], {l: nf_add(a, v) for l, v in b[2].items()})
    d = dict(a[1])
    for m, c in b[1].items():
        d[m] = d.get(m, 0) + c
    return P(d)


def nf_neg(a):
    if nf_is_case(a):
        return nf_case(a[1], {l: nf_neg(v) for l, v in a[2].items()})
    return P({m: -c for m, c in a[1].items()})


def nf_mul(a, b):
    if nf_is_case(a):
        return nf_case(a[1], {l: nf_mul(v, b) for l, v in a[2].items()})
    if nf_is_case(b):
        return nf_case(b[1], {l: nf_mul(a, v) for l, v in b[2].items()})
    d = {}
    for m1, c1 in a[1].items():
        for m2, c2 in b[1].items():
            c = c1 * c2
            mm = list(m1 + m2)
            # 8 * (X >> 3) with X a multiple of 8
            for at in list(mm):
                if at.startswith("DIV8:") and c % 8 == 0:
                    mm.remove(at)
                    mm.append(at[5:])
                    c //= 8
            m = tuple(sorted(mm))
            d[m] = d.get(m, 0) + c
    return P(d)


def nf_case(key, arms):
    vals = list(arms.values())
    if vals and all(nf_eq(v, vals[0]) for v in vals[1:]):
        return vals[0]
    return ("case", key, dict(arms))


def nf_eq(a, b):
    if a[0] != b[0]:
        return False
    if a[0] == "poly":
        return a[1] == b[1]
    if a[1] != b[1] or set(a[2].keys()) != set(b[2].keys()):
        return False
    return all(nf_eq(a[2][l], b[2][l]) for l in a[2])


def nf_m8(n):
    """Every value of n is a multiple of 8 (syntactically)."""
    if nf_is_case(n):
        return all(nf_m8(v) for v in n[2].values())
    for m, c in n[1].items():
        if c % 8 == 0:
            continue
        if any(at.startswith("@8:") or at.startswith("RU8(") for at in m):
            continue
        return False
    return True


def nf_ru8(n):
    if nf_is_case(n):
        return nf_case(n[1], {l: nf_ru8(v) for l, v in n[2].items()})
    if nf_m8(n):
        return n
    return P({("RU8(%s)" % nf_show(n),): 1})


def nf_div8(n):
    if nf_is_case(n):
        return nf_case(n[1], {l: nf_div8(v) for l, v in n[2].items()})
    if nf_m8(n):
        d = {}
        for m, c in n[1].items():
            if c % 8 == 0:
                d[m] = d.get(m, 0) + c // 8
                continue
            mm = list(m)
            for i, at in enumerate(mm):
                if at.startswith("@8:") or at.startswith("RU8("):
                    mm[i] = "DIV8:" + at
                    break
            mk = tuple(sorted(mm))
            d[mk] = d.get(mk, 0) + c
        return P(d)
    return P({("SHR3(%s)" % nf_show(n),): 1})


def nf_show(n):
    if nf_is_case(n):
        return "case %s {%s}" % (n[1], "; ".join("%s => %s" % (l, nf_show(v)) for l, v in sorted(n[2].items(), key=str)))
    parts = []
    for m, c in sorted(n[1].items()):
        if not m:
            parts.append(str(c))
        else:
            parts.append(("%d*" % c if c != 1 else "") + "*".join(m))
    return " + ".join(parts) if parts else "0"


class Normalizer:
    """Expression -> NF.  `marks` maps mark ids to the NF effect of the observed sink at that point."""

    def __init__(self, facts, marks=None, m8_atoms=(), cb_const=None):
        self.facts = facts
        self.marks = marks or {}
        self.m8_atoms = list(m8_atoms)
        self.cb_const = cb_const or {}      # component type -> constant count_bits (itself an EFFECT obligation)

    def cb(self, ty, comp):
        if ty in self.cb_const:
            return nf_const(self.cb_const[ty])
        return P({("CB(%s)" % canon(comp),): 1})

    def atom(self, key):
        return nf_atom(key, any(re.search(p, key) for p in self.m8_atoms))

    def nf(self, e):
        e0 = e
        e = strip_casts(e)
        if not isinstance(e, tuple):
            raise Undecided("cannot normalise %r" % (e,))
        k = e[0]
        if k == "c":
            if isinstance(e[1], int):
                return nf_const(e[1])
            raise Undecided("non-integer constant %r in a bit count" % (e[1],))
        if k == "bin":
            op = e[1]
            if op == "Add":
                return nf_add(self.nf(e[2]), self.nf(e[3]))
            if op == "Sub":
                return nf_add(self.nf(e[2]), nf_neg(self.nf(e[3])))
            if op == "Mul":
                return nf_mul(self.nf(e[2]), self.nf(e[3]))
            if op == "Shl":
                sh = strip_casts(e[3])
                if is_c(sh):
                    # ((X + 7) >> 3) << 3
                    inner = strip_casts(e[2])
                    if sh[1] == 3 and isinstance(inner, tuple) and inner[0] == "bin" and inner[1] == "Shr" \
                            and is_c(strip_casts(inner[3]), 3):
                        x = strip_casts(inner[2])
                        if isinstance(x, tuple) and x[0] == "bin" and x[1] == "Add" and is_c(strip_casts(x[3]), 7):
                            return nf_ru8(self.nf(x[2]))
                    return nf_mul(self.nf(e[2]), nf_const(1 << sh[1]))
                # 1 << x
                if is_c(strip_casts(e[2]), 1):
                    return self.atom("POW2(%s)" % canon(e[3]))
                return self.atom(canon(e))
            if op == "Shr":
                sh = strip_casts(e[3])
                if is_c(sh, 3):
                    return nf_div8(self.nf(e[2]))
                return self.atom(canon(e))
            if op == "Div":
                d = strip_casts(e[3])
                if isinstance(d, tuple) and d[0] == "bin" and d[1] == "Shl" and is_c(strip_casts(d[2]), 1):
                    return self.atom(canon(("bin", "Shr", e[2], d[3])))        # x / (1 << y)  ==  x >> y
                return self.atom("DIV(%s,%s)" % (nf_show(self.nf(e[2])), nf_show(self.nf(e[3]))))
            return self.atom(canon(e))
        if k == "len":
            return self.len_nf(e[1])
        if k == "sinklen":
            if e[1] not in self.marks:
                raise Undecided("sink length observed at an unsupported position (mark %d)" % e[1])
            return self.marks[e[1]]
        if k == "case":
            return nf_case(canon(e[1]), {l: self.nf(v) for l, v in e[2]})
        if k == "sumloop":
            return self.sum_nf(e[1], self.nf(e[2]))
        if k == "itersum":
            it = e[1]
            if isinstance(it, tuple) and it[0] == "map":
                src, f = it[1], it[2]
                while isinstance(src, tuple) and src[0] == "iter":
                    src = src[1]
                if isinstance(f, tuple) and f[0] == "fn" and re.search(r"BitRepr>::count_bits$", str(f[1])):
                    return P({("SUM[%s]{CB(%%1)}" % canon(src),): 1})
            raise Undecided("unsupported iterator sum %s" % show(e))
        if k == "call":
            nm = e[1]
            if re.search(r"BitRepr>::count_bits$", nm):
                m = re.match(r"^<(.*) as component::bitrepr::BitRepr>::count_bits$", nm)
                return self.cb(m.group(1) if m else None, e[2][0])
            if re.search(r"::count_extra_bits$", nm):
                return nf_atom("EXTRA[%s](%s)" % (nm.rsplit("::", 1)[0], canon(e[2][0])), m8=True)
            if re.search(r"utf8like_bytesize$", nm):
                return self.utf8len(e[2][0])
            return self.atom(canon(e))
        return self.atom(canon(e0))

    def utf8len(self, v):
        """UTF8LEN atom of a value; a value selected by a case is the case of the atoms."""
        v0 = strip_casts(v)
        if isinstance(v0, tuple) and v0 and v0[0] == "case":
            return nf_case(canon(v0[1]), {lab: self.utf8len(x) for lab, x in v0[2]})
        return P({("UTF8LEN(%s)" % canon(v0),): 1})

    def len_nf(self, x):
        x = strip_casts(x)
        cl = constructed_len(x)
        if cl is not None:
            cl0 = strip_casts(cl)
            return self.len_nf(cl0[1]) if isinstance(cl0, tuple) and cl0 and cl0[0] == "len" else self.nf(cl)
        if isinstance(x, tuple):
            if x[0] == "sinkbytes":
                if x[1] not in self.marks:
                    raise Undecided("sink bytes observed at an unsupported position")
                return nf_div8(nf_ru8(self.marks[x[1]]))
            if x[0] == "okval" and isinstance(x[1], tuple) and x[1][0] == "call" \
                    and re.search(r"encode_to_utf8like$", x[1][1]):
                return self.utf8len(x[1][2][0])
            if x[0] == "collect":
                it = x[1]
                while isinstance(it, tuple) and it[0] in ("map",):
                    it = it[1]
                while isinstance(it, tuple) and it[0] == "iter":
                    it = it[1]
                if isinstance(it, tuple) and it[0] == "agg" and it[1] == "std::ops::Range":
                    return nf_add(self.nf(it[3][1]), nf_neg(self.nf(it[3][0])))
            ty = None
        return P({("len(%s)" % canon(x),): 1})

    def sum_nf(self, desc, step):
        """SUM over a loop of an NF step."""
        lid = desc[1]
        tag = "#L%d" % lid
        if desc[0] == "range":
            trip = nf_add(self.nf(desc[3]), nf_neg(self.nf(desc[2])))
            dkey = "%s..%s" % (nf_show(self.nf(desc[2])), nf_show(self.nf(desc[3])))
        else:
            trip = self.len_nf(desc[2])
            dkey = canon(desc[2])
        if nf_is_case(step):
            if tag in step[1]:
                raise Undecided("case on the loop variable inside a summed loop")
            return nf_case(step[1], {l: self.sum_nf(desc, v) for l, v in step[2].items()})
        out = nf_const(0)
        for m, c in step[1].items():
            if any(tag in at for at in m):
                level = 1 + max([int(x) for at in m for x in re.findall(r"%(\d+)", at)] or [0])
                inner = "*".join(at.replace(tag, "%%%d" % level) for at in m)
                dk = dkey
                out = nf_add(out, P({("SUM[%s]{%s}" % (dk, inner),): c}))
            else:
                out = nf_add(out, nf_mul(trip, P({m: c})))
        return out


# ------------------------------------------------------------------------------------------- folding events

def sinks_in(events, acc=None):
    acc = acc if acc is not None else []
    for e in events:
        if e[0] in ("w", "wba", "align", "reset", "comp", "extra", "mark"):
            k = canon(e[1])
            if k not in acc:
                acc.append(k)
        elif e[0] == "loop":
            sinks_in(e[2], acc)
        elif e[0] == "case":
            for _l, evs in e[2]:
                sinks_in(evs, acc)
    return acc


def fold(events, sink_key, norm, start=None, top=True):
    """NF effect on one sink of an event list (sequential composition), starting from `start` bits."""
    total = start if start is not None else nf_const(0)
    for e in events:
        k = e[0]
        if k in ("w", "wba", "align", "reset", "comp", "extra", "mark") and canon(e[1]) != sink_key:
            continue
        if k == "w":
            total = nf_add(total, norm.nf(e[2]))
        elif k == "wba":
            total = nf_add(nf_ru8(total), nf_mul(nf_const(8), norm.nf(e[3]) if e[3][0] != "len" else norm.len_nf(e[3][1])))
        elif k == "align":
            total = nf_ru8(total)
        elif k == "reset":
            total = nf_const(0)
        elif k == "comp":
            total = nf_add(total, norm.cb(e[2], e[3]))
        elif k == "extra":
            total = nf_add(total, nf_atom("EXTRA[%s](%s)" % (e[2], canon(e[3])), m8=True))
        elif k == "mark":
            if not top:
                raise Undecided("sink length observed inside a loop or branch")
            norm.marks[e[2]] = total
        elif k == "loop":
            if sink_key not in sinks_in(e[2]):
                continue
            body = fold(e[2], sink_key, norm, nf_const(0), top=False)
            if has_align(e[2], sink_key) and not nf_m8(body):
                raise Undecided("alignment inside a loop whose body is not a whole number of bytes")
            total = nf_add(total, norm.sum_nf(e[1], body))
        elif k == "case":
            if not any(sink_key in sinks_in(evs) for _l, evs in e[2]):
                continue
            arms = {}
            for lab, evs in e[2]:
                arms[lab] = fold(evs, sink_key, norm, total, top=top)
            total = nf_case(canon(e[1]), arms)
        elif k == "repeat":
            raise Undecided("unrolled repeat outside a strided while loop (%s)" % e[4])
    return total


def has_align(events, sink_key):
    for e in events:
        if e[0] in ("align", "wba", "reset") and canon(e[1]) == sink_key:
            return True
        if e[0] == "loop" and has_align(e[2], sink_key):
            return True
        if e[0] == "case" and any(has_align(evs, sink_key) for _l, evs in e[2]):
            return True
    return False


def fold_pushes(events, vec_key, norm):
    total = nf_const(0)
    for e in events:
        if e[0] == "push" and canon(e[1]) == vec_key:
            total = nf_add(total, nf_const(1))
        elif e[0] == "loop":
            body = fold_pushes(e[2], vec_key, norm)
            total = nf_add(total, norm.sum_nf(e[1], body))
        elif e[0] == "case":
            arms = {lab: nf_add(total, fold_pushes(evs, vec_key, norm)) for lab, evs in e[2]}
            total = nf_case(canon(e[1]), arms)
    return total


def analyse(facts, body, args=None, noinline=()):
    """Returns (events, retval expr, ctx) for a body."""
    ctx = Ctx(facts)
    ctx.noinline = list(noinline)
    it = Interp(ctx, body, args)
    ev = it.run()
    return ev, it.retval, ctx


def flat(events, depth=0):
    """Printable flattening of an event tree."""
    out = []
    for e in events:
        k = e[0]
        pad = "  " * depth
        if k == "w":
            out.append("%s%s %s bits  <- %s   [%s] %s" % (pad, e[4], show(e[2]), show(e[3]), canon(e[1]), e[5]))
        elif k == "wba":
            out.append("%swrite_bytes_aligned 8*%s   [%s] %s" % (pad, show(e[3]), canon(e[1]), e[4]))
        elif k in ("align", "reset"):
            out.append("%s%s [%s] %s" % (pad, k, canon(e[1]), e[2]))
        elif k == "comp":
            out.append("%sCB<%s>(%s) [%s] %s" % (pad, e[2], show(e[3]), canon(e[1]), e[4]))
        elif k == "extra":
            out.append("%sEXTRA<%s>(%s) [%s] %s" % (pad, e[2], show(e[3]), canon(e[1]), e[4]))
        elif k == "push":
            out.append("%spush %s <- %s" % (pad, canon(e[1]), show(e[2])))
        elif k == "mark":
            out.append("%smark#%d [%s]" % (pad, e[2], canon(e[1])))
        elif k == "repeat":
            out.append("%srepeat x%s" % (pad, e[1]))
        elif k == "loop":
            out.append("%sloop %s:" % (pad, show_desc(e[1])))
            out += flat(e[2], depth + 1)
        elif k == "case":
            out.append("%scase %s:" % (pad, show(e[1])))
            for lab, evs in e[2]:
                out.append("%s  [%s]" % (pad, lab))
                out += flat(evs, depth + 2)
    return out
