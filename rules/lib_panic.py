"""PANICSITE — explicit panic constructs reachable from given entry points."""
import re

from .core import Finding

PANIC_MACROS = ["assert", "assert_eq", "assert_ne", "debug_assert", "debug_assert_eq", "debug_assert_ne",
                "unreachable", "panic", "unimplemented", "todo"]


def panic_sites(body, include_unwrap=True):
    """Explicit panic constructs in the live, non-cleanup part of a body.
    Returns list of dict(kind, bb, what, line)."""
    out = []
    for bi, t in body.calls():
        fn = t.get("fn")
        if not fn:
            continue
        d = fn["def"]
        macs = t.get("mac", [])
        if d.startswith("core::panicking::") or d.startswith("std::rt::") or d in ("std::process::abort",) \
                or d.startswith("std::panicking::"):
            if "t" in t:
                continue  # returns: not a panic entry (e.g. helper)
            mac = None
            for m in macs:
                if m in PANIC_MACROS:
                    mac = m
                    break
            # outermost user-visible macro (assert inside a crate macro): prefer the innermost panic macro
            out.append({"kind": "macro", "bb": bi, "what": mac or ("call:" + fn["name"]), "line": t.get("line"),
                        "macs": macs})
        elif include_unwrap and (d.startswith("std::option::Option::<T>::") or d.startswith("std::result::Result::<T, E>::")) \
                and fn["name"] in ("unwrap", "expect", "unwrap_err", "expect_err"):
            kind = "Option" if "option" in d else "Result"
            out.append({"kind": "unwrap", "bb": bi, "what": "%s::%s" % (kind, fn["name"]), "line": t.get("line"),
                        "macs": macs, "recv_ty": (t.get("argtys") or ["?"])[0]})
    return out


def reachable_bodies(facts, roots, stop=lambda b: False):
    return facts.closure_of_calls(roots, stop=stop)


def enumerate_sites(facts, roots, stop=lambda b: False, include_unwrap=True, body_filter=lambda b: True):
    """[(body, site, key_detail, ordinal)] for every explicit panic construct reachable from roots."""
    res = []
    for b in reachable_bodies(facts, roots, stop):
        if not body_filter(b):
            continue
        ords = {}
        for s in panic_sites(b, include_unwrap):
            k = s["what"]
            ords[k] = ords.get(k, 0) + 1
            res.append((b, s, k, ords[k]))
    return res
