"""PANICSITE — explicit panic constructs reachable from given entry points."""
import re

from .core import Finding

PANIC_MACROS = ["assert", "assert_eq", "assert_ne", "debug_assert", "debug_assert_eq", "debug_assert_ne",
                "unreachable", "panic", "unimplemented", "todo"]


def panic_sites(body, include_unwrap=True):
    """Explicit panic constructs in the live, non-cleanup part of a body.
    Returns list of dict(kind, bb, what, line)."""
    out = []
    for bi, t in body.calls():
        fn = t.get("fn")
        if not fn:
            continue
        d = fn["def"]
        macs = t.get("mac", [])
        if d.startswith("core::panicking::") or d.startswith("std::rt::") or d in ("std::process::abort",) \
                or d.startswith("std::panicking::"):
            if "t" in t:
                continue  # returns: not a panic entry (e.g. helper)
            mac = None
            for m in macs:
                if m in PANIC_MACROS:
                    mac = m
                    break
            # outermost user-visible macro (assert inside a crate macro): prefer the innermost panic macro
            out.append({"kind": "macro", "bb": bi, "what": mac or ("call:" + fn["name"]), "line": t.get("line"),
                        "macs": macs})
        elif include_unwrap and (d.startswith("std::option::Option::<T>::") or d.startswith("std::result::Result::<T, E>::")) \
                and fn["name"] in ("unwrap", "expect", "unwrap_err", "expect_err"):
            kind = "Option" if "option" in d else "Result"
            out.append({"kind": "unwrap", "bb": bi, "what": "%s::%s" % (kind, fn["name"]), "line": t.get("line"),
                        "macs": macs, "recv_ty": (t.get("argtys") or ["?"])[0]})
        elif fn.get("name") in ("index", "index_mut") and re.search(r"ops::(Index|IndexMut)<std::ops::Range", str(fn.get("full") or d)):
            # slicing by a range (`v[a..b]`, `v[..n]`, `v[a..]`) is a library call, not a MIR assert: it panics when the
            # range is inverted or runs past the end (seeded C16-12)
            out.append({"kind": "libcall", "bb": bi, "what": "range-slice", "line": t.get("line"), "macs": macs})
        elif fn.get("name") in ("copy_from_slice", "clone_from_slice", "split_at", "split_at_mut") and "slice" in d:
            out.append({"kind": "libcall", "bb": bi, "what": "slice-%s" % fn["name"], "line": t.get("line"), "macs": macs})
        elif fn.get("name") in ("collect", "from_iter", "extend", "extend_one", "from_fn") and "heapless::" in (
                str(fn.get("gargs")) + str(t.get("dty")) + str(fn.get("self_ty")) + str(fn.get("full"))) \
                and "heapless::" in (str(t.get("dty")) + str(fn.get("self_ty")) + str(fn.get("gargs"))):
            # heapless's infallible fillers (FromIterator / Extend) panic when the iterator yields more than the fixed
            # capacity; the fallible ones (push, from_slice, try_from, resize, extend_from_slice) return a Result
            out.append({"kind": "libcall", "bb": bi, "what": "fixed-capacity-%s" % fn["name"], "line": t.get("line"),
                        "macs": macs})
        elif fn.get("local") and "heapless::" in str(fn.get("gargs")):
            # a crate-local generic helper instantiated with a fixed-capacity container: if the helper fills its type
            # parameter through FromIterator / Extend, the instantiation panics on overflow
            facts = body.facts
            cb = facts.bodies.get(fn.get("res") or "") or facts.bodies.get(fn.get("def") or "")
            if cb is not None:
                for gb in [cb] + list(facts.closures_of(cb)):
                    for gbi, gt in gb.calls():
                        gfn = gt.get("fn") or {}
                        tgt = str(gt.get("dty")) + str(gfn.get("gargs"))
                        if gfn.get("name") in ("collect", "from_iter", "extend") and re.search(r"(?<![\w:])[A-Z]\w?(?![\w:])", tgt):
                            out.append({"kind": "libcall", "bb": bi, "what": "fixed-capacity-%s-via-%s" % (
                                gfn["name"], fn["name"]), "line": t.get("line"), "macs": macs})
                            break
                    else:
                        continue
                    break
    return out


def reachable_bodies(facts, roots, stop=lambda b: False):
    return facts.closure_of_calls(roots, stop=stop)


def enumerate_sites(facts, roots, stop=lambda b: False, include_unwrap=True, body_filter=lambda b: True):
    """[(body, site, key_detail, ordinal)] for every explicit panic construct reachable from roots."""
    res = []
    for b in reachable_bodies(facts, roots, stop):
        if not body_filter(b):
            continue
        ords = {}
        for s in panic_sites(b, include_unwrap):
            k = s["what"]
            ords[k] = ords.get(k, 0) + 1
            res.append((b, s, k, ords[k]))
    return res
