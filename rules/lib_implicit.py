"""IMPLICIT — implicit panic sites (bounds checks, arithmetic overflow, division by zero, shift overflow) of a universe of
bodies, each discharged from the facts that hold on every path to it.

The effect interpreter (lib_effect, collect_asserts mode) records for every `assert` terminator of MIR the goal it protects
and the list of facts known there: conditions established by `verify_*!(..)?` (the helper that turns a bool into a
Result), by early error returns, by enclosing branches, by enclosing loop ranges and by earlier assertions.  `prove`
discharges a goal by a small set of sound rules (syntactic equality up to the Normalizer's normal form, substitution of
verified equalities, constant / type-width upper bounds, interval reasoning on `for` ranges).  Anything else is reported:
either the code lacks a check (a genuine panic path) or the rule set lacks a lemma (then the site is listed with the
reason in the SAFE table, one symbol per entry).
"""
import re

from . import lib_effect as E

TY_MAX = {"u8": 2 ** 8 - 1, "u16": 2 ** 16 - 1, "u32": 2 ** 32 - 1, "u64": 2 ** 64 - 1, "usize": 2 ** 64 - 1,
          "i8": 2 ** 7 - 1, "i16": 2 ** 15 - 1, "i32": 2 ** 31 - 1, "i64": 2 ** 63 - 1, "isize": 2 ** 63 - 1}
TY_BITS = {"u8": 8, "u16": 16, "u32": 32, "u64": 64, "usize": 64, "i8": 8, "i16": 16, "i32": 32, "i64": 64, "isize": 64}
LEN_MAX = 2 ** 63 - 1


class Prover:
    def __init__(self, facts, assume, fieldmax=None):
        self.facts = facts
        self.assume = assume
        self.fieldmax = fieldmax or {}      # (variant name, field index) -> upper bound over every construction site
        self._canon = {}
        self.norm = E.Normalizer(facts)
        self.eqs = []           # (a, b) verified equalities
        self.les = []           # (a, b): a <= b
        self.lts = []           # (a, b): a < b
        self.nes = []
        self.ranges = {}        # canon(idx) -> (lo, hi)
        self.elemof = {}        # canon(elem) -> collection expression
        self.foralls = []
        for f in assume:
            if f[0] == "elemof":
                self.elemof[E.canon(f[1])] = f[2]
            elif f[0] == "forall":
                self.foralls.append(f)
        # `for (i, x) in <iterator over a>.enumerate()`: the index is below the length of the underlying collection (for a
        # zip, of its first component; a chunks()/windows() iterator yields slices no longer than its size argument)
        for f in assume:
            if f[0] != "elemof":
                continue
            c = f[2]
            while isinstance(c, tuple) and c and c[0] in ("iter",):
                c = c[1]
            if isinstance(c, tuple) and c and c[0] == "call" and re.search(r"::enumerate$", c[1]) and c[2]:
                inner = c[2][0]
                steps = 0
                zipped = None
                ADAPT = r"::(zip|iter|into_iter|iter_mut|by_ref|copied|cloned|take|skip)(::<.*>)?$"
                while isinstance(inner, tuple) and inner and steps < 6:
                    steps += 1
                    if inner[0] == "iter":
                        inner = inner[1]
                    elif inner[0] == "call" and re.search(ADAPT, inner[1]) and inner[2]:
                        if re.search(r"::zip(::<.*>)?$", inner[1]) and len(inner[2]) == 2 and zipped is None:
                            zipped = inner[2][1]
                        inner = inner[2][0]
                    else:
                        break
                # the items: (index, x) for a plain iterator, (index, (x, y)) for a zip; x is an element of the collection
                if isinstance(inner, tuple) and inner and inner[0] in ("p", "l", "call", "proj"):
                    item = E.proj_of(f[1], (".1", ".0")) if zipped is not None else E.proj_of(f[1], (".1",))
                    self.elemof.setdefault(E.canon(item), inner)
                if isinstance(inner, tuple) and inner and inner[0] in ("p", "l", "call", "proj"):
                    ix = E.proj_of(f[1], (".0",))
                    self.lts.append((ix, ("len", inner)))
                    # the index behaves like the variable of `for i in 0..inner.len()`
                    self.ranges.setdefault(E.canon(ix), (E.C(0), ("len", inner)))
        for f in assume:
            if f[0] == "range":
                self.ranges[E.canon(f[1])] = (f[2], f[3])
            elif f[0] == "ne":
                self.nes.append((f[1], f[2]))
            elif f[0] == "cond":
                self.add_cond(f[1], f[2])

    def add_cond(self, e, truth):
        e = E.strip_casts(e)
        if not isinstance(e, tuple):
            return
        if e and e[0] == "case" and truth in (0, 1) and all(E.is_c(E.strip_casts(v)) for _l, v in e[2]):
            # `matches!(x, a | b | c)` used as a condition: x is one of the labels whose arm has this truth value
            labs = []
            for lab, v in e[2]:
                if E.strip_casts(v)[1] == truth:
                    labs += list(lab) if isinstance(lab, tuple) else [lab]
            if labs and all(isinstance(x, int) for x in labs):
                self.les.append((E.C(min(labs)), e[1]))
                self.les.append((e[1], E.C(max(labs))))
            return
        if e[0] == "un" and e[1] == "Not":
            self.add_cond(e[2], 1 - truth if truth in (0, 1) else truth)
            return
        if e[0] == "call" and re.search(r"::is_empty(::<.*>)?$", e[1]) and len(e[2]) == 1 and truth in (0, 1):
            if truth == 0:
                self.lts.append((E.C(0), ("len", e[2][0])))
            else:
                self.eqs.append((("len", e[2][0]), E.C(0)))
            return
        if e[0] == "call" and re.search(r"RangeInclusive<.*>::contains|RangeInclusive::<.*>::contains", e[1]) and len(e[2]) == 2 \
                and truth == 1:
            r = E.strip_casts(e[2][0])
            if isinstance(r, tuple) and r[0] == "call" and re.search(r"RangeInclusive(::<.*>|<.*>)::new$", r[1]):
                self.les.append((r[2][0], e[2][1]))
                self.les.append((e[2][1], r[2][1]))
            elif isinstance(r, tuple) and r[0] == "agg" and "RangeInclusive" in str(r[1]) and len(r[3]) >= 2:
                self.les.append((r[3][0], e[2][1]))
                self.les.append((e[2][1], r[3][1]))
            return
        if e[0] == "call" and re.search(r"ops::Range<.*>::contains|ops::Range::<.*>::contains", e[1]) and len(e[2]) == 2 and truth == 1:
            r = E.strip_casts(e[2][0])
            if isinstance(r, tuple) and r[0] == "agg" and r[1] == "std::ops::Range":
                self.les.append((r[3][0], e[2][1]))
                self.lts.append((e[2][1], r[3][1]))
            return
        if e[0] != "bin":
            return
        op, a, b = e[1], e[2], e[3]
        if truth == 0:
            op = {"Lt": "Ge", "Le": "Gt", "Gt": "Le", "Ge": "Lt", "Eq": "Ne", "Ne": "Eq"}.get(op)
        elif truth != 1:
            return
        if op == "Eq":
            self.eqs.append((a, b))
        elif op == "Le":
            self.les.append((a, b))
        elif op == "Ge":
            self.les.append((b, a))
        elif op == "Lt":
            self.lts.append((a, b))
        elif op == "Gt":
            self.lts.append((b, a))
        elif op == "Ne":
            self.nes.append((a, b))

    # ------------------------------------------------------------------ helpers
    def nf(self, e):
        try:
            return self.norm.nf(e)
        except E.Undecided:
            return None

    def cn(self, e):
        k = id(e)
        hit = self._canon.get(k)
        if hit is not None and hit[0] is e:
            return hit[1]
        v = E.canon(e)
        self._canon[k] = (e, v)
        return v

    def same(self, a, b):
        ca, cb = self.cn(a), self.cn(b)
        if ca == cb:
            return True
        if len(ca) < 400 and len(cb) < 400:
            na, nb = self.nf(a), self.nf(b)
            if na is not None and nb is not None and E.nf_eq(na, nb):
                return True
        # one rewriting step with verified equalities, on the canonical strings
        for (x, y) in self.eqs:
            cx, cy = self.cn(x), self.cn(y)
            for (p, q) in ((cx, cy), (cy, cx)):
                if len(p) < 4 or (p not in ca and p not in cb):
                    continue
                pat = r"(?<![A-Za-z0-9_.])" + re.escape(p) + r"(?![A-Za-z0-9_])"
                ra = re.sub(pat, lambda _m: q, ca)
                rb = re.sub(pat, lambda _m: q, cb)
                if ra == rb:
                    return True
        return False

    def const(self, e):
        v = E.evalc(_strip_all(e))
        return v if isinstance(v, int) else None

    def upper(self, e, depth=0):
        """A sound upper bound of a non-negative quantity, or None."""
        if depth > 8:
            return None
        c = self.const(e)
        if c is not None:
            return c
        best = None

        def take(v):
            nonlocal best
            if v is not None and (best is None or v < best):
                best = v
        e0 = e
        if isinstance(e, tuple) and e[0] == "cast":
            # a cast of an unsigned narrower value keeps its bound; the source type bounds it too
            src = e[2]
            take(self.upper(src, depth + 1))
            if len(e) > 3 and e[3] in TY_MAX and str(e[3]).startswith("u"):
                take(TY_MAX[e[3]])
        e = E.strip_casts(e)
        k = E.canon(e)
        for (a, b) in self.les:
            if E.canon(E.strip_casts(a)) == k:
                take(self.upper(b, depth + 1))
        for (a, b) in self.lts:
            if E.canon(E.strip_casts(a)) == k:
                u = self.upper(b, depth + 1)
                take(u - 1 if u is not None else None)
        for (a, b) in self.eqs:
            for (p, q) in ((a, b), (b, a)):
                if E.canon(E.strip_casts(p)) == k:
                    if self.const(q) is not None:
                        take(self.const(q))
                    elif depth < 3:
                        take(self.upper(q, depth + 3))
        if k in self.ranges:
            u = self.upper(self.ranges[k][1], depth + 1)
            take(u - 1 if u is not None else None)
        if isinstance(e, tuple) and e[0] == "proj" and e[2] == (".0",) and E.canon(e[1]) in self.elemof \
                and "enumerate" in E.canon(self.elemof[E.canon(e[1])]):
            take(LEN_MAX - 1)              # position of an element in a slice
        if isinstance(e, tuple) and e[0] == "bin" and e[1] == "Mul":
            for (q, c) in ((e[2], e[3]), (e[3], e[2])):
                q0 = E.strip_casts(q)
                if isinstance(q0, tuple) and q0[0] == "bin" and q0[1] == "Div":
                    if self.same(q0[3], c) or (depth < 4 and self.le(c, q0[3])):
                        take(self.upper(q0[2], depth + 1))      # (x / c) * i <= x  for i <= c
        # a value read with an n-bit field reader is < 2^n
        if isinstance(e, tuple) and e[0] == "proj" and e[2] == (".1",) and isinstance(e[1], tuple) and e[1][0] == "okval":
            ap = e[1][1]
            if isinstance(ap, tuple) and ap[0] == "applied" and isinstance(ap[2], tuple) and ap[2][0] == "call" \
                    and re.match(r"^nom::(bits::)?(streaming|complete)::take", ap[2][1]) and ap[2][2]:
                nb = self.upper(ap[2][2][0], depth + 1)
                if nb is not None and nb < 64:
                    take((1 << nb) - 1)
                g = ap[2][3] if len(ap[2]) > 3 else ()
                if len(g) > 1 and g[1] in TY_MAX:
                    take(TY_MAX[g[1]])
            if isinstance(ap, tuple) and ap[0] == "applied" and isinstance(ap[2], tuple) and ap[2][0] == "fn":
                m = re.search(r"be_u(\d+)", str(ap[2][1]))
                if m:
                    take((1 << int(m.group(1))) - 1)
        if isinstance(e, tuple) and E.canon(e) in self.elemof and e[0] != "index":
            # an element of a collection (reached through an iterator): what a loop established for every element holds
            mycoll = E.canon(E.strip_casts(self.elemof[E.canon(e)]))
            for (_k, desc, cnd, truth) in self.foralls:
                coll = _base_collection(desc)
                if coll is None or E.canon(E.strip_casts(coll)) != mycoll:
                    continue
                for holder in _elem_forms(desc, desc[1]):
                    inst = _replace(cnd, holder, e)
                    if inst != cnd and depth < 3:
                        sub = Prover(self.facts, [("cond", inst, truth)])
                        take(sub.upper(e, depth + 1))
        if isinstance(e, tuple) and e[0] == "index":
            for (_k, desc, cnd, truth) in self.foralls:
                coll = _base_collection(desc)
                if coll is None or E.canon(E.strip_casts(coll)) != E.canon(E.strip_casts(e[1])):
                    continue
                lid = desc[1]
                for holder in _elem_forms(desc, lid):
                    inst = _replace(cnd, holder, e)
                    if inst != cnd:
                        sub = Prover(self.facts, [("cond", inst, truth)])
                        take(sub.upper(e, depth + 1))
        if isinstance(e, tuple):
            if e[0] == "bin":
                a, b = self.upper(e[2], depth + 1), self.upper(e[3], depth + 1)
                if e[1] == "Add" and a is not None and b is not None:
                    take(a + b)
                if e[1] == "Mul" and a is not None and b is not None:
                    take(a * b)
                if e[1] in ("Sub", "Div", "Shr", "Rem") and a is not None:
                    take(a)
                if e[1] == "Rem" and b is not None:
                    take(b - 1)
                if e[1] == "BitAnd":
                    take(a if b is None else (b if a is None else min(a, b)))
                if e[1] == "Shl" and a is not None and b is not None and b < 64:
                    take(a << b)
            if e[0] == "len":
                take(LEN_MAX)
            if e[0] == "ovf":
                take(self.upper(e[1], depth + 1))
            if e[0] == "call" and re.search(r"leading_zeros$|trailing_zeros$|count_ones$", e[1]):
                take(64)
                m = re.search(r"impl (u\d+|usize)>::leading_zeros$", e[1])
                if m and e[2] and depth < 5 and (self.lower(e[2][0], depth + 1) or 0) >= 1:
                    take(TY_BITS[m.group(1)] - 1)          # a non-zero value has at most bits-1 leading zeros
            if e[0] == "call" and re.search(r"Option::<.*>::unwrap_or$", e[1]) and len(e[2]) == 2:
                u1 = self.upper(E.mk_okval(e[2][0]), depth + 1)
                u2 = self.upper(e[2][1], depth + 1)
                if u1 is not None and u2 is not None:
                    take(max(u1, u2))
            if e[0] == "optmap":
                take(self.upper(e[2], depth + 1))
            if e[0] == "case":
                us = [self.upper(v, depth + 1) for _l, v in e[2]]
                if us and all(u is not None for u in us):
                    take(max(us))
        # payload of an enum variant whose every construction site bounds it
        if isinstance(e, tuple) and e[0] in ("p", "proj", "l"):
            pj = list(e[2] if e[0] != "l" else e[3])
            if len(pj) >= 2 and pj[-2].startswith("@") and re.match(r"^\.\d+$", pj[-1]):
                take(self.fieldmax.get((pj[-2][1:], int(pj[-1][1:]))))
        if isinstance(e, tuple) and e[0] == "case":
            us = [self.upper(v, depth + 1) for _l, v in e[2] if not (isinstance(v, tuple) and v[0] == "?")]
            if us and all(u is not None for u in us):
                take(max(us))
        # the static type of a place bounds it
        ty = _type_of(e0)
        if ty in TY_MAX:
            take(TY_MAX[ty])
        return best

    def lower(self, e, depth=0):
        if depth > 6:
            return None
        c = self.const(e)
        if c is not None:
            return c
        e = E.strip_casts(e)
        k = E.canon(e)
        best = None
        for (a, b) in self.les:
            if E.canon(E.strip_casts(b)) == k:
                v = self.lower(a, depth + 1)
                best = v if best is None or (v is not None and v > best) else best
        for (a, b) in self.lts:
            if E.canon(E.strip_casts(b)) == k:
                v = self.lower(a, depth + 1)
                v = v + 1 if v is not None else None
                best = v if best is None or (v is not None and v > best) else best
        if k in self.ranges:
            v = self.lower(self.ranges[k][0], depth + 1)
            best = v if best is None or (v is not None and v > best) else best
        if isinstance(e, tuple) and e[0] == "bin" and e[1] == "Add":
            a, b = self.lower(e[2], depth + 1), self.lower(e[3], depth + 1)
            if a is not None and b is not None:
                v = a + b
                best = v if best is None or v > best else best
        if isinstance(e, tuple) and e[0] == "bin" and e[1] == "Div":
            la, ub = self.lower(e[2], depth + 1), self.upper(e[3], depth + 1)
            if la is not None and ub:
                v = la // ub
                best = v if best is None or v > best else best
        if isinstance(e, tuple) and e[0] == "bin" and e[1] == "Shl" and self.const(e[2]) is not None and self.const(e[2]) > 0:
            v = self.const(e[2])
            best = v if best is None or v > best else best
        return best if best is not None else 0

    # ------------------------------------------------------------------ goals
    def le(self, a, b, depth=0):
        """a <= b"""
        if self.same(a, b):
            return "syntactically equal (after verified equalities)"
        a0 = E.strip_casts(a)
        if depth < 2:
            # idx < hi <= b   and   idx + 1 <= hi <= b
            cands = [(a0, 0)]
            if isinstance(a0, tuple) and a0[0] == "bin" and a0[1] == "Add" and self.const(a0[3]) == 1:
                cands.append((E.strip_casts(a0[2]), 1))
            for (x, _k) in cands:
                kx = E.canon(x)
                if kx in self.ranges:
                    hi = self.ranges[kx][1]
                    if self.same(hi, b) or self.le(hi, b, depth + 1):
                        return "loop index below %s" % E.show(hi)[:40]
        ua, lb = self.upper(a), self.lower(b)
        if ua is not None and lb is not None and ua <= lb:
            return "upper bound %d <= lower bound %d" % (ua, lb)
        if self.const(a) == 1 and (self.lower(b) or 0) >= 0 and self.nonzero(b):
            return "1 <= a non-zero unsigned value"
        cb = self.const(b)
        if ua is not None and cb is not None and ua <= cb:
            return "upper bound %d <= %d" % (ua, cb)
        for (x, y) in self.les + self.lts:
            if self.same(x, a) and self.same(y, b):
                return "verified: %s <= %s" % (E.show(x)[:50], E.show(y)[:50])
        for (x, y) in self.eqs:
            if (self.same(x, a) and self.same(y, b)) or (self.same(y, a) and self.same(x, b)):
                return "verified equal"
        # a <= x <= b by one hop
        for (x, y) in self.les + self.lts + self.eqs:
            if self.same(x, a):
                uy = self.upper(y)
                if self.same(y, b) or (uy is not None and cb is not None and uy <= cb):
                    return "via %s" % E.show(y)[:50]
        return None

    def lt(self, a, b):
        """a < b"""
        a = E.strip_casts(a)
        ka = E.canon(a)
        if ka in self.ranges:
            lo, hi = self.ranges[ka]
            r = self.le(hi, b)
            if r:
                return "loop index < %s and that %s" % (E.show(hi)[:50], r)
        ua, lb = self.upper(a), self.lower(b)
        cb = self.const(b)
        if ua is not None and cb is not None and ua < cb:
            return "upper bound %d < %d" % (ua, cb)
        if ua is not None and lb is not None and ua < lb:
            return "upper bound %d < lower bound %d" % (ua, lb)
        for (x, y) in self.lts:
            if self.same(x, a) and (self.same(y, b) or self.le(y, b)):
                return "verified: %s < %s" % (E.show(x)[:50], E.show(y)[:50])
        # t / d < n  when  t < d * n  (verified product equality with the range bound of t)
        if isinstance(a, tuple) and a[0] == "bin" and a[1] == "Div":
            t, d = E.strip_casts(a[2]), a[3]
            kt = E.canon(t)
            if kt in self.ranges:
                hi = self.ranges[kt][1]
                for (x, y) in self.eqs:
                    for (p, q) in ((x, y), (y, x)):
                        p0 = E.strip_casts(p)
                        if isinstance(p0, tuple) and p0[0] == "bin" and p0[1] == "Mul" and self.same(q, hi):
                            f1, f2 = p0[2], p0[3]
                            if (self.same(f1, d) and self.same(f2, b)) or (self.same(f2, d) and self.same(f1, b)):
                                return "t < %s = d * n (verified product), hence t / d < n" % E.show(hi)[:40]
        # a - k < b  when a <= b and k >= 1 ... (not needed so far)
        return None

    def nonzero(self, d):
        d0 = E.strip_casts(d)
        c = self.const(d0)
        if c is not None:
            return "constant %d" % c if c != 0 else None
        if isinstance(d0, tuple) and d0[0] == "bin" and d0[1] == "Shl" and (self.const(d0[2]) or 0) > 0:
            return "a power of two"
        lo = self.lower(d0)
        if lo is not None and lo > 0:
            return "lower bound %d" % lo
        for (x, y) in self.nes:
            if self.same(x, d0) and self.const(y) == 0:
                return "verified non-zero"
        for (x, y) in self.lts:
            if self.same(y, d0) and (self.lower(x) or 0) >= 0:
                return "verified > %s" % E.show(x)[:30]
        return None

    def prove(self, goal):
        if goal[0] == "noovf":
            _k, op, a, b, ty = goal
            mx = TY_MAX.get(ty)
            if op == "Sub":
                if ty.startswith("u"):
                    return self.le(b, a)
                ua, ub = self.upper(a), self.upper(b)
                if ua is not None and ub is not None and mx is not None and max(ua, ub) <= mx // 2:
                    return "both operands within half the range"
                return None
            if op == "Mul":
                # (x / c) * i  with i <= c  is at most x, which already is a value of this type
                for (q, i) in ((a, b), (b, a)):
                    q0 = E.strip_casts(q)
                    if isinstance(q0, tuple) and q0[0] == "bin" and q0[1] == "Div" and (self.same(q0[3], i) or self.le(i, q0[3])):
                        return "(x / c) * i <= x for i <= c"
            if op == "Add":
                # q * i + q == q * (i + 1)
                for (m, q) in ((a, b), (b, a)):
                    m0 = E.strip_casts(m)
                    if isinstance(m0, tuple) and m0 and m0[0] == "ovf":
                        m0 = E.strip_casts(m0[1])
                    if isinstance(m0, tuple) and m0 and m0[0] == "bin" and m0[1] == "Mul":
                        for (x, i) in ((m0[2], m0[3]), (m0[3], m0[2])):
                            if self.same(x, q):
                                r = self.prove(("noovf", "Mul", q, ("bin", "Add", i, E.C(1)), ty))
                                if r:
                                    return "q*i + q = q*(i+1): " + r
            if op == "Add" and ty in ("usize", "u64", "i64", "isize"):
                # 64-bit running sum over the elements of an in-memory collection, each widened from <= 32 bits:
                # fewer than 2^31 elements (ASSUMPTION, listed in the evidence) keep it below 2^63
                for (acc, x) in ((a, b), (b, a)):
                    if isinstance(acc, tuple) and acc and acc[0] in ("partial", "lc"):
                        ux = self.upper(x)
                        if ux is not None and ux <= (1 << 32) - 1 and (self.lower(x) or 0) >= 0:
                            return "64-bit sum of <= 32-bit elements of an in-memory collection (fewer than 2^31 elements)"
            ua, ub = self.upper(a), self.upper(b)
            if mx is not None and op in ("Add", "Mul"):
                uw = self.upper(("bin", op, a, b))
                if uw is not None and uw <= mx:
                    return "result bounded by %d, fits %s" % (uw, ty)
            if ua is None or ub is None or mx is None:
                return None
            if op == "Add" and ua + ub <= mx:
                return "%d + %d fits %s" % (ua, ub, ty)
            if op == "Mul" and ua * ub <= mx:
                return "%d * %d fits %s" % (ua, ub, ty)
            return None
        if goal[0] == "cond":
            e, truth = E.strip_casts(goal[1]), goal[2]
            c = self.const(e)
            if c is not None:
                return "constant" if c == truth else None
            if not (isinstance(e, tuple) and e[0] == "bin"):
                return None
            op, a, b = e[1], e[2], e[3]
            if truth == 0:
                op = {"Lt": "Ge", "Le": "Gt", "Gt": "Le", "Ge": "Lt", "Eq": "Ne", "Ne": "Eq"}.get(op)
            if op == "Lt":
                return self.lt(a, b)
            if op == "Le":
                return self.le(a, b)
            if op == "Gt":
                return self.lt(b, a)
            if op == "Ge":
                return self.le(b, a)
            if op == "Ne":
                cb = self.const(b)
                if cb == 0:
                    return self.nonzero(a)
                ua = self.upper(a)
                if cb is not None and ua is not None and ua < cb:
                    return "upper bound %d < %d" % (ua, cb)
                la = self.lower(a)
                if cb is not None and la is not None and cb < la:
                    return "lower bound above the excluded value"
                # x != MIN for a value cast from a small non-negative quantity
                if cb is not None and cb < 0 and la is not None and la >= 0:
                    return "non-negative"
                return None
            return None
        return None


def _base_collection(desc):
    """The vector a collection loop ranges over (iterator adapters removed)."""
    if desc[0] != "coll":
        return None
    x = desc[2]
    while isinstance(x, tuple) and x and x[0] in ("iter", "call", "map"):
        if x[0] == "call":
            if re.search(r"::(enumerate|iter|into_iter|by_ref|copied|cloned)$", x[1].split("::<")[0]) and x[2]:
                x = x[2][0]
                continue
            break
        x = x[1]
    return x


def _elem_forms(desc, lid):
    """Expressions under which the loop body sees the current element of the base vector."""
    el = ("elem", lid)
    forms = [el, ("proj", el, (".1",))]
    return forms


def _type_of(e):
    if isinstance(e, tuple) and e[0] == "cast":
        # type after the cast is e[1]; the value is bounded by the narrower of source/target
        return e[1]
    return None


def _replace(e, old, new):
    if E.canon(E.strip_casts(e)) == E.canon(E.strip_casts(old)) if isinstance(e, tuple) and isinstance(old, tuple) else False:
        return new
    if not isinstance(e, tuple) or not e:
        return e
    return tuple(_replace(x, old, new) if isinstance(x, tuple) and x and isinstance(x[0], str) else
                 (tuple(_replace(y, old, new) if isinstance(y, tuple) else y for y in x) if isinstance(x, tuple) else x)
                 for x in e)


def _strip_all(e):
    if not isinstance(e, tuple) or not e:
        return e
    if e[0] == "cast":
        return _strip_all(e[2])
    if e[0] == "ovf":
        return _strip_all(e[1])
    return tuple(_strip_all(x) if isinstance(x, tuple) else x for x in e)


def collect(facts, body, noinline=(), args=None, reader=False, want_aggs=False):
    """Assert records of one body (closures inlined where the interpreter inlines them)."""
    ctx = E.Ctx(facts)
    ctx.open_loops = True
    ctx.reader = reader
    ctx.collect_asserts = True
    ctx.noinline = list(noinline)
    it = E.Interp(ctx, body, args)
    it.run()
    if want_aggs:
        return ctx.asserts, ctx.aggs
    return ctx.asserts


def field_bounds(facts, agg_records, variants):
    """Upper bound of integer payloads of the given enum variants over all recorded construction sites.
    `variants`: {variant name: adt}.  A variant with an unbounded site gets no entry."""
    out = {}
    sites = {}
    for r in agg_records:
        if r["variant"] not in variants or variants[r["variant"]] != r["adt"]:
            continue
        pr = Prover(facts, r["assume"])
        for i, op in enumerate(r["ops"]):
            u = pr.upper(op)
            key = (r["variant"], i)
            sites[key] = sites.get(key, 0) + 1
            if u is None:
                out[key] = None
            elif key not in out or (out[key] is not None and u > out[key]):
                out[key] = u
    return {k: v for k, v in out.items() if v is not None}, sites


def site_key(rec, ordinals):
    """Stable key of an implicit site: body, kind, ordinal among same-kind sites of that body (by block order)."""
    k = (rec["body"], rec["msg"])
    return "%s|%s|%d" % (rec["body"], rec["msg"], ordinals[(rec["body"], rec["msg"], rec["bb"])])


def number_sites(facts, records):
    """(body, msg, bb) -> ordinal, numbering every assert terminator of the bodies involved in block order."""
    out = {}
    for bid in sorted({r["body"] for r in records}):
        b = facts.bodies.get(bid)
        if b is None:
            continue
        cnt = {}
        for bi in range(len(b.blocks)):
            t = b.blocks[bi]["term"]
            if t["k"] == "assert":
                m = t.get("msg") or ""
                cnt[m] = cnt.get(m, 0) + 1
                out[(bid, m, bi)] = cnt[m]
    return out


def show_goal(g):
    if g[0] == "noovf":
        return "%s %s %s does not overflow %s" % (E.show(g[2])[:60], g[1], E.show(g[3])[:60], g[4])
    return "%s is %s" % (E.show(g[1])[:140], "true" if g[2] else "false")
