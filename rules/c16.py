"""C16 — the parser never panics (explicit constructs) and verifies CRC-8/CRC-16 unconditionally."""
import json
import os
import re

from .core import Finding, RuleResult, FactError, const_val
from .lib_errdisc import run_errdisc, closure_arg_body
from .lib_panic import enumerate_sites
from .lib_mpt import path_str

PROPERTY = "C16"
CONFIGS_QUICK = ["F2"]
CONFIGS_THOROUGH = ["F2", "F3"]  # the parser exists only with the `decode` feature
TECHNIQUE = ("CONSTARG + MPT on the CRC verification sites of the stream-parse path, dataflow of the checksum "
             "operands, ERRDISC on nom::Err, PANICSITE enumeration with a reasoned SAFE table")
EXPLANATION = (
    "Decides: (CRC) the stream parser calls the frame parser with check_crc = const true and the frame parser calls "
    "the header parser with const true; in both, every path to an Ok return passes the invocation of "
    "verify(be_u16|be_u8, pred) whose failure is `?`-propagated; pred compares the parsed checksum with the computed "
    "one (Option::map_or(true, |x| x == *crc) over bool::then(check_crc, ..)); the computed checksum is "
    "Crc::checksum(FRAME_CRC|HEADER_CRC, input_start[..offset(input_start, rest)]) where input_start is the closure's "
    "own input and rest is the position handed to the checksum reader, i.e. the CRC spans the whole frame/header; the "
    "generators are the degree-16/8 polynomials with non-zero constant term checked from the compiler's const "
    "evaluation, hence every burst of <= 16 (resp. 8) altered bits inside a frame changes the remainder. (PANICSITE) "
    "every explicit panic construct (assert*/debug_assert*/unreachable/panic/unwrap/expect) reachable from the "
    "stream parser is enumerated; each is discharged by a one-site SAFE entry with a reason or reported. (ERRDISC) no "
    "Result<_, nom::Err<_>> in the parser module is unwrapped or dropped. Implicit panics (indexing, shifts and "
    "arithmetic on parsed values) are NOT decided.")
NOT_DECIDED = "implicit panics on parsed values; acceptance of arbitrary byte strings; Decode arithmetic"
ASSUMPTIONS = ["nom combinators invoke the closures they are given and propagate their errors (trusted dependency)"]

SAFE_FILE = os.path.join(os.path.dirname(os.path.dirname(os.path.abspath(__file__))), "oracle", "panicsite_safe.json")


def applicable(tag):
    return tag in ("F2", "F3")


from .lib_safe import load_safe, entry_holds


def parser_root(facts, what):
    """Public fn of the parser module returning `impl FnMut(..) -> IResult<.., component::datatype::<what>, ..>`."""
    out = []
    for f in facts.raw["fns"]:
        if not f["path"].startswith("component::parser::") or "{closure" in f["path"]:
            continue
        if re.search(r"impl FnMut\(.*component::datatype::%s\)" % what, f["output"]):
            out.append(f["path"])
    if len(out) != 1:
        raise FactError("parser role for %s not unique: %s" % (what, out))
    return facts.body(out[0])


def direct_closure(facts, root):
    cs = facts.closures_of(root, recursive=False)
    if len(cs) != 1:
        raise FactError("%s: expected exactly one returned parser closure, found %d" % (root.id, len(cs)))
    return cs[0]


def upvar_index(proj):
    m = re.match(r"^\*?\.(\d+)", proj)
    return int(m.group(1)) if m else None


def check_crc_parser(facts, rr, root, width):
    P = direct_closure(facts, root)
    reader = "nom::number::streaming::be_u%d" % width
    crc_static_ty = "crc::Crc<u%d" % width
    where = P.loc()
    # (1) verify(be_uN, pred)
    vsite = None
    for bi, t in P.calls():
        fn = t.get("fn")
        if fn and fn["def"] == "nom::combinator::verify":
            a0 = t["args"][0]
            if a0.get("k") == "const" and a0.get("def", "").startswith(reader):
                vsite = (bi, t)
    sample = {"parser": P.id, "width": width}
    if vsite is None:
        rr.fail(Finding("MPT/CRC", P.id, "no-crc%d-verification" % width, 0, where,
                        "%s contains no verify(%s, ..) site: the CRC-%d is not checked" % (P.id, reader, width)),
                dict(sample, verdict="FAIL"))
        return
    vb, vt = vsite
    # (2) invocation of the parser object returned by verify
    inv = None
    for bi, t in P.calls():
        fn = t.get("fn")
        if fn and fn["name"] in ("call_mut", "call_once", "call") and t["args"]:
            for o in P.origins(t["args"][0]):
                if o[0] == "call" and o[1] == vb:
                    inv = (bi, t)
    if inv is None:
        rr.fail(Finding("MPT/CRC", P.id, "crc%d-verifier-never-invoked" % width, 0, P.loc(vb, "term"),
                        "the parser built by verify(%s, ..) is never applied to the input" % reader),
                dict(sample, verdict="FAIL"))
        return
    ib, it = inv
    # its result must reach `?`
    used_by_try = False
    if not it["dst"]["p"]:
        for (ub, us) in P.uses_of_local(it["dst"]["l"]):
            if us == "term" and (P.term(ub).get("fn") or {}).get("def") == "std::ops::Try::branch":
                used_by_try = True
    if not used_by_try:
        rr.fail(Finding("MPT/CRC", P.id, "crc%d-result-not-propagated" % width, 0, P.loc(ib, "term"),
                        "the result of the CRC-%d verification is not propagated with `?`" % width),
                dict(sample, verdict="FAIL"))
    else:
        rr.ok(dict(sample, verdict="ok", clause="verify(%s, pred) invoked and `?`-propagated" % reader,
                   site=P.loc(ib, "term")))
    # (3) every Ok-return passes the invocation
    ok_blocks = []
    for bi, si, s in P.iter_stmts():
        if s["k"] == "assign" and s["dst"]["l"] == 0 and not s["dst"]["p"] and s["rv"]["k"] == "agg" \
                and s["rv"].get("adt") == "std::result::Result" and s["rv"].get("variant") == "Ok":
            ok_blocks.append(bi)
    if not ok_blocks:
        raise FactError("%s has no Ok(..) construction" % P.id)
    for ob in ok_blocks:
        p = P.find_path(0, {ob}, removed={ib})
        if p is not None:
            rr.fail(Finding("MPT/CRC", P.id, "ok-return-bypasses-crc%d" % width, 0, P.loc(ob, "term"),
                            "an Ok result is reachable without passing the CRC-%d verification:\n%s"
                            % (width, path_str(P, p))), dict(sample, verdict="FAIL"))
        else:
            rr.ok(dict(sample, verdict="ok", clause="every path to Ok(..) passes the CRC verification",
                       site=P.loc(ob, "term")))
    # (4) predicate: Option::map_or(test_crc, true, |x| x == *crc)  (or a direct Eq)
    pred = closure_arg_body(facts, P, vt["args"][1])
    pred_ok = False
    test_crc_upvar = None
    if pred is not None:
        for bi, t in pred.calls():
            fn = t.get("fn")
            if fn and fn["def"].startswith("std::option::Option::<T>::map_or") and t["dst"]["l"] == 0:
                inner = closure_arg_body(facts, pred, t["args"][2])
                if inner is not None:
                    for b2, s2, st in inner.iter_stmts():
                        if st["k"] == "assign" and st["dst"]["l"] == 0 and st["rv"]["k"] == "bin" \
                                and st["rv"]["op"] == "Eq":
                            oa = inner.origins(st["rv"]["a"])
                            ob_ = inner.origins(st["rv"]["b"])
                            kinds = sorted(set(o[0] for o in oa + ob_))
                            if kinds == ["param"] and set(o[1] for o in oa + ob_) == {1, 2}:
                                pred_ok = True
                for o in pred.origins(t["args"][0]):
                    if o[0] == "param" and o[1] == 1:
                        test_crc_upvar = upvar_index(o[2])
        for b2, s2, st in pred.iter_stmts():
            if st["k"] == "assign" and st["dst"]["l"] == 0 and st["rv"]["k"] == "bin" and st["rv"]["op"] == "Eq":
                pred_ok = True
    if pred_ok:
        rr.ok(dict(sample, verdict="ok", clause="predicate compares parsed and computed checksum with ==",
                   site=pred.loc()))
    else:
        rr.fail(Finding("MPT/CRC", P.id, "crc%d-predicate-not-an-equality" % width, 0,
                        pred.loc() if pred else P.loc(vb, "term"),
                        "the predicate given to verify(%s, ..) is not `computed == parsed` (undecided shape: fail "
                        "closed)" % reader), dict(sample, verdict="FAIL"))
    # (5) the Option captured by the predicate is bool::then(check_crc, || CRC.checksum(input_start[..offset]))
    agg = None
    for bi, si, s in P.iter_stmts():
        if s["k"] == "assign" and s["rv"]["k"] == "agg" and pred is not None and s["rv"].get("closure") == pred.id:
            agg = s["rv"]
    then_site = None
    if agg is not None and test_crc_upvar is not None and test_crc_upvar < len(agg["ops"]):
        for o in P.origins(agg["ops"][test_crc_upvar]):
            if o[0] == "call" and (o[2].get("fn") or {}).get("def", "").startswith("core::bool::<impl bool>::then"):
                then_site = o
    if then_site is None:
        rr.fail(Finding("MPT/CRC", P.id, "crc%d-reference-not-from-then" % width, 0, P.loc(vb, "term"),
                        "cannot trace the computed checksum to `check_crc.then(|| CRC.checksum(..))`: fail closed"),
                dict(sample, verdict="FAIL"))
        return
    tb, tt = then_site[1], then_site[2]
    # flag operand is the captured bool parameter of the root fn
    flag_ok = False
    for o in P.origins(tt["args"][0]):
        if o[0] == "param" and o[1] == 1:
            ui = upvar_index(o[2])
            for bi, si, s in root.iter_stmts():
                if s["k"] == "assign" and s["rv"]["k"] == "agg" and s["rv"].get("closure") == P.id \
                        and ui is not None and ui < len(s["rv"]["ops"]):
                    for o2 in root.origins(s["rv"]["ops"][ui]):
                        if o2[0] == "param" and root.local_ty(o2[1]) == "bool":
                            flag_ok = True
    if flag_ok:
        rr.ok(dict(sample, verdict="ok", clause="CRC reference is computed iff the check_crc parameter is true",
                   site=P.loc(tb, "term")))
    else:
        rr.fail(Finding("MPT/CRC", P.id, "crc%d-flag-not-the-parameter" % width, 0, P.loc(tb, "term"),
                        "the condition of `.then(..)` is not the captured check_crc parameter"),
                dict(sample, verdict="FAIL"))
    T = closure_arg_body(facts, P, tt["args"][1])
    span_ok = False
    static_ok = False
    detail = {}
    if T is not None:
        for bi, t in T.calls():
            fn = t.get("fn")
            if not fn or fn["name"] != "checksum" or not fn["def"].startswith("crc::"):
                continue
            for o in T.origins(t["args"][0]):
                if o[0] == "const" and o[1].get("static") and crc_static_ty in o[1].get("ty", ""):
                    static_ok = True
                    detail["static"] = o[1]["static"]
            # slice operand: index(base, RangeTo{end: offset(base, rest)})
            for o in T.origins(t["args"][1]):
                if o[0] == "call" and (o[2].get("fn") or {}).get("name") == "index" \
                        and "RangeTo<usize>" in (o[2]["fn"].get("full") or ""):
                    it2 = o[2]
                    base = T.origins(it2["args"][0])
                    rng = T.origins(it2["args"][1])
                    base_uv = [upvar_index(x[2]) for x in base if x[0] == "param" and x[1] == 1]
                    end_ok = False
                    rest_uv = None
                    for r in rng:
                        if r[0] == "agg" and r[3].get("adt") == "std::ops::RangeTo":
                            for e in T.origins(r[3]["ops"][0]):
                                if e[0] == "call" and (e[2].get("fn") or {}).get("name") == "offset":
                                    b0 = [upvar_index(x[2]) for x in T.origins(e[2]["args"][0])
                                          if x[0] == "param" and x[1] == 1]
                                    b1 = [upvar_index(x[2]) for x in T.origins(e[2]["args"][1])
                                          if x[0] == "param" and x[1] == 1]
                                    if b0 and base_uv and b0 == base_uv and b1:
                                        end_ok = True
                                        rest_uv = b1[0]
                    if end_ok and base_uv:
                        # in P: capture base_uv must be the closure's own input (param 2); capture rest_uv must be
                        # the position handed to the checksum reader
                        for bi2, si2, s2 in P.iter_stmts():
                            if s2["k"] == "assign" and s2["rv"]["k"] == "agg" and s2["rv"].get("closure") == T.id:
                                ops = s2["rv"]["ops"]
                                bo = P.origins(ops[base_uv[0]])
                                ro = P.place_origins({"l": ops[rest_uv]["pl"]["l"], "p": []}) \
                                    if ops[rest_uv].get("pl") else []
                                base_is_input = bool(bo) and all(x[0] == "param" and x[1] == 2 and x[2] in ("", "*")
                                                                 for x in bo)
                                # local holding `rest` (through the ref)
                                rest_locals = set()
                                for x in P.origins(ops[rest_uv]):
                                    if x[0] in ("local", "call", "param"):
                                        pass
                                rl = None
                                for d in P.whole_defs(ops[rest_uv]["pl"]["l"]):
                                    rv = P.def_rvalue(d)
                                    if rv and rv.get("k") == "ref":
                                        rl = rv["pl"]["l"]
                                il = None
                                if len(it["args"]) > 1:
                                    # call_mut(parser, (input,)) — the tuple holds a copy of `rest`
                                    for x in P.origins(it["args"][1]):
                                        if x[0] == "agg":
                                            for oo in x[3]["ops"]:
                                                for d in P.origins(oo):
                                                    pass
                                                if oo.get("pl"):
                                                    src = oo["pl"]["l"]
                                                    # follow one copy
                                                    for dd in P.whole_defs(src):
                                                        rv2 = P.def_rvalue(dd)
                                                        if rv2 and rv2.get("k") == "use" and rv2["op"].get("pl"):
                                                            il = rv2["op"]["pl"]["l"]
                                                    if il is None:
                                                        il = src
                                detail.update({"base_is_own_input": base_is_input, "rest_local": rl,
                                               "reader_input_local": il})
                                if base_is_input and rl is not None and rl == il:
                                    span_ok = True
    if static_ok:
        rr.ok(dict(sample, verdict="ok", clause="checksum uses the CRC-%d static" % width, **detail))
    else:
        rr.fail(Finding("MPT/CRC", P.id, "crc%d-wrong-generator" % width, 0, T.loc() if T else P.loc(),
                        "the reference checksum is not computed with a crc::Crc<u%d, _> static" % width),
                dict(sample, verdict="FAIL"))
    if span_ok:
        rr.ok(dict(sample, verdict="ok", clause="checksum input = own input start .. position given to the CRC reader",
                   **detail))
    else:
        rr.fail(Finding("MPT/CRC", P.id, "crc%d-span-not-whole" % width, 0, T.loc() if T else P.loc(),
                        "cannot show that the checksum covers the bytes from the parser's own input start up to the "
                        "position at which the stored CRC is read (%s)" % detail), dict(sample, verdict="FAIL"))


def run(facts, tier, ctx):
    out = []
    stream = facts.body("component::parser::stream")
    frame_root = parser_root(facts, "Frame")
    header_root = parser_root(facts, "FrameHeader")

    # ------------------------------------------------------------- CONSTARG
    ca = RuleResult("CONSTARG", "check_crc is the constant `true` at every call of the frame / frame-header parser "
                    "on the stream path")
    n = 0
    for b in facts.body_list:
        if not b.module.startswith("component::parser"):
            continue
        for bi, t in b.calls():
            d = (t.get("fn") or {}).get("def")
            if d == frame_root.id:
                arg = t["args"][1]
            elif d == header_root.id:
                arg = t["args"][0]
            else:
                continue
            n += 1
            where = b.loc(bi, "term")
            v = const_val(arg) if arg.get("k") == "const" else None
            sample = {"caller": b.id, "callee": d, "site": where, "check_crc": arg.get("s", "non-constant")}
            if v == 1:
                ca.ok(dict(sample, verdict="ok"))
            else:
                ca.fail(Finding("CONSTARG", b.id, "check_crc-not-true:%s" % d, 0, where,
                                "%s calls %s with check_crc = %s: a corrupted frame is accepted without CRC check"
                                % (b.id, d, arg.get("s", "a non-constant value"))), dict(sample, verdict="FAIL"))
    ca.require_floor(2, "calls of the frame / header parser inside the parser module")
    out.append(ca)

    # ------------------------------------------------------------------ CRC
    crc = RuleResult("MPT/CRC", "CRC-16 (frame) and CRC-8 (header) verification is on every Ok path, compares "
                     "computed == parsed, and spans the whole frame / header")
    check_crc_parser(facts, crc, frame_root, 16)
    check_crc_parser(facts, crc, header_root, 8)
    # generator polynomials (burst-detection argument)
    for name, width, poly in (("component::bitrepr::CRC_16_FLAC", 16, 0x8005), ("component::bitrepr::CRC_8_FLAC", 8, 0x07)):
        c = facts.consts.get(name)
        fields = (c or {}).get("fields", {})
        ok = fields.get("width") == width and fields.get("poly") == poly and fields.get("poly", 0) & 1 == 1
        if ok:
            crc.ok({"generator": name, "fields": fields, "verdict": "ok",
                    "clause": "degree-%d generator with non-zero constant term: detects every burst <= %d bits"
                              % (width, width)})
        else:
            crc.fail(Finding("MPT/CRC", name, "generator-changed", 0, "", "generator constants %s" % fields))
    crc.require_floor(14, "CRC obligations")
    out.append(crc)

    # -------------------------------------------------------------- ERRDISC
    ed = run_errdisc(facts, "ERRDISC/parser", "no Result<_, nom::Err<_>> in the parser module is unwrapped, swallowed "
                     "or dropped", lambda e, b: e.strip().startswith("nom::Err<"),
                     body_filter=lambda b: b.module.startswith("component::parser"), finding_prefix="ERRDISC/parser")
    ed.require_floor(60, "nom::Err producing call sites in the parser module")
    out.append(ed)

    # ------------------------------------------------------------ PANICSITE
    ps = RuleResult("PANICSITE", "every explicit panic construct reachable from parser::stream is discharged by a "
                    "one-site SAFE entry with a reason")
    safe = load_safe(PROPERTY)
    used = set()
    for (b, s, what, ordn) in enumerate_sites(facts, [stream]):
        f = Finding("PANICSITE", b.id, what, ordn, b.loc(s["bb"], "term"),
                    "explicit panic construct `%s` at %s is reachable from parser::stream on untrusted input and has "
                    "no SAFE entry" % (what, b.loc(s["bb"], "term")))
        sample = {"function": b.id, "construct": what, "site": b.loc(s["bb"], "term")}
        if f.key in safe:
            used.add(f.key)
            holds, why = entry_holds(facts, safe[f.key])
            if holds:
                ps.ok(dict(sample, verdict="SAFE", reason=safe[f.key]["reason"],
                           machine_checked_premises=len(safe[f.key].get("requires", []))))
            else:
                f.message += "\nits SAFE entry no longer applies: " + why
                ps.fail(f, dict(sample, verdict="FAIL", why=why))
        else:
            ps.fail(f, dict(sample, verdict="FAIL"))
    # machine-checked premise of the FrameHeader::block_size entry: the parser never builds a Reserved spec
    for b in facts.body_list:
        if not b.module.startswith("component::parser"):
            continue
        for bi, si, st in b.iter_stmts():
            if st["k"] == "assign" and st["rv"]["k"] == "agg" and st["rv"].get("variant") == "Reserved" \
                    and st["rv"].get("adt", "").endswith("BlockSizeSpec"):
                ps.fail(Finding("PANICSITE", b.id, "constructs-reserved-block-size", 0, b.loc(bi, si),
                                "the parser constructs BlockSizeSpec::Reserved, for which FrameHeader::block_size() "
                                "panics"))
    ps.notes.append("SAFE entries not matched on this tree: %s" % sorted(set(safe) - used))
    ps.require_floor(8, "explicit panic constructs reachable from parser::stream")
    out.append(ps)

    # --------------------------------------------------------------- FRAMING
    # an altered frame must make the *stream* parse fail: frames are read until end of input with many_till(frame(_, true),
    # eof); a combinator that turns a frame error into "no more frames" (many0, opt, complete ...) would accept the stream
    # with the damaged frame (and everything after it) silently dropped.  Shared with C15's reader layout.
    from . import c15
    for r in c15.layout_frame_stream(facts):
        r.rule = "FRAMING"
        for f in r.findings:
            f.rule = "FRAMING"
        out.append(r)
    # --------------------------------------------------------------- IMPLICIT
    # implicit panic sites (bounds checks, overflow, shifts, division) met while summarising parser::stream with every parser
    # closure and effect-free callee inlined: each is discharged from the facts on the paths to it (field widths read, guards
    # with error returns, loop ranges, payload bounds of the code enums over all their construction sites) or by a one-site
    # SAFE entry whose reason rests on a data-type invariant.
    import json as _json
    from . import lib_implicit as I
    from . import lib_effect as E
    im = RuleResult("IMPLICIT", "implicit panic sites reachable from parser::stream are discharged")
    try:
        recs, aggs = I.collect(facts, stream, noinline=[r"BitRepr>::"], reader=True, want_aggs=True)
        fsz = [x for x in facts.body_list if x.id.endswith("BlockSizeSpec::from_size")]
        for b in fsz:
            _r, g = I.collect(facts, b, want_aggs=True)
            aggs += g
    except E.Undecided as e:
        im.fail(Finding("IMPLICIT", stream.id, "undecided", 0, stream.loc(), "cannot summarise the stream parser: %s" % e))
        out.append(im)
        return out
    DTP = "component::datatype::"
    fb, _sites = I.field_bounds(facts, aggs, {"Pow2Mul576": DTP + "BlockSizeSpec", "Pow2Mul256": DTP + "BlockSizeSpec"})
    with open(os.path.join(os.path.dirname(os.path.dirname(os.path.abspath(__file__))), "oracle", "implicit_safe.json")) as fh:
        safe_i = _json.load(fh).get(PROPERTY, {})
    ords = I.number_sites(facts, recs)
    verdict = {}
    for r in recs:
        key = I.site_key(r, ords)
        why = I.Prover(facts, r["assume"], fb).prove(r["goal"])
        prev = verdict.get(key)
        if prev is None or (prev[0] and not why):
            verdict[key] = (why, r)
    used_safe = set()
    for key, (why, r) in sorted(verdict.items()):
        if why:
            im.ok({"site": r["site"], "function": r["body"], "kind": r["msg"], "because": why})
        elif key in safe_i:
            used_safe.add(key)
            im.ok({"site": r["site"], "function": r["body"], "kind": r["msg"], "because": "SAFE: " + safe_i[key]})
        else:
            im.fail(Finding("IMPLICIT", r["body"], "%s#%s" % (r["msg"], key.rsplit("|", 1)[1]), 0, r["site"],
                            "%s at %s is reachable from parser::stream on untrusted input and nothing on the paths to it "
                            "establishes that %s" % (r["msg"], r["site"], I.show_goal(r["goal"])[:200])))
    im.notes.append("payload bounds %s; SAFE entries used: %d of %d" % (fb, len(used_safe), len(safe_i)))
    im.require_floor(24, "implicit panic sites on the stream-parse path")   # 32 on the reviewed tree; the floor guards against a blind rule, not against helper extraction
    out.append(im)
    return out
