"""E3 — compile-fail witnesses with compiling twins (type-level obligations).

A witness is a pair  witness/<group>/<name>.fail.rs  /  <name>.twin.rs .  The .fail.rs file starts
with `// expect: E0xxx` (one or more codes, any of which must be among the emitted error codes) and
`// claim: ...`.  Both are compiled as an *external* user crate against the metadata of the current
tree; the fail file must be rejected with the pinned code, the twin (which may differ from it in at
most MAX_DIFF lines) must compile.  Nothing is executed.
"""
import difflib
import json
import os
import re
import subprocess

from .core import Finding

VERIF = os.path.dirname(os.path.dirname(os.path.abspath(__file__)))
WDIR = os.path.join(VERIF, "witness")
MAX_DIFF = 4


def compile_one(path, rmeta, deps, outdir):
    os.makedirs(outdir, exist_ok=True)
    out = os.path.join(outdir, os.path.basename(path) + ".rmeta")
    cmd = ["rustc", "+nightly", "--edition", "2021", "--crate-type", "lib", "--crate-name", "witness", "--emit=metadata", "-o", out,
           "--error-format=json", "-Awarnings", "-L", "dependency=" + deps, "--extern", "flacenc=" + rmeta, path]
    r = subprocess.run(cmd, stdout=subprocess.PIPE, stderr=subprocess.PIPE, text=True)
    codes = []
    msgs = []
    for line in r.stderr.splitlines():
        try:
            d = json.loads(line)
        except ValueError:
            continue
        if d.get("level") == "error":
            if d.get("code"):
                codes.append(d["code"]["code"])
            msgs.append(d.get("message", ""))
    return r.returncode, codes, msgs


def run_group(rr, group, tag, ctx):
    engine = ctx["engine"]
    gdir = os.path.join(WDIR, group)
    rmeta, deps = engine.rmeta_path(tag)
    outdir = os.path.join(engine.CACHE, "witness-out-%s-%d" % (tag, os.getpid()))
    names = sorted(f[:-8] for f in os.listdir(gdir) if f.endswith(".fail.rs"))
    for n in names:
        fail = os.path.join(gdir, n + ".fail.rs")
        twin = os.path.join(gdir, n + ".twin.rs")
        src = open(fail).read()
        m = re.search(r"^// expect: (.+)$", src, re.M)
        claim = re.search(r"^// claim: (.+)$", src, re.M)
        expect = m.group(1).split() if m else []
        sample = {"witness": "%s/%s" % (group, n), "expect": expect, "claim": claim.group(1) if claim else "",
                  "config": tag}
        if not os.path.exists(twin) or not expect:
            rr.fail(Finding("TYPESTATE/witness", "%s/%s" % (group, n), "malformed-witness", 0, fail,
                            "witness without twin or expected error code"))
            continue
        a = src.splitlines()
        b = open(twin).read().splitlines()
        ndiff = sum(1 for l in difflib.ndiff(a, b) if l.startswith("- ") or l.startswith("+ "))
        rc_t, codes_t, msgs_t = compile_one(twin, rmeta, deps, outdir)
        rc_f, codes_f, msgs_f = compile_one(fail, rmeta, deps, outdir)
        sample.update({"twin_compiles": rc_t == 0, "fail_codes": sorted(set(codes_f)), "diff_lines": ndiff})
        if rc_t != 0:
            rr.fail(Finding("TYPESTATE/witness", "%s/%s" % (group, n), "twin-does-not-compile", 0, twin,
                            "the compiling twin is rejected (%s %s): the witness would pass vacuously — API moved?"
                            % (codes_t, msgs_t[:2])), dict(sample, verdict="FAIL"))
        elif ndiff > MAX_DIFF * 2:
            rr.fail(Finding("TYPESTATE/witness", "%s/%s" % (group, n), "twin-too-different", 0, twin,
                            "twin differs from the witness in %d lines" % ndiff), dict(sample, verdict="FAIL"))
        elif rc_f == 0:
            rr.fail(Finding("TYPESTATE/witness", "%s/%s" % (group, n), "violating-program-compiles", 0, fail,
                            "the violating program now type-checks: %s" % sample["claim"]),
                    dict(sample, verdict="FAIL"))
        elif not (set(expect) & set(codes_f)):
            rr.fail(Finding("TYPESTATE/witness", "%s/%s" % (group, n), "wrong-error-code", 0, fail,
                            "rejected with %s instead of the pinned %s (%s)" % (sorted(set(codes_f)), expect,
                                                                                msgs_f[:2])),
                    dict(sample, verdict="FAIL"))
        else:
            rr.ok(dict(sample, verdict="ok"))
    try:
        for f in os.listdir(outdir):
            os.remove(os.path.join(outdir, f))
        os.rmdir(outdir)
    except OSError:
        pass
