"""C19 — configuration TOML round trip and documented defaults (narrow structural clauses).

Everything is read from the *derive-generated* serde impls (ordinary MIR bodies of the crate) and from
the `Default` impls; no TOML is produced or parsed."""
import re

from .core import Finding, RuleResult, FactError, op_place, op_local

PROPERTY = "C19"
CONFIGS_QUICK = ["F2"]
CONFIGS_THOROUGH = ["F1", "F2", "F3"]
TECHNIQUE = ("ATTR: dataflow over the serde-derive generated Serialize/Deserialize/Visitor bodies (absent-field arms, "
             "name tables, tag strings) + DEFAULTS: operands of the Default::default aggregates vs the constants the "
             "field docs cite (aliases resolved through the exported `use` items)")
EXPLANATION = (
    "Narrow claim, decided on the config type tree rooted at config::Encoder (role: ADTs of module config reachable by "
    "field types). (ATTR/absent-field) in every generated visit_map that builds a config struct or struct variant, each "
    "field of the final aggregate comes either from the value read for that key or - when the key is absent - from the "
    "same-named field of ONE `<T as Default>::default()` call (container default), or from a field-level default "
    "function whose constant is the one Default::default uses; serde's missing_field (absent key = error) appears only "
    "for the oracle's required fields. (ATTR/symmetry) the key->field mapping of Deserialize (visit_str name table -> "
    "__Field -> option slot -> aggregate position) equals the key->field mapping of Serialize (serialize_field name -> "
    "&self.field), covers every field, and every field is serialised unconditionally (or skipped only by the "
    "Option::is_none idiom when the default is None). (ATTR/tag) both enums write and read the same tag key and map "
    "each variant name to the same variant. (DEFAULTS) each field documented `(default: X)` is initialised by "
    "Default::default with exactly X (literal, or the cited constant after alias resolution), nested config fields "
    "with their own Default::default(), and the serde field default of ApproxEnt.partitions equals the constant "
    "OrderSel::default() stores. NOT decided: behaviour of the toml crate itself (float formatting, table order, "
    "None handling) and that a parsed value verifies like the in-memory value (that is C07 on the same type).")
NOT_DECIDED = "the toml crate's own behaviour; value-level equality after a round trip through text"
ASSUMPTIONS = ["serde_derive's generated code has the shape of the installed serde_derive (name table in "
               "__FieldVisitor::visit_str, option slots in visit_map); an unrecognised shape fails closed",
               "toml 0.5 maps a struct to a table and calls visit_map"]

ROOT = "config::Encoder"
# absent key = error is acceptable only here (no documented default on the field)
REQUIRED_FIELDS = {("config::Window", "Tukey", "alpha")}


def applicable(tag):
    return tag != "F0"


def conststr(op):
    if op and op.get("k") == "const" and op.get("ty") == "&str" and "s" in op:
        s = op["s"]
        if len(s) >= 2 and s[0] == '"' and s[-1] == '"':
            return s[1:-1]
    return None


def config_tree(facts):
    seen = []
    todo = [ROOT]
    while todo:
        p = todo.pop()
        if p in seen or p not in facts.adts:
            continue
        seen.append(p)
        for v in facts.adts[p]["variants"]:
            for f in v["fields"]:
                for q in re.findall(r"config::[A-Za-z0-9_]+", f["ty"]):
                    if q in facts.adts and q not in seen:
                        todo.append(q)
    return sorted(seen)


def impl_body(facts, ty, trait_suffix, name):
    for b in facts.body_list:
        r = b.raw
        if r.get("impl_self") == ty and (r.get("impl_trait") or "").endswith(trait_suffix) and r.get("name") == name:
            return b
    return None


def generated_bodies(facts, ty, what):
    """Bodies generated inside `impl Deserialize for ty` whose id matches `what` (regex on the tail)."""
    pref = "config::_::<impl config::_::_serde::Deserialize<'de> for %s>::deserialize" % ty
    out = []
    for b in facts.body_list:
        if pref in b.id and re.search(what, b.id):
            out.append(b)
    return out


# ------------------------------------------------------------------ value sources

def sources(body, op, depth=0, seen=None):
    """Where a value comes from, through copies / Try::branch.  Items:
       ('some', local)                     payload of an Option slot
       ('default_field', T, field, callbb) field of a `<T as Default>::default()` result
       ('call', def, bb)                   result of a call
       ('const', text, cdef)
       ('selffield', projlist)             place rooted at parameter 1 (self)
       ('unknown', text)"""
    if seen is None:
        seen = set()
    if op.get("k") == "const":
        return [("const", op.get("s", str(op.get("v"))), op.get("cdef"), op.get("sv", op.get("v")))]
    pl = op_place(op)
    if pl is None:
        return [("unknown", str(op))]
    return place_sources(body, pl, seen)


def place_sources(body, pl, seen):
    l, p = pl["l"], list(pl["p"])
    key = (l, tuple(p))
    if key in seen:
        return []
    seen.add(key)
    if 1 <= l <= body.argc and not body.whole_defs(l):
        return [("selffield" if l == 1 else "param", [x for x in p if x != "*"])]
    ds = body.whole_defs(l)
    if not ds:
        return [("unknown", "_%d%s" % (l, "".join(p)))]
    lty = body.local_ty(l)
    # payload of an Option slot
    if p[:2] == ["@Some", ".0"] and lty.startswith("std::option::Option<") and len(p) == 2:
        return [("some", l)]
    out = []
    for (bi, si) in ds:
        if si == "term":
            t = body.blocks[bi]["term"]
            fn = t.get("fn") or {}
            d = fn.get("def", "")
            if d == "std::ops::Try::branch" and p[:2] == ["@Continue", ".0"]:
                out += sources(body, t["args"][0], 0, seen) if len(p) == 2 else [("unknown", "proj")]
            elif fn.get("name") == "default" and (fn.get("trait") or "").endswith("default::Default"):
                if len(p) == 1 and p[0].startswith("."):
                    out.append(("default_field", fn.get("self_ty"), p[0][1:], bi))
                elif not p:
                    out.append(("call", fn.get("res") or fn.get("full") or d, bi))
                else:
                    out.append(("unknown", "default" + "".join(p)))
            else:
                out.append(("call", fn.get("res") or d, bi) if not p else ("unknown", "call" + "".join(p)))
            continue
        rv = body.blocks[bi]["stmts"][si]["rv"]
        k = rv["k"]
        if k == "use":
            o = rv["op"]
            if o.get("k") == "const":
                out += sources(body, o, 0, seen) if not [x for x in p if x != "*"] else [("unknown", "constproj")]
            else:
                out += place_sources(body, {"l": o["pl"]["l"], "p": o["pl"]["p"] + p}, seen)
        elif k in ("ref", "copyderef"):
            out += place_sources(body, {"l": rv["pl"]["l"], "p": rv["pl"]["p"] + p}, seen)
        elif k == "agg" and not p:
            out.append(("agg", rv.get("adt", rv.get("ak")), rv.get("variant"), bi, si))
        else:
            out.append(("unknown", k))
    return out


# ------------------------------------------------------------------ generated tables

def visit_str_table(body):
    """name -> __Field variant name, from the `<str as PartialEq>::eq(v, const "name")` chain."""
    tab = {}
    for bi, t in body.calls():
        fn = t.get("fn") or {}
        if fn.get("name") != "eq" or len(t["args"]) != 2:
            continue
        name = conststr(t["args"][1])
        if name is None:
            continue
        dst = t["dst"]["l"]
        # the switch on the comparison result
        tgt = None
        for b2 in sorted(body.live):
            tt = body.term(b2)
            if tt["k"] == "switch" and op_local(tt["d"]) == dst:
                for v, x in tt["vals"]:
                    if v == 0:
                        tgt = tt["else"]
                if tgt is None:
                    tgt = None
        if tgt is None:
            raise FactError("visit_str of %s: cannot follow the comparison with %r" % (body.id, name))
        var = None
        for s in body.blocks[tgt]["stmts"]:
            if s["k"] == "assign" and s["rv"]["k"] == "agg" and (s["rv"].get("adt") or "").endswith("__Field"):
                var = s["rv"]["variant"]
        if var is None:
            raise FactError("visit_str of %s: no __Field aggregate on the match arm of %r" % (body.id, name))
        tab[name] = var
    return tab


def field_switch_targets(body):
    """{discriminant value: target block} of the switch on the __Field key in a visit_map / deserialize body."""
    out = {}
    for b in sorted(body.live):
        t = body.term(b)
        if t["k"] != "switch":
            continue
        l = op_local(t["d"])
        if l is None:
            continue
        for (bi, si) in body.whole_defs(l):
            if si == "term":
                continue
            rv = body.blocks[bi]["stmts"][si]["rv"]
            if rv["k"] == "discr" and body.place_ty(rv["pl"]) and (body.local_ty(rv["pl"]["l"]) or "").endswith("__Field") \
                    and not rv["pl"]["p"]:
                for v, x in t["vals"]:
                    out[v] = x
                out["else"] = t["else"]
    return out


def variant_index(var):
    m = re.match(r"__field(\d+)$", var or "")
    return int(m.group(1)) if m else None


def analyse_visit_map(facts, body, rr, ty):
    """Returns (variant name, {field name: {'slot': option local, 'absent': source}}) for the config aggregate
    built by a generated visit_map."""
    aggs = []
    for bi, si, s in body.iter_stmts():
        if s["k"] == "assign" and s["rv"]["k"] == "agg" and s["rv"].get("adt") == ty:
            aggs.append((bi, si, s["rv"]))
    if len(aggs) != 1:
        raise FactError("%s: expected exactly one aggregate of %s, found %d" % (body.id, ty, len(aggs)))
    bi, si, rv = aggs[0]
    variant = rv["variant"]
    vdef = [v for v in facts.adts[ty]["variants"] if v["name"] == variant][0]
    targets = field_switch_targets(body)
    res = {}
    for pos, (fld, op) in enumerate(zip(vdef["fields"], rv["ops"])):
        srcs = sources(body, op)
        slot = [s for s in srcs if s[0] == "some"]
        absent = [s for s in srcs if s[0] != "some"]
        info = {"slot": None, "absent": absent, "key_index": None}
        if len(slot) == 1:
            info["slot"] = slot[0][1]
            # which key arm fills this slot: the switch target that dominates the Some-assignment
            fills = []
            for (dbi, dsi) in body.whole_defs(slot[0][1]):
                r2 = body.def_rvalue((dbi, dsi))
                is_some = False
                if r2 and r2.get("k") == "use":
                    for o in body.origins(r2["op"]):
                        if o[0] == "agg" and o[3].get("variant") == "Some":
                            is_some = True
                elif r2 and r2.get("k") == "agg" and r2.get("variant") == "Some":
                    is_some = True
                if is_some:
                    fills.append(dbi)
            idx = set()
            for fb in fills:
                for v, tb in targets.items():
                    if v != "else" and body.dominates(tb, fb):
                        idx.add(v)
            if len(idx) == 1:
                info["key_index"] = idx.pop()
        res[fld["name"]] = info
    return variant, res


# ------------------------------------------------------------------ documented defaults

def resolve_cited(facts, cited, module="config"):
    """Resolve a path cited in a doc comment of module `module` to a def path, through the module's `use` items."""
    segs = cited.split("::")
    uses = {u["name"]: u["targets"] for u in facts.raw.get("uses", []) if u["module"] == module}
    if segs[0] in uses:
        base = uses[segs[0]]
        return ["::".join([b] + segs[1:]) for b in base]
    if segs[0] in ("crate",):
        return ["::".join(segs[1:])]
    return ["%s::%s" % (module, cited), cited]


def doc_default(doc):
    """('lit', text) | ('path', text) | None from a `(default: ...)` doc fragment."""
    m = re.search(r"\(default:\s*(.*?)\)\s*$", doc.strip().split("\n\n")[0].replace("\n", " "))
    if not m:
        m = re.search(r"\(default:\s*([^)]*)\)", doc)
        if not m:
            return None
    body = m.group(1).strip()
    mm = re.match(r"\[`([A-Za-z0-9_:]+)`\]", body)
    if mm:
        return ("path", mm.group(1))
    mm = re.match(r"`([^`]+)`", body)
    if mm:
        return ("lit", mm.group(1))
    return ("text", body)


def const_matches_literal(src, lit):
    """src = ('const', text, cdef, value)"""
    val = src[3]
    if lit in ("true", "false"):
        return val in (1, True) if lit == "true" else val in (0, False)
    try:
        return int(lit) == int(val)
    except (TypeError, ValueError):
        return False


def _default_returns_const(facts, default_fn, src):
    """Does `<T as Default>::default` return exactly the named constant `src` (no other computation)?"""
    b = facts.bodies.get(default_fn)
    if b is None:
        return False
    if any(True for _bi, _t in b.calls()):
        return False
    names = set()
    for _bi, _si, st in b.iter_stmts():
        if st["k"] != "assign":
            continue
        rv = st["rv"]
        if rv["k"] == "use" and rv["op"].get("k") == "const":
            names.add(rv["op"].get("cdef"))
        elif rv["k"] == "use":
            continue
        else:
            return False
    return len(names) == 1 and (src[1] in names or src[2] in names)


def _prim_default(s):
    """Literal of `Default::default()` for a primitive type (or a field of a tuple of primitives), else None."""
    PR = {"bool": "false", "f32": "0.0", "f64": "0.0", "char": None}
    def one(t):
        t = t.strip()
        if t in PR:
            return PR[t]
        if re.match(r"^[iu](8|16|32|64|128|size)$", t):
            return "0"
        return None
    if s[0] == "call":
        m = re.match(r"^<([a-z0-9]+) as std::default::Default>::default$", str(s[1]))
        return one(m.group(1)) if m else None
    if s[0] == "default_field":
        ty = str(s[1] or "")
        m = re.match(r"^\((.*)\)$", ty)
        if m and re.match(r"^\d+$", str(s[2])):
            parts = [x for x in m.group(1).split(",") if x.strip()]
            i = int(s[2])
            return one(parts[i]) if i < len(parts) else None
    return None


def run(facts, tier, ctx):
    out = []
    if "uses" not in facts.raw:
        raise FactError("fact file has no `uses` table (old exporter?)")
    tree = config_tree(facts)
    if len(tree) < 8:
        raise FactError("config type tree has %d types (8 counted on the reviewed tree): %s" % (len(tree), tree))

    r_impl = RuleResult("ATTR/impls", "every config type has Serialize, Deserialize and Default impls")
    r_abs = RuleResult("ATTR/absent-field", "absent keys take the container default (or a field default equal to it); "
                       "missing_field only for the oracle's required fields")
    r_sym = RuleResult("ATTR/symmetry", "Deserialize and Serialize agree on key -> field, cover every field, and "
                       "serialise every field unconditionally")
    r_tag = RuleResult("ATTR/tag", "internally tagged enums: same tag key and variant-name -> variant on both sides")
    r_def = RuleResult("DEFAULTS", "Default::default stores the documented default in every documented field")

    defaults = {}  # (ty, variant, field) -> sources of the operand in Default::default

    # ---------------------------------------------------------------- Default impls
    for ty in tree:
        d = impl_body(facts, ty, "default::Default", "default")
        ser = impl_body(facts, ty, "_serde::Serialize", "serialize")
        de = impl_body(facts, ty, "_serde::Deserialize", "deserialize")
        for what, b in (("Default", d), ("Serialize", ser), ("Deserialize", de)):
            if b is None:
                r_impl.fail(Finding("ATTR/impls", ty, "missing-impl:" + what, 0, "%s:%s" % (
                    facts.adts[ty]["file"], facts.adts[ty]["line"]), "%s has no %s impl" % (ty, what)))
            else:
                r_impl.ok({"type": ty, "impl": what, "verdict": "ok"})
        if d is None:
            continue
        aggs = [(bi, si, s["rv"]) for bi, si, s in d.iter_stmts()
                if s["k"] == "assign" and s["rv"]["k"] == "agg" and s["rv"].get("adt") == ty and s["dst"]["l"] == 0]
        direct = len(aggs) == 1
        if direct:
            rv = aggs[0][2]
            vdef = [v for v in facts.adts[ty]["variants"] if v["name"] == rv["variant"]][0]
            for fld, op in zip(vdef["fields"], rv["ops"]):
                defaults[(ty, rv["variant"], fld["name"])] = sources(d, op)
            defaults[(ty, "<variant>", "")] = rv["variant"]
        # value-level view from the effect interpreter: helpers (`Self::uniform(true)`, `const DEFAULT: Self`), locals and
        # named constants are folded; nested config defaults stay calls.  It replaces the direct view where the default is
        # not one literal aggregate, and refines operands the direct view could not resolve to a constant.
        from . import lib_effect as E
        try:
            ectx = E.Ctx(facts)
            ectx.noinline = [r"<config::\w+ as std::default::Default>::default$"]
            itp = E.Interp(ectx, d)
            itp.run()
            rvv = E.strip_casts(itp.retval)
            hops = 0
            while isinstance(rvv, tuple) and rvv and rvv[0] == "c" and rvv[2] in facts.bodies and hops < 3:
                # `const DEFAULT: Self = Self { .. }`: read the constant's own body
                hops += 1
                itc = E.Interp(ectx, facts.bodies[rvv[2]])
                itc.run()
                rvv = E.strip_casts(itc.retval)
        except Exception:
            rvv = None
        if isinstance(rvv, tuple) and rvv and rvv[0] == "agg" and rvv[1] == ty:
            vdef = [v for v in facts.adts[ty]["variants"] if v["name"] == rvv[2]]
            if vdef and len(vdef[0]["fields"]) == len(rvv[3]):
                for fld, val in zip(vdef[0]["fields"], rvv[3]):
                    key = (ty, rvv[2], fld["name"])
                    v0 = E.strip_casts(val)
                    item = None
                    if isinstance(v0, tuple) and v0[0] == "c":
                        item = ("const", str(v0[1]), v0[2], v0[1])
                    elif isinstance(v0, tuple) and v0[0] == "call" and re.search(r"as std::default::Default>::default$", v0[1]):
                        item = ("call", v0[1], 0)
                    elif isinstance(v0, tuple) and v0[0] == "agg" and v0[2] == "None":
                        item = ("agg", v0[1], "None")
                    cur = defaults.get(key)
                    unresolved = cur is None or len(cur) != 1 or cur[0][0] not in ("const", "agg") and not (
                        cur[0][0] == "call" and "Default>::default" in str(cur[0][1]))
                    if item is not None and unresolved:
                        defaults[key] = [item]
                defaults.setdefault((ty, "<variant>", ""), rvv[2])
        if (ty, "<variant>", "") not in defaults:
            raise FactError("%s: expected one result aggregate, found %d" % (d.id, len(aggs)))

    # ---------------------------------------------------------------- DEFAULTS
    par = facts.tag in ("F1", "F2", "F3")
    for ty in tree:
        adt = facts.adts[ty]
        dflt_variant = defaults.get((ty, "<variant>", ""))
        for v in adt["variants"]:
            for fld in v["fields"]:
                key = (ty, v["name"], fld["name"])
                where = "%s (%s.%s)" % (adt["file"], ty, fld["name"])
                inner = re.findall(r"config::[A-Za-z0-9_]+", fld["ty"])
                dd = doc_default(fld["doc"])
                if v["name"] != dflt_variant:
                    continue
                srcs = defaults.get(key)
                if srcs is None:
                    continue
                if inner and inner[0] in tree and fld["ty"] == inner[0]:
                    want = "<%s as std::default::Default>::default" % inner[0]
                    if len(srcs) == 1 and srcs[0][0] == "call" and srcs[0][1] == want:
                        r_def.ok({"field": "%s.%s" % (ty, fld["name"]), "default": want, "verdict": "ok"})
                    elif len(srcs) == 1 and srcs[0][0] == "const" and _default_returns_const(facts, want, srcs[0]):
                        # a named constant that the nested type's own Default::default returns as it is
                        r_def.ok({"field": "%s.%s" % (ty, fld["name"]), "default": "%s (= %s())" % (srcs[0][1], want),
                                  "verdict": "ok"})
                    else:
                        r_def.fail(Finding("DEFAULTS", ty, "nested-default:" + fld["name"], 0, where,
                                           "Default::default of %s initialises `%s` from %s, not from %s(): an omitted "
                                           "[%s] section would not yield the section's documented defaults"
                                           % (ty, fld["name"], srcs, want, fld["name"])))
                    continue
                if dd is None:
                    continue
                if len(srcs) != 1:
                    r_def.fail(Finding("DEFAULTS", ty, "default-not-single-valued:" + fld["name"], 0, where,
                                       "the value stored into %s.%s by Default::default is not a single constant: %s"
                                       % (ty, fld["name"], srcs)))
                    continue
                s = srcs[0]
                ok = False
                why = ""
                if dd[0] == "lit":
                    lit = dd[1]
                    if lit == "None":
                        ok = s[0] == "agg" and s[2] == "None"
                    elif s[0] in ("default_field", "call") and _prim_default(s) is not None:
                        # `<bool as Default>::default()` / a field of `<(bool, usize)>::default()`: the language's zero value
                        pd = _prim_default(s)
                        ok = pd == lit or (pd in ("0", "0.0") and re.match(r"^0(\.0*)?$", lit) is not None)
                    elif s[0] == "const":
                        if fld["name"] == "multithread" and "feature" in fld["doc"]:
                            ok = const_matches_literal(s, "true" if par else "false")
                        else:
                            ok = const_matches_literal(s, lit)
                    why = "documented literal `%s`" % lit
                elif dd[0] == "path":
                    cands = resolve_cited(facts, dd[1])
                    cvals = [facts.const_value(c) for c in cands if facts.const_value(c) is not None]
                    ok = s[0] == "const" and (s[2] in cands or (len(s) > 3 and s[3] is not None and s[3] in cvals))
                    why = "documented constant %s (= %s)" % (dd[1], " | ".join(cands))
                else:
                    why = "unparsed doc default %r" % (dd[1],)
                if ok:
                    r_def.ok({"field": "%s.%s" % (ty, fld["name"]), "documented": dd[1], "stored": s[1:3],
                              "verdict": "ok"})
                else:
                    r_def.fail(Finding("DEFAULTS", ty, "default-differs:" + fld["name"], 0, where,
                                       "Default::default of %s stores %s into `%s` but the field's documentation says "
                                       "%s" % (ty, s, fld["name"], why)))
        # type-level documented default of an enum: `is "Variant" with field = [`CONST`]`
        m = re.search(r'is\s+"(\w+)"\s+with\s+(\w+)\s*=\s*\[`([A-Za-z0-9_:]+)`\]', adt["doc"].replace("\n", " "))
        if m:
            vname, fname, cited = m.groups()
            srcs = defaults.get((ty, vname, fname))
            cands = resolve_cited(facts, cited)
            cvals_e = [facts.const_value(c) for c in cands if facts.const_value(c) is not None]
            if dflt_variant == vname and srcs and len(srcs) == 1 and srcs[0][0] == "const" and (
                    srcs[0][2] in cands or (len(srcs[0]) > 3 and srcs[0][3] is not None and srcs[0][3] in cvals_e)):
                r_def.ok({"type": ty, "documented": "%s{%s=%s}" % (vname, fname, cited), "verdict": "ok"})
            else:
                r_def.fail(Finding("DEFAULTS", ty, "enum-default-differs", 0, adt["file"],
                                   "%s::default() builds %s %s but the type's documentation says \"%s\" with %s = %s"
                                   % (ty, dflt_variant, srcs, vname, fname, cited)))
    r_def.require_floor(12 + 5 + 1, "documented field defaults (12), nested config fields (5), enum default (1)")

    # ---------------------------------------------------------------- per type serde analysis
    for ty in tree:
        adt = facts.adts[ty]
        ser = impl_body(facts, ty, "_serde::Serialize", "serialize")
        de = impl_body(facts, ty, "_serde::Deserialize", "deserialize")
        if ser is None or de is None:
            continue
        is_enum = adt["kind"] == "Enum"
        where = "%s:%s" % (adt["file"], adt["line"])

        # ---- Serialize side: (variant, key) -> field / tag
        ser_fields = {}   # variant -> {key: field}
        ser_tag = {}      # variant -> (tagkey, tagvalue)
        ser_sites = {}    # variant -> [(bb, key)]
        ends = [bi for bi, t in ser.calls() if (t.get("fn") or {}).get("name") == "end"]
        for bi, t in ser.calls():
            fn = t.get("fn") or {}
            if fn.get("name") != "serialize_field":
                continue
            key = conststr(t["args"][1])
            val = t["args"][2]
            srcs = sources(ser, val)
            if key is None or len(srcs) != 1:
                raise FactError("%s: unrecognised serialize_field at %s" % (ser.id, ser.loc(bi, "term")))
            s = srcs[0]
            if s[0] == "selffield":
                proj = s[1]
                variant = adt["variants"][0]["name"]
                if proj and proj[0].startswith("@"):
                    variant = proj[0][1:]
                    proj = proj[1:]
                if len(proj) != 1 or not proj[0].startswith("."):
                    raise FactError("%s: serialize_field value is not a field of self: %s" % (ser.id, s))
                ser_fields.setdefault(variant, {})[key] = proj[0][1:]
                ser_sites.setdefault(variant, []).append((bi, key))
            elif s[0] == "const":
                # tag: value is the variant name; the variant is the arm we are in
                tagv = s[1].strip('"')
                arm = None
                for b0 in sorted(ser.live):
                    tt = ser.term(b0)
                    if tt["k"] == "switch":
                        l = op_local(tt["d"])
                        dd = [ser.def_rvalue(p) for p in ser.whole_defs(l)] if l is not None else []
                        if any(r and r.get("k") == "discr" and r["pl"]["l"] == 1 for r in dd):
                            for v, tb in tt["vals"]:
                                if ser.dominates(tb, bi):
                                    arm = v
                if arm is None:
                    raise FactError("%s: cannot locate the variant arm of tag write at %s" % (ser.id, ser.loc(bi, "term")))
                vname = [v["name"] for v in adt["variants"] if v.get("discr") == arm]
                if len(vname) != 1:
                    raise FactError("%s: no variant with discriminant %s" % (ser.id, arm))
                ser_tag[vname[0]] = (key, tagv)
            else:
                raise FactError("%s: serialize_field value of unknown origin %s" % (ser.id, s))
        # unconditional serialisation: every serialize_field site dominates every `end` it can reach
        for variant, sites in ser_sites.items():
            for (bi, key) in sites:
                reach = ser.reachable_after(bi)
                for e in ends:
                    if e in reach and not ser.dominates(bi, e):
                        fldname = ser_fields[variant][key]
                        dsrc = defaults.get((ty, variant, fldname)) or []
                        skips = [1 for b2, t2 in ser.calls() if (t2.get("fn") or {}).get("name") == "is_none"]
                        if skips and len(dsrc) == 1 and dsrc[0][0] == "agg" and dsrc[0][2] == "None":
                            r_sym.ok({"type": ty, "key": key, "verdict": "ok (skipped only when None = default)"})
                        else:
                            r_sym.fail(Finding("ATTR/symmetry", ty, "conditionally-serialised:" + key, 0,
                                               ser.loc(bi, "term"),
                                               "field `%s` of %s is not serialised on every path (skip_serializing_if?): "
                                               "a value for which it is skipped does not round-trip unless it equals "
                                               "the default, which this rule cannot establish" % (key, ty)))

        # ---- Deserialize side
        tables = []
        for fv in generated_bodies(facts, ty, r"__FieldVisitor as .*::visit_str(#\d+)?$"):
            tables.append((fv, visit_str_table(fv)))
        vmaps = generated_bodies(facts, ty, r"__Visitor<'de> as .*::visit_map(#\d+)?$")
        de_fields = {}
        for vm in vmaps:
            variant, info = analyse_visit_map(facts, vm, r_abs, ty)
            # name table for this visitor: the one whose names cover the fields' slots
            names = None
            for fv, tab in tables:
                idxs = {variant_index(v) for v in tab.values()}
                want = {i["key_index"] for i in info.values() if i["key_index"] is not None}
                if want and want <= idxs and set(tab.keys()) != {t[1] for t in ser_tag.values()}:
                    names = tab
            if names is None and info:
                raise FactError("%s: no field-name table found for %s::%s" % (vm.id, ty, variant))
            inv = {}
            for k, v in (names or {}).items():
                inv.setdefault(variant_index(v), []).append(k)
            de_fields[variant] = {}
            for fname, i in info.items():
                wherev = "%s (%s::%s.%s)" % (vm.loc(), ty, variant, fname)
                if i["slot"] is None or i["key_index"] is None:
                    r_abs.fail(Finding("ATTR/absent-field", ty, "field-not-read:%s.%s" % (variant, fname), 0, wherev,
                                       "field `%s` of %s::%s is not filled from a value read for a key (skipped on "
                                       "deserialisation?): sources %s" % (fname, ty, variant, i["absent"])))
                    continue
                for k in inv.get(i["key_index"], []):
                    de_fields[variant][k] = fname
                # the absent arm
                ab = i["absent"]
                kinds = {a[0] for a in ab}
                if len(ab) == 1 and ab[0][0] == "default_field":
                    a = ab[0]
                    if a[1] == ty and a[2] == fname:
                        r_abs.ok({"field": "%s.%s" % (ty, fname), "absent": "<%s as Default>::default().%s" % (ty, fname),
                                  "verdict": "ok"})
                    else:
                        r_abs.fail(Finding("ATTR/absent-field", ty, "default-from-other-field:%s.%s" % (variant, fname),
                                           0, wherev, "absent `%s` takes %s::default().%s" % (fname, a[1], a[2])))
                elif len(ab) == 1 and ab[0][0] == "call" and "missing_field" in (ab[0][1] or ""):
                    if (ty, variant, fname) in REQUIRED_FIELDS:
                        r_abs.ok({"field": "%s::%s.%s" % (ty, variant, fname), "absent": "error (required field, no "
                                  "documented default)", "verdict": "ok"})
                    else:
                        r_abs.fail(Finding("ATTR/absent-field", ty, "missing-field-error:%s.%s" % (variant, fname), 0,
                                           wherev, "a document that omits `%s` of %s is rejected (serde missing_field) "
                                           "instead of taking the documented default: the type lost its container-level "
                                           "#[serde(default)]" % (fname, ty)))
                elif len(ab) == 1 and ab[0][0] == "call":
                    fnid = ab[0][1]
                    fb = facts.bodies.get(fnid)
                    dsrc = defaults.get((ty, variant, fname))
                    fsrc = None
                    if fb is not None:
                        rets = [s["rv"]["op"] for _b, _s, s in fb.iter_stmts()
                                if s["k"] == "assign" and s["dst"]["l"] == 0 and s["rv"]["k"] == "use"]
                        if len(rets) == 1:
                            fsrc = sources(fb, rets[0])
                    # a default-providing fn that Default::default itself calls is trivially the same value
                    if dsrc and len(dsrc) == 1 and dsrc[0][0] == "call" and dsrc[0][1] == fnid:
                        fsrc = dsrc = [("const", fnid, fnid, fnid)]
                    if fb is not None and not (fsrc and len(fsrc) == 1 and fsrc[0][0] == "const"):
                        try:
                            from . import lib_effect as E
                            it2 = E.Interp(E.Ctx(facts), fb)
                            it2.run()
                            v2 = E.strip_casts(it2.retval)
                            if isinstance(v2, tuple) and v2[0] == "c":
                                fsrc = [("const", str(v2[1]), v2[2], v2[1])]
                        except Exception:
                            pass
                    if fsrc and dsrc and len(fsrc) == 1 and len(dsrc) == 1 and fsrc[0][0] == "const" \
                            and dsrc[0][0] == "const" and fsrc[0][3] == dsrc[0][3] and fsrc[0][3] is not None:
                        r_abs.ok({"field": "%s::%s.%s" % (ty, variant, fname), "absent": fnid,
                                  "equals": dsrc[0][2], "verdict": "ok"})
                    else:
                        r_abs.fail(Finding("ATTR/absent-field", ty, "field-default-differs:%s.%s" % (variant, fname), 0,
                                           wherev, "absent `%s` takes %s() = %s but %s::default() stores %s"
                                           % (fname, fnid, fsrc, ty, dsrc)))
                else:
                    r_abs.fail(Finding("ATTR/absent-field", ty, "absent-arm-unrecognised:%s.%s" % (variant, fname), 0,
                                       wherev, "value of `%s` when the key is absent: %s (kinds %s)"
                                       % (fname, ab, sorted(kinds))))
            # no missing_field call at all beyond the required ones
            for bi, t in vm.calls():
                d = (t.get("fn") or {}).get("def", "")
                if d.endswith("::missing_field"):
                    name = conststr(t["args"][0])
                    if not any(name == f for (tt, vv, f) in REQUIRED_FIELDS if tt == ty):
                        r_abs.fail(Finding("ATTR/absent-field", ty, "missing-field-call:%s" % name, 0,
                                           vm.loc(bi, "term"), "serde missing_field(%r) in %s" % (name, vm.id)))

        # ---- symmetry
        for v in adt["variants"]:
            if not v["fields"]:
                continue
            s_map = ser_fields.get(v["name"], {})
            d_map = de_fields.get(v["name"], {})
            allf = {f["name"] for f in v["fields"]}
            for f in sorted(allf):
                sk = sorted(k for k, x in s_map.items() if x == f)
                dk = sorted(k for k, x in d_map.items() if x == f)
                if sk and sk == dk:
                    r_sym.ok({"field": "%s::%s.%s" % (ty, v["name"], f), "key": sk[0], "verdict": "ok"})
                else:
                    r_sym.fail(Finding("ATTR/symmetry", ty, "key-mismatch:%s.%s" % (v["name"], f), 0, where,
                                       "field `%s` of %s::%s is serialised under key(s) %s but deserialised from key(s) "
                                       "%s" % (f, ty, v["name"], sk, dk)))
            extra = (set(s_map) | set(d_map)) - {k for k, x in s_map.items() if x in allf and d_map.get(k) == x}
            for k in sorted(extra):
                if s_map.get(k) != d_map.get(k):
                    r_sym.fail(Finding("ATTR/symmetry", ty, "key-field-mismatch:%s.%s" % (v["name"], k), 0, where,
                                       "key `%s` of %s::%s: Serialize writes field %s, Deserialize fills field %s"
                                       % (k, ty, v["name"], s_map.get(k), d_map.get(k))))

        # ---- tags
        if is_enum:
            tagkeys = {t[0] for t in ser_tag.values()}
            de_tag = None
            for bi, t in de.calls():
                d = (t.get("fn") or {}).get("def", "")
                if d.endswith("TaggedContentVisitor::new") or "TaggedContentVisitor" in d and d.endswith("::new"):
                    de_tag = conststr(t["args"][0])
            if de_tag is None:
                raise FactError("%s: no TaggedContentVisitor::new(tag, ..) found" % de.id)
            if tagkeys == {de_tag}:
                r_tag.ok({"type": ty, "tag": de_tag, "verdict": "ok"})
            else:
                r_tag.fail(Finding("ATTR/tag", ty, "tag-key-mismatch", 0, where,
                                   "Serialize writes tag key(s) %s, Deserialize reads %r" % (sorted(tagkeys), de_tag)))
            # variant name -> variant on the Deserialize side
            tagtab = None
            for fv, tab in tables:
                if set(tab.keys()) == {t[1] for t in ser_tag.values()}:
                    tagtab = tab
            if tagtab is None:
                r_tag.fail(Finding("ATTR/tag", ty, "variant-names-differ", 0, where,
                                   "no Deserialize name table equals the variant names Serialize writes %s; tables: %s"
                                   % (sorted(t[1] for t in ser_tag.values()), [sorted(t) for _f, t in tables])))
            else:
                targets = field_switch_targets(de)
                for v in adt["variants"]:
                    tv = ser_tag.get(v["name"])
                    if tv is None:
                        r_tag.fail(Finding("ATTR/tag", ty, "variant-without-tag:" + v["name"], 0, where,
                                           "Serialize writes no tag for variant %s" % v["name"]))
                        continue
                    idx = variant_index(tagtab[tv[1]])
                    tb = targets.get(idx)
                    built = set()
                    if tb is not None:
                        for bi, si, s in de.iter_stmts():
                            if s["k"] == "assign" and s["rv"]["k"] == "agg" and s["rv"].get("adt") == ty \
                                    and de.dominates(tb, bi):
                                built.add(s["rv"]["variant"])
                        for bi, t in de.calls():
                            if de.dominates(tb, bi) and (t.get("fn") or {}).get("name") == "deserialize_any":
                                for vm in vmaps:
                                    vis = vm.id.split(" as ")[0].lstrip("<")
                                    if any(vis.split("<'")[0] in g for g in (t["fn"].get("gargs") or [])):
                                        for _b, _s, s in vm.iter_stmts():
                                            if s["k"] == "assign" and s["rv"]["k"] == "agg" and s["rv"].get("adt") == ty:
                                                built.add(s["rv"]["variant"])
                    if built == {v["name"]}:
                        r_tag.ok({"type": ty, "variant": v["name"], "tag_value": tv[1], "verdict": "ok"})
                    else:
                        r_tag.fail(Finding("ATTR/tag", ty, "variant-mapping:" + v["name"], 0, where,
                                           "tag value %r written for %s::%s is deserialised into %s"
                                           % (tv[1], ty, v["name"], sorted(built))))

    r_impl.require_floor(24, "Serialize/Deserialize/Default impls of the 8 config types")
    r_abs.require_floor(21, "fields of config structs / struct variants (24 on the reviewed tree)")
    r_sym.require_floor(21, "fields with a key on both sides")
    r_tag.require_floor(6, "2 tag keys + 4 variants")
    out += [r_impl, r_def, r_abs, r_sym, r_tag]
    # ------------------------------------------------------------ ORDER (TOML values before tables)
    # the derived Serialize emits fields in declaration order and a TOML table cannot be followed by a plain value of its
    # parent (toml's serializer refuses with ValueAfterTable): every value-typed field precedes every table-typed field.
    r_ord = RuleResult("ATTR/value-before-table", "in every config struct all plain-value fields are declared (hence "
                       "serialised) before all table-valued fields")

    def is_table(fty):
        t = re.sub(r"^std::option::Option<(.*)>$", r"\1", fty)
        adt = facts.adts.get(re.sub(r"<.*$", "", t))
        if adt is None:
            return False
        if adt["kind"] == "Struct":
            return True
        return any(v["fields"] for v in adt["variants"])
    for ty in tree:
        adt = facts.adts[ty]
        for v in adt["variants"]:
            seen_table = None
            bad = None
            for f in v["fields"]:
                if is_table(f["ty"]):
                    seen_table = seen_table or f["name"]
                elif seen_table is not None and bad is None:
                    bad = (f["name"], seen_table)
            if len(v["fields"]) < 2:
                continue
            if bad:
                r_ord.fail(Finding("ATTR/value-before-table", ty, "value-after-table:%s.%s" % (ty.split("::")[-1], bad[0]), 0,
                                   "%s:%s" % (adt["file"], adt["line"]),
                                   "field `%s` of %s (a plain value) is declared after the table-valued field `%s`: "
                                   "serialising a configuration in which it is set fails (values must be emitted before "
                                   "tables), so it cannot round-trip" % (bad[0], ty, bad[1])))
            else:
                r_ord.ok({"type": ty, "variant": v["name"], "fields": [f["name"] for f in v["fields"]], "verdict": "ok"})
    # ------------------------------------------------------------ no custom field codecs
    # a `deserialize_with` / `serialize_with` / `with` helper on a config field replaces the derived field handling by
    # arbitrary code on one side only; the config tree uses none, so any appearing is reported.
    r_cod = RuleResult("ATTR/no-custom-codec", "no config field is (de)serialised through a custom with-helper")
    names = [a for a in facts.adts if re.search(r"__(De)?[Ss]erializeWith$", a)]
    for ty in tree:
        short = ty
        hits = [a for a in names if ("for %s>" % ty) in a]
        if hits:
            r_cod.fail(Finding("ATTR/no-custom-codec", ty, "custom-codec:%s" % ty.split("::")[-1], 0,
                               "%s:%s" % (facts.adts[ty]["file"], facts.adts[ty]["line"]),
                               "%s has field(s) routed through a custom serde helper (%d generated wrapper type(s)): what is "
                               "parsed for such a field is whatever the helper returns, not the value in the document, so "
                               "round trip and verify parity are no longer decided by the derive"
                               % (ty, len(hits))))
        else:
            r_cod.ok({"type": ty, "verdict": "ok"})
    r_cod.require_floor(8, "config types")
    out.append(r_cod)
    r_ord.require_floor(5, "config structs with two or more fields")
    out.append(r_ord)
    return out
