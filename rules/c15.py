"""C15 — the parser inverts the writer (structural clauses: LAYOUT reader<->writer, TABLE reader<->writer, AGREE)."""
import re

from .core import Finding, RuleResult, FactError
from . import lib_effect as E
from .c02 import writer, _seq, ret_of, body_by_suffix, R, DT, flat_events

PROPERTY = "C15"
PARSER = "component::parser::"
CONFIGS_QUICK = ["F2"]
CONFIGS_THOROUGH = ["F2", "F3"]

TECHNIQUE = ("LAYOUT: ordered field-width token sequence each nom parser consumes (EFFECT engine in reader mode: "
             "applications of parser values become events, local parser closures are inlined, loops summarised) compared "
             "with the (width, value) sequence of the corresponding BitRepr::write + TABLE: the reader's code->variant "
             "tables evaluated row-wise and composed with the writer's variant->code tables + AGREE dataflow identities "
             "(which read feeds which constructor argument) + a type rule on the decoder's accumulator")
EXPLANATION = (
    "Decides that reader and writer agree on every field boundary, order and code: STREAMINFO (16/16/24/24/20/3/5/36/128 "
    "and which read reaches which setter, with the +1 on channels and sample width), metadata header (flag = byte >> 7, "
    "type = byte & 0x7F, 24-bit length), frame header (15-bit sync pattern = writer's sync word >> 1, blocking bit, 4+4 "
    "codes routed to the block-size / sample-rate decoders, channel and 3-bit size code + zero reserved bit, coded "
    "number, extra fields in block-size-then-rate order, CRC-8), the 16 block-size codes, 16 sample-rate codes, 8 "
    "sample-size codes and 16 channel codes (reader(code) = v implies writer.code(v) = code, and the extra bytes the "
    "reader consumes equal count_extra_bits(v)), subframe header 7+1 bits and type codes with their order formulas "
    "against the writer's type byte >> 1, raw samples as width-bit two's complement, LPC parameters 4(+1)/5 signed/"
    "order x precision, residual 2+4 bits, 4-bit parameter per partition for method 0, the per-sample unary+remainder "
    "shape with the warm-up skip `t < warm-up` in every partition (equal to the writer's max(warm-up, p*L) start), the "
    "frame as header + channels x subframe(width + side offset) inside one bit block + CRC-16, the stream as marker, "
    "metadata until the last flag, frames until end of input; the reader hands the decoded order to both the warm-up "
    "reader and the residual reader; the decoder multiplies and accumulates predictions in 64 bits only.")
NOT_DECIDED = ("value-level inversion (UTF-8-like number decoding arithmetic, u_to_i sign extension, Rice folding), the "
               "Decode arithmetic beyond its accumulator width, behaviour of the nom combinators themselves, Verify "
               "outcomes of parsed trees")
ASSUMPTIONS = ["each parser value is applied to the input remaining after the previous one (the threading of "
               "`remaining_input` is not checked)", "nom's bits() adapter discards the partial byte at its end"]


def applicable(tag):
    return tag in ("F2", "F3")


CTOR_NOINLINE = [r"^component::parser::(frame_header|frame|subframe|constant|verbatim|fixed_lpc|lpc|quantized_parameters"
                 r"|residual|raw_samples|block_size_code|sample_rate_code)$",
                 r"ChannelAssignment::(bits_per_sample_offset|channels)$", r"FrameHeader::(block_size|bits_per_sample)$"]


def reader_events(facts, body, noinline=CTOR_NOINLINE, log=None, args=None):
    ctx = E.Ctx(facts)
    ctx.reader = True
    ctx.noinline = list(noinline)
    ctx.log_calls = log
    it = E.Interp(ctx, body, args)
    ev = it.run()
    return ev, it.retval, ctx


def rtoks(ev):
    out = []
    for e in ev:
        k = e[0]
        if k == "apply":
            p = E.strip_casts(e[1])
            site = e[2]
            aid = e[3] if len(e) > 3 else None
            if p[0] == "fn":
                m = re.match(r"^nom::number::(?:streaming|complete)::be_u(\d+)", p[1])
                if m:
                    out.append(("bytes", E.C(int(m.group(1)) // 8), aid, site))
                    continue
                out.append(("sub", re.sub(r"::<.*$", "", p[1]).rsplit("::", 1)[1], (), aid, site))
                continue
            if p[0] == "call":
                nm = p[1].split("::<")[0]
                if nm in ("nom::streaming::take", "nom::bits::streaming::take", "nom::complete::take", "nom::bits::complete::take"):
                    out.append(("bits", p[2][0], aid, site))
                elif nm in ("nom::streaming::tag", "nom::bits::streaming::tag"):
                    out.append(("bittag", p[2][1], p[2][0], aid, site))
                elif nm in ("nom::bytes::streaming::take", "nom::bytes::complete::take"):
                    out.append(("bytes", p[2][0], aid, site))
                elif nm in ("nom::bytes::streaming::tag", "nom::bytes::complete::tag"):
                    out.append(("bytetag", p[2][0], aid, site))
                elif nm.startswith(PARSER):
                    out.append(("sub", nm[len(PARSER):], p[2], aid, site))
                elif nm == "nom::combinator::eof":
                    out.append(("eof", aid, site))
                else:
                    out.append(("unknown", nm, aid, site))
                continue
            out.append(("unknown", E.show(p)[:80], aid, site))
        elif k == "bitsblock":
            out.append(("bitsblock", rtoks(e[1])))
        elif k == "rloop":
            out.append(("rloop", e[1], e[2], rtoks(e[3])))
        elif k == "rmany":
            out.append(("rmany", e[1], rtoks(e[2]), e[3]))
        elif k == "ralt":
            out.append(("ralt", [rtoks(a) for a in e[1]]))
        elif k == "loop":
            inner = rtoks(e[2])
            if inner:
                out.append(("loop", e[1], inner))
        elif k == "case":
            arms = [(l, rtoks(x)) for l, x in e[2]]
            if any(a for _l, a in arms):
                out.append(("case", e[1], arms))
        elif k == "wrap":
            out.append(("wrap", e[1]))
    return out


def widths(toks):
    """Flat list of constant bit widths of a token list (bits blocks flattened); None entries for non-constant."""
    out = []
    for t in toks:
        if t[0] == "bits":
            out.append(E.evalc(t[1]))
        elif t[0] == "bittag":
            out.append(E.evalc(t[1]))
        elif t[0] == "bytes":
            n = E.evalc(t[1])
            out.append(8 * n if n is not None else None)
        elif t[0] == "bitsblock":
            out += widths(t[1])
        else:
            out.append(t[0])
    return out


def boundaries(ws):
    acc = 0
    out = set()
    for w in ws:
        if not isinstance(w, int):
            return None
        acc += w
        out.add(acc)
    return out


def parser_unit(facts, name):
    """(body, args): the `move |input| ...` closure a parser constructor returns, bound to the constructor's own
    parameters (so that `arg1`, `arg2` in the results are the constructor's arguments), or the fn itself."""
    b = facts.bodies.get(PARSER + name)
    if b is None:
        raise FactError("parser %s not found" % name)
    if (b.raw.get("output") or "").startswith("std::result::Result<("):
        return b, None
    ctx = E.Ctx(facts)
    it = E.Interp(ctx, b)
    it.run()
    rv = E.strip_casts(it.retval)
    if isinstance(rv, tuple) and rv[0] == "closure" and rv[1] in facts.bodies:
        return facts.bodies[rv[1]], [rv]
    raise FactError("cannot find the parser closure of %s (returns %s)" % (name, E.show(rv)[:80]))


# ------------------------------------------------------------------------------------------------ layouts

def layout_streaminfo(facts):
    t = R("LAYOUT/streaminfo", "parser::stream_info consumes the fields Stream­Info::write emits and routes each to its setter")
    w = writer(facts, DT + "StreamInfo")
    wev, _rv, _ = E.analyse(facts, w)
    wseq = _seq(wev)
    ww = []
    for s in wseq:
        if s[0] == "w":
            ww.append(s[1])
        elif s[0] == "bytes":
            n = E.evalc(s[1])
            ww.append(8 * n if n is not None else None)
    b = body_by_suffix(facts, PARSER + "stream_info")
    ev, _rv, ctx = reader_events(facts, b, log=r"StreamInfo::(new|set_total_samples|set_md5_digest|set_block_sizes|set_frame_sizes)$")
    toks = rtoks(ev)
    rw = widths(toks)
    t.row(rw == ww, b.id, "widths", "reader consumes %s bits; writer emits %s" % (rw, ww), {"reader": rw, "writer": ww}, b.loc())
    # routing: k-th read -> setter argument
    ids = []

    def collect(tk):
        for x in tk:
            if x[0] in ("bits", "bytes", "bittag"):
                ids.append(x[2] if x[0] != "bittag" else x[3])
            elif x[0] == "bitsblock":
                collect(x[1])
    collect(toks)
    want = {"min_block_size": 0, "max_block_size": 1, "min_frame_size": 2, "max_frame_size": 3, "sample_rate": 4,
            "channels": 5, "bits_per_sample": 6, "total_samples": 7, "md5": 8}

    def reads_in(e):
        return E.reads_of(e)
    calls = {c[0].rsplit("::", 1)[1]: c for c in ctx.calls}
    okall = len(ids) == 9 and set(calls) >= {"new", "set_total_samples", "set_md5_digest", "set_block_sizes", "set_frame_sizes"}
    t.row(okall, b.id, "setters", "stream_info does not call StreamInfo::new and the four setters (found %s, %d reads)"
          % (sorted(calls), len(ids)))
    if okall:
        def chk(field, expr, plus_one=False):
            r = reads_in(expr)
            good = r == [ids[want[field]]]
            if plus_one:
                e = E.strip_casts(expr)
                good = good and e[0] == "bin" and e[1] == "Add" and E.is_c(E.strip_casts(e[3]), 1)
            else:
                good = good and not any(x[0] == "bin" and x[1] in ("Add", "Sub") for x in E.walk_expr(expr))
            t.row(good, b.id, "route(%s)" % field, "%s is built from reads %s (%s); the writer puts it at position %d%s"
                  % (field, r, E.show(expr)[:80], want[field], " as value-1" if plus_one else ""), {"field": field})
        n = calls["new"][1]
        chk("sample_rate", n[0])
        chk("channels", n[1], True)
        chk("bits_per_sample", n[2], True)
        chk("total_samples", calls["set_total_samples"][1][1])
        chk("md5", calls["set_md5_digest"][1][1])
        chk("min_block_size", calls["set_block_sizes"][1][1])
        chk("max_block_size", calls["set_block_sizes"][1][2])
        chk("min_frame_size", calls["set_frame_sizes"][1][1])
        chk("max_frame_size", calls["set_frame_sizes"][1][2])
    # writer writes channels-1 and bits-1
    wv = [E.canon(s[2]) for s in wseq if s[0] == "w"]
    t.row("(arg1.channels Sub 1)" in wv and "(arg1.bits_per_sample Sub 1)" in wv, w.id, "writer-minus-one",
          "the writer does not store channels-1 / bits_per_sample-1")
    t.rr.require_floor(12, "streaminfo rows")
    return [t.rr]


def layout_metadata(facts):
    t = R("LAYOUT/metadata-header", "metadata block header: flag|type byte and 24-bit length, read as written")
    b = body_by_suffix(facts, PARSER + "metadata_block")
    ev, rv, ctx = reader_events(facts, b, log=r"MetadataBlock::from_parts$")
    toks = rtoks(ev)
    head = widths(toks[:2])
    t.row(head == [8, 24], b.id, "widths", "metadata header is read as %s bits; the writer emits [8, 24]" % head,
          {"reader": head}, b.loc())
    okf = False
    if ctx.calls:
        a = ctx.calls[0][1]
        fl = E.canon(a[0])
        okf = re.search(r"Shr 7\)", fl) is not None and " Ne 0" in fl or re.search(r"Shr 7", fl) is not None
    t.row(okf, b.id, "last-flag", "is_last is not (first byte >> 7) != 0: %s" % (E.show(ctx.calls[0][1][0])[:100] if ctx.calls else None))
    # type dispatch on byte & 0x7F, type 0 -> stream_info
    cases = [x for x in toks if x[0] == "case"]
    okt = False
    if cases:
        sc = E.canon(cases[-1][1])
        arms = dict(cases[-1][2])
        z = arms.get(0)
        scx = E.strip_casts(cases[-1][1])
        if isinstance(scx, tuple) and scx[0] == "bin" and scx[1] in ("Eq", "Ne") and E.is_c(E.strip_casts(scx[3]), 0):
            # `if type == 0 { .. } else { .. }`: the STREAMINFO arm is the true arm of `== 0` (the false arm of `!= 0`)
            z = arms.get(1 if scx[1] == "Eq" else 0)
            arms = {0: z, "else": arms.get(0 if scx[1] == "Eq" else 1)}
            cases = cases[:-1] + [(cases[-1][0], cases[-1][1], [(0, z), ("else", arms["else"])])]
        okt = ("BitAnd 127" in sc or "127 BitAnd" in sc) and z is not None and [x[0] for x in z] == ["sub"] and z[0][1] == "stream_info"
        other = [v for l, v in cases[-1][2] if l != 0]
        okt = okt and other and all([x[0] for x in v] == ["bytes"] for v in other)
    t.row(okt, b.id, "type-dispatch", "block type is not (first byte & 0x7F) with 0 -> STREAMINFO and other types read as "
          "`length` raw bytes")
    t.rr.require_floor(3, "metadata rows")
    return [t.rr]


def layout_frame_header(facts):
    t = R("LAYOUT/frame-header", "parser::frame_header consumes the header FrameHeader::write emits")
    pc, pa = parser_unit(facts, "frame_header")
    ev, rv, ctx = reader_events(facts, pc, args=pa, log=r"(SampleSizeSpec|ChannelAssignment)::from_tag$|FrameHeader::from_specs$|set_frame_offset$")
    toks = rtoks(ev)
    kinds = [x[0] for x in toks]
    want = ["bitsblock", "case", "sub", "sub", "bytes"]
    # the coded number is read once per blocking mode (a case of two reads) or once for both (one read, the variant chosen
    # afterwards)
    want2 = ["bitsblock", "sub", "sub", "sub", "bytes"]
    okk = kinds == want or (kinds == want2 and toks[1][1] == "utf8_code")
    t.row(okk, pc.id, "order", "frame header reader sequence is %s; expected %s" % (kinds, want), {"sequence": kinds},
          pc.loc())
    if not okk:
        return [t.rr]
    bb = toks[0][1]
    bw = widths(bb)
    t.row(bw == [15, 1, 4, 4, 4, 3, 1], pc.id, "bit-fields", "fixed part is read as %s; expected [15,1,4,4,4,3,1]" % bw,
          {"reader": bw})
    # writer side: [16 sync+flag][8 codes][4 channel][4 size<<1]
    w = writer(facts, DT + "FrameHeader")
    wev, _x, _ = E.analyse(facts, w)
    scratch = [s for s in E.sinks_in(wev) if s != "arg2"]
    wseq = _seq(wev, scratch[0]) if len(scratch) == 1 else []
    ww = []
    for s in wseq[:4]:
        ww.append(s[1] if s[0] == "w" else (4 if s[0] == "comp" and s[1] == DT + "ChannelAssignment" else None))
    wb = boundaries(ww)
    rb = boundaries(bw)
    t.row(wb is not None and rb is not None and wb <= rb and max(wb) == max(rb), pc.id, "boundaries",
          "writer field boundaries %s are not a subset of reader boundaries %s" % (sorted(wb or []), sorted(rb or [])),
          {"writer": sorted(wb or []), "reader": sorted(rb or [])})
    # sync pattern: reader tag = writer constant >> 1, and the reserved bit is a zero tag
    okp = bb and bb[0][0] == "bittag" and E.evalc(bb[0][2]) is not None and bb[-1][0] == "bittag" and E.evalc(bb[-1][2]) == 0
    if okp and wseq and wseq[0][0] == "w":
        sv = E.strip_casts(wseq[0][2])
        wc = E.evalc(sv[2]) if sv[0] == "bin" else None
        okp = wc is not None and (wc >> 1) == E.evalc(bb[0][2])
    t.row(okp, pc.id, "sync-pattern", "reader sync pattern / reserved bit do not match the writer's sync word")
    # routing of the codes
    ids = [x[2] for x in bb if x[0] == "bits"]                      # blocking, bs, sr, ch, size
    calls = {c[0].split("::")[-2] + "::" + c[0].split("::")[-1]: c for c in ctx.calls}

    def rd(e):
        return E.reads_of(e)
    if len(ids) == 5:
        sub_bs, sub_sr = toks[2], toks[3]
        t.row(sub_bs[1] == "block_size_code" and rd(sub_bs[2][0]) == [ids[1]], pc.id, "route(block-size-code)",
              "the first 4-bit code is not what block_size_code decodes (%s)" % E.show(sub_bs[2][0] if sub_bs[2] else None)[:80])
        t.row(sub_sr[1] == "sample_rate_code" and rd(sub_sr[2][0]) == [ids[2]], pc.id, "route(sample-rate-code)",
              "the second 4-bit code is not what sample_rate_code decodes")
        c = calls.get("ChannelAssignment::from_tag")
        t.row(c is not None and rd(c[1][0]) == [ids[3]], pc.id, "route(channel-code)", "the third 4-bit code is not the channel code")
        c = calls.get("SampleSizeSpec::from_tag")
        t.row(c is not None and rd(c[1][0]) == [ids[4]], pc.id, "route(size-code)", "the 3-bit code is not the sample-size code")
        # coded number: blocking bit 0 -> Frame(n as u32), else StartSample(n)
        cs = toks[1]
        if cs[0] == "sub":
            okn = cs[1] == "utf8_code"
        else:
            arms = dict(cs[2])
            okn = rd(cs[1]) == [ids[0]] and all(a in arms and [x[0] for x in arms[a]] == ["sub"] and arms[a][0][1] == "utf8_code"
                                                for a in arms) and len(arms) == 2
        t.row(okn, pc.id, "coded-number", "the coded number is not read by utf8_code in both blocking modes")
        so = calls.get("FrameHeader::set_frame_offset")
        oko = False
        if so is not None:
            off = so[1][1]
            if off[0] == "case":
                vs = {l: v for l, v in off[2]}
                names = {l: [x[2] for x in E.walk_expr(v) if x[0] == "agg" and x[1] == DT + "FrameOffset"] for l, v in vs.items()}
                flat = {l: (n[0] if n else None) for l, n in names.items()}
                oko = sorted(str(x) for x in flat.values()) == ["Frame", "StartSample"]
                # the arm taken when the blocking bit is 0 must build Frame
                sc = E.strip_casts(off[1])
                zero_arm = None
                for l in vs:
                    v = E.evalv(sc, {}, facts) if False else None
                if sc[0] == "bin" and sc[1] == "Eq" and E.is_c(E.strip_casts(sc[3]), 0):
                    zero_arm = 1
                elif sc[0] == "bin" and sc[1] == "Ne" and E.is_c(E.strip_casts(sc[3]), 0):
                    zero_arm = 0
                elif rd(sc) == [ids[0]] and sc[0] != "bin":
                    # `match blocking_bit { 0 => .., _ => .. }`: the arm labelled 0
                    for l in vs:
                        if l == 0 or (isinstance(l, tuple) and 0 in l):
                            zero_arm = l
                oko = oko and zero_arm is not None and flat.get(zero_arm) == "Frame"
        t.row(oko, pc.id, "blocking-bit", "blocking bit 0 does not select FrameOffset::Frame / 1 StartSample")
    fs = calls.get("FrameHeader::from_specs")
    if fs is not None:
        a = fs[1]
        t.row("block_size_code" in E.canon(a[0]) or rd(a[0]), pc.id, "ctor-args", "from_specs arguments not traced")
    t.row(E.evalc(toks[4][1]) == 1, pc.id, "crc8-byte", "the header does not end with a one-byte CRC")
    t.rr.require_floor(10, "frame-header rows")
    return [t.rr]


def _select(ev, env, facts):
    """Reader tokens of an event tree with every case resolved by evaluating its scrutinee under env."""
    out = []
    for e in ev:
        if e[0] == "case":
            d = E.evalv(e[1], env, facts)
            if not isinstance(d, int):
                raise E.Undecided("cannot evaluate %s" % E.show(e[1])[:100])
            chosen = None
            other = None
            for lab, sub in e[2]:
                labs = lab if isinstance(lab, tuple) else (lab,)
                if d in labs:
                    chosen = sub
                if "else" in labs:
                    other = sub
            if chosen is None:
                chosen = other
            if chosen is None:
                raise E.Undecided("no arm for %s = %s" % (E.show(e[1])[:60], d))
            out += _select(chosen, env, facts)
        else:
            out.append(e)
    return out


def table_codes(facts):
    out = []
    # ---- block size
    t = R("TABLE/block-size-code", "reader block_size_code(code) = v  implies  writer v.tag() = code and the reader consumes "
          "count_extra_bits(v) bits; code 0 is rejected")
    pc, pa = parser_unit(facts, "block_size_code")
    ev, rv, _ = reader_events(facts, pc, args=pa)
    tag, _tb = ret_of(facts, DT + "BlockSizeSpec::tag")
    xb, _xb = ret_of(facts, DT + "BlockSizeSpec::count_extra_bits")
    for code in range(16):
        env = {1: code}
        v = E.evalv(rv, env, facts)
        try:
            sel = rtoks(_select(ev, env, facts))
        except E.Undecided as e:
            t.row(False, pc.id, "code=%d" % code, str(e))
            continue
        rbits = sum(x for x in widths(sel) if isinstance(x, int))
        if isinstance(v, tuple) and v[2] == "Ok":
            var = v[3][0][3][1]
            vname = var[2]
            # payload: fill unknown payloads with a placeholder so that tag() can be evaluated
            varv = ("agg", var[1], var[2], tuple(p if p is not None else 0 for p in var[3]))
            wcode = E.evalv(tag, {1: varv}, facts)
            wbits = E.evalv(xb, {1: varv}, facts)
            t.row(wcode == code and wbits == rbits, pc.id, "code=%d" % code,
                  "reader maps code %d to %s%s and consumes %d extra bits; the writer codes that variant as %s with %s "
                  "extra bits" % (code, vname, list(var[3]), rbits, wcode, wbits),
                  {"code": code, "variant": vname, "extra_bits": rbits})
        else:
            t.row(code == 0, pc.id, "code=%d" % code, "reader rejects block-size code %d (only the reserved code 0 may be "
                  "rejected)" % code, {"code": code, "variant": "rejected"})
    t.rr.require_floor(16, "block-size codes")
    out.append(t.rr)
    # ---- sample rate
    t = R("TABLE/sample-rate-code", "reader sample_rate_code(code) reads the extra bytes the writer emits for the variant "
          "from_tag_and_data(code) and the writer codes that variant as `code`; code 15 is rejected")
    pc, pa = parser_unit(facts, "sample_rate_code")
    ev, rv, _ = reader_events(facts, pc, args=pa)
    ftd, fb = ret_of(facts, DT + "SampleRateSpec::from_tag_and_data")
    tag, _tb = ret_of(facts, DT + "SampleRateSpec::tag")
    xb, _xb = ret_of(facts, DT + "SampleRateSpec::count_extra_bits")
    for code in range(16):
        env = {1: code}
        try:
            sel = rtoks(_select(ev, env, facts))
        except E.Undecided as e:
            t.row(False, pc.id, "code=%d" % code, str(e))
            continue
        rbits = sum(x for x in widths(sel) if isinstance(x, int))
        data = ("agg", "std::option::Option", "Some", (7,)) if rbits else ("agg", "std::option::Option", "None", ())
        v = E.evalv(ftd, {1: code, 2: data}, facts)
        if isinstance(v, tuple) and v[2] == "Some":
            var = v[3][0]
            wcode = E.evalv(tag, {1: var}, facts)
            wbits = E.evalv(xb, {1: var}, facts)
            t.row(wcode == code and wbits == rbits, pc.id, "code=%d" % code,
                  "reader maps rate code %d to %s reading %d extra bits; the writer codes it %s with %s extra bits"
                  % (code, var[2], rbits, wcode, wbits), {"code": code, "variant": var[2], "extra_bits": rbits})
        else:
            t.row(code == 15, fb.id, "code=%d" % code, "reader rejects sample-rate code %d (only 15 may be rejected): %s"
                  % (code, v), {"code": code, "variant": "rejected"})
    t.rr.require_floor(16, "sample-rate codes")
    out.append(t.rr)
    # ---- sample size
    t = R("TABLE/sample-size-code", "SampleSizeSpec::from_tag is the inverse of into_tag on 0..=7")
    ft, fb = ret_of(facts, DT + "SampleSizeSpec::from_tag")
    it, _ib = ret_of(facts, DT + "SampleSizeSpec::into_tag")
    for code in range(9):
        v = E.evalv(ft, {1: code}, facts)
        if code < 8:
            ok = isinstance(v, tuple) and v[2] == "Some" and E.evalv(it, {1: v[3][0]}, facts) == code
            t.row(ok, fb.id, "code=%d" % code, "from_tag(%d) = %s does not map back to %d" % (code, v, code), {"code": code})
        else:
            t.row(isinstance(v, tuple) and v[2] == "None", fb.id, "code=%d" % code, "from_tag(8) is not None")
    t.rr.require_floor(9, "sample-size codes")
    out.append(t.rr)
    # ---- channels
    t = R("TABLE/channel-code", "ChannelAssignment::from_tag is the inverse of the code ChannelAssignment::write emits")
    ft, fb = ret_of(facts, DT + "ChannelAssignment::from_tag")
    w = writer(facts, DT + "ChannelAssignment")
    wev, _x, _ = E.analyse(facts, w)
    cases = [e for e in wev if e[0] == "case"]
    names = [v["name"] for v in facts.adts[DT + "ChannelAssignment"]["variants"]]
    wcode = {}
    if len(cases) == 1:
        for lab, evs in cases[0][2]:
            ws = [e for e in flat_events(evs) if e[0] == "w"]
            if len(ws) == 1 and isinstance(lab, int):
                wcode[names[lab]] = ws[0][3]
    for code in range(16):
        v = E.evalv(ft, {1: code}, facts)
        if isinstance(v, tuple) and v[2] == "Some":
            var = v[3][0]
            we = wcode.get(var[2])
            wc = E.evalv(we, {1: var}, facts) if we is not None else None
            t.row(wc == code, fb.id, "code=%d" % code, "from_tag(%d) = %s%s but the writer emits %s for it"
                  % (code, var[2], list(var[3]), wc), {"code": code, "variant": var[2]})
        else:
            t.row(code > 10, fb.id, "code=%d" % code, "from_tag(%d) is rejected but the code is assigned" % code,
                  {"code": code, "variant": "rejected"})
    t.rr.require_floor(16, "channel codes")
    out.append(t.rr)
    return out


def layout_subframes(facts):
    out = []
    t = R("LAYOUT/subframe", "subframe header 7+1 bits, type codes and order formulas = writer's type byte >> 1, fields in the "
          "writer's order")
    sh = body_by_suffix(facts, PARSER + "subframe_header")
    ev, _rv, _ = reader_events(facts, sh)
    t.row(widths(rtoks(ev)) == [7, 1], sh.id, "header-bits", "subframe header is read as %s bits; expected [7, 1]" % widths(rtoks(ev)))
    # writer type bytes
    wtype = {}
    worder = {}
    for ty in ("Constant", "Verbatim", "FixedLpc", "Lpc"):
        w = writer(facts, DT + ty)
        wev, _x, _ = E.analyse(facts, w)
        first = [e for e in wev if e[0] == "w"][0]
        wtype[ty] = first[3]
    spec = {"constant": ("Constant", None), "verbatim": ("Verbatim", None), "fixed_lpc": ("FixedLpc", 0), "lpc": ("Lpc", 1)}
    for pname, (ty, _bias) in spec.items():
        pc, pa = parser_unit(facts, pname)
        ev, rv, ctx = reader_events(facts, pc, args=pa, log=r"::from_parts$|::from_samples$")
        toks = rtoks(ev)
        kinds = [x[0] if x[0] != "sub" else "sub:" + x[1] for x in toks]
        want = {"constant": ["sub:subframe_header", "bits"], "verbatim": ["sub:subframe_header", "sub:raw_samples"],
                "fixed_lpc": ["sub:subframe_header", "sub:raw_samples", "sub:residual"],
                "lpc": ["sub:subframe_header", "sub:raw_samples", "sub:quantized_parameters", "sub:residual"]}[pname]
        t.row(kinds == want, pc.id, "order(%s)" % pname, "%s reads %s; the writer emits %s" % (pname, kinds, want),
              {"parser": pname, "sequence": kinds}, pc.loc())
        if kinds != want:
            continue
        tagid = toks[0][3]
        # type predicate: evaluate the reader's acceptance for each 7-bit tag by resolving its guards
        # (the guard is the first case of the event tree; an accepted tag reaches the reads after it)
        accepted = []
        order_of = {}
        tagexpr = None
        for e in E.walk_expr(rv) if rv else []:
            pass
        for code in range(128):
            env = {("applied", tagid): None}
            try:
                okc = _accepts(facts, pc, pa, code)
            except E.Undecided:
                okc = None
            if okc:
                accepted.append(code)
        # writer's set: byte >> 1 for every order the format allows
        if ty in ("Constant", "Verbatim"):
            wset = [E.evalc(wtype[ty]) >> 1]
        elif ty == "FixedLpc":
            wset = [(0x10 | (o << 1)) >> 1 for o in range(0, 5)]
        else:
            wset = [(0x40 | ((o - 1) << 1)) >> 1 for o in range(1, 33)]
        t.row(accepted == wset, pc.id, "type-codes(%s)" % pname, "%s accepts type codes %s; the writer's type byte >> 1 ranges "
              "over %s" % (pname, _rng(accepted), _rng(wset)), {"parser": pname, "codes": _rng(accepted)})
        if ty in ("FixedLpc", "Lpc"):
            # order handed to raw_samples and to residual is the same expression, and it inverts the writer's formula
            o1 = toks[1][2][1] if len(toks[1][2]) > 1 else None
            o2 = toks[-1][2][1] if len(toks[-1][2]) > 1 else None
            same = o1 is not None and E.canon(o1) == E.canon(o2)
            if ty == "Lpc":
                o3 = toks[2][2][0] if toks[2][2] else None
                same = same and E.canon(o1) == E.canon(o3)
            t.row(same, pc.id, "order-shared(%s)" % pname, "%s hands different orders to the warm-up, parameter and residual "
                  "readers: %s / %s" % (pname, E.show(o1), E.show(o2)), {"parser": pname, "order": E.show(o1)[:60]})
            okinv = True
            for code in accepted:
                o = E.evalv(_subst_read(o1, tagid, code), {}, facts)
                wo = (code - 8) if ty == "FixedLpc" else (code - 0x20 + 1)
                if o != wo:
                    okinv = False
            t.row(okinv and bool(accepted), pc.id, "order-formula(%s)" % pname, "the order %s computes from the type code does not "
                  "invert the writer's formula" % pname)
            # bits-per-sample handed on unchanged
            t.row(E.canon(toks[1][2][0]) == "arg2", pc.id, "width-shared(%s)" % pname, "warm-up width is %s, not the subframe's "
                  "bits_per_sample" % E.show(toks[1][2][0]))
        if ty == "Verbatim":
            a = toks[1][2]
            t.row(E.canon(a[0]) == "arg2" and E.canon(a[1]) == "arg1", pc.id, "verbatim-args", "verbatim reads "
                  "raw_samples(%s, %s); expected (bits_per_sample, block_size)" % (E.show(a[0]), E.show(a[1])))
        if ty == "Constant":
            t.row(E.canon(toks[1][1]) == "arg2", pc.id, "constant-width", "constant value is read with %s bits"
                  % E.show(toks[1][1]))
    t.rr.require_floor(14, "subframe rows")
    out.append(t.rr)
    return out


def _rng(xs):
    if not xs:
        return "[]"
    if xs == list(range(xs[0], xs[-1] + 1)) and len(xs) > 2:
        return "%#x..=%#x" % (xs[0], xs[-1])
    return "[%s]" % ", ".join("%#x" % x for x in xs)


def _subst_read(e, aid, value):
    """Replace ok(read#aid).1.0 / .1 (the parsed type tag) by a constant."""
    if not isinstance(e, tuple) or not e:
        return e
    if e[0] == "proj" and isinstance(e[1], tuple) and e[1][0] == "okval" and isinstance(e[1][1], tuple) \
            and e[1][1][0] == "applied" and e[1][1][1] == aid:
        return E.C(value)
    return tuple(_subst_read(x, aid, value) if isinstance(x, tuple) else x for x in e)


def _accepts(facts, pc, pa, code):
    """Does the subframe parser closure accept 7-bit type code `code`?  Decided on the Ok-subgraph: the first switch
    after the header read whose scrutinee depends only on the tag selects between continuing and the error return."""
    ctx = E.Ctx(facts)
    ctx.reader = True
    ctx.noinline = list(CTOR_NOINLINE)
    it = E.Interp(ctx, pc, pa)
    # find guard conditions: blocks whose switch has one successor outside the ok set, scrutinee over the tag
    it.run()
    b = pc
    oks = it.ok
    # re-evaluate block statements straight-line from entry to collect switch scrutinees with an error successor
    guards = []
    seen = set()
    bi = 0
    env_it = E.Interp(ctx, pc, pa)
    tagid = None
    ev = []
    while bi is not None and bi not in seen:
        seen.add(bi)
        env_it.exec_block_stmts(bi)
        tm = b.term(bi)
        if tm["k"] == "ret":
            break
        env_it.exec_term(bi, ev)
        if tagid is None:
            for e in ev:
                if e[0] == "apply" and len(e) > 3:
                    tagid = e[3]
                    break
        succ_all = [x for x in b.succ[bi]]
        succ_ok = [x for x in succ_all if x in oks]
        if tm["k"] == "switch" and len(succ_all) > len(succ_ok) and len(succ_ok) == 1:
            sc = env_it.operand(tm["d"])
            # which label leads to the ok successor
            oklabels = [v for v, tgt in tm["vals"] if tgt == succ_ok[0]]
            else_ok = tm["else"] == succ_ok[0]
            guards.append((sc, oklabels, else_ok, [v for v, _t in tm["vals"]]))
        if len(succ_ok) != 1:
            break
        bi = succ_ok[0]
    if tagid is None:
        raise E.Undecided("no header read")
    for sc, oklabels, else_ok, alllabels in guards:
        if not any(x[0] == "applied" and x[1] == tagid for x in E.walk_expr(sc)):
            continue
        if E.strip_casts(sc)[0] == "discr":
            continue                # the `?` on the header read itself
        d = E.evalv(_subst_read(sc, tagid, code), {}, facts)
        if not isinstance(d, int):
            raise E.Undecided("cannot evaluate guard %s" % E.show(sc)[:80])
        if d in oklabels:
            continue
        if else_ok and d not in alllabels:
            continue
        return False
    return True


def layout_params_residual(facts):
    out = []
    t = R("LAYOUT/lpc-parameters", "quantized_parameters reads 4 bits (+1), a signed 5-bit shift and `order` coefficients of "
          "`precision` bits; raw_samples reads `size` values of `bits` bits through u_to_i")
    pc, pa = parser_unit(facts, "quantized_parameters")
    ev, rv, ctx = reader_events(facts, pc, args=pa, log=r"QuantizedParameters::new$|parser::u_to_i$")
    toks = rtoks(ev)
    kinds = [x[0] for x in toks]
    t.row(kinds == ["bits", "bits", "sub"] and widths(toks[:2]) == [4, 5] and toks[2][1] == "raw_samples", pc.id, "order",
          "quantized_parameters reads %s %s" % (kinds, widths(toks[:2])), {"sequence": kinds}, pc.loc())
    if kinds == ["bits", "bits", "sub"]:
        pid, sid = toks[0][2], toks[1][2]
        a = toks[2][2]
        prec = E.strip_casts(a[0])
        okp = prec[0] == "bin" and prec[1] == "Add" and E.is_c(E.strip_casts(prec[3]), 1) \
            and E.reads_of(prec) == [pid]
        t.row(okp and E.canon(a[1]) == "arg1", pc.id, "coef-args", "coefficients are read as raw_samples(%s, %s); expected "
              "(4-bit field + 1, order)" % (E.show(a[0])[:60], E.show(a[1])[:40]))
        u = [c for c in ctx.calls if c[0].endswith("u_to_i")]
        oks = bool(u) and E.evalc(u[0][1][1]) == 5 and E.reads_of(u[0][1][0]) == [sid]
        t.row(oks, pc.id, "shift-signed", "the 5-bit shift is not sign-extended with u_to_i(_, 5)")
        n = [c for c in ctx.calls if c[0].endswith("QuantizedParameters::new")]
        okn = bool(n) and E.canon(n[0][1][1]) == "arg1" and E.canon(n[0][1][3]) == E.canon(a[0])
        t.row(okn, pc.id, "ctor-args", "QuantizedParameters::new is not called with (coefs, order, shift, precision) from the "
              "fields read")
    rs, ra = parser_unit(facts, "raw_samples")
    ev, rv, ctx = reader_events(facts, rs, args=ra, log=r"parser::u_to_i$")
    toks = rtoks(ev)
    okr = len(toks) == 1 and toks[0][0] == "loop" and toks[0][1][0] == "range" and E.canon(toks[0][1][2]) == "0" \
        and E.canon(toks[0][1][3]) == "arg2" and [x[0] for x in toks[0][2]] == ["bits"] and E.canon(toks[0][2][0][1]) == "arg1"
    if not okr and len(toks) == 1 and toks[0][0] == "loop" and toks[0][1][0] == "while":
        # `while out.len() < size { read one field; out.push(..) }` with `out` freshly created: one read per element
        cnd = E.strip_casts(toks[0][1][2])
        loops = [e for e in ev if e[0] == "loop"]
        if isinstance(cnd, tuple) and cnd[0] == "bin" and cnd[1] == "Lt" and E.canon(cnd[3]) == "arg2" \
                and E.strip_casts(cnd[2])[0] == "len" and len(loops) == 1:
            vec = E.strip_casts(cnd[2])[1]
            body = loops[0][2]
            pushes = [e for e in body if e[0] == "push" and E.canon(e[1]) == E.canon(vec)]
            fresh = isinstance(E.strip_casts(vec), tuple) and E.strip_casts(vec)[0] == "call" \
                and re.search(r"Vec::<.*>::(new|with_capacity)$", E.strip_casts(vec)[1]) is not None
            okr = fresh and len(pushes) == 1 and not any(e[0] in ("loop", "case") for e in body) \
                and [x[0] for x in toks[0][2]] == ["bits"] and E.canon(toks[0][2][0][1]) == "arg1"
    t.row(okr, rs.id, "raw-samples", "raw_samples does not read `size` fields of `bits_per_sample` bits")
    u = [c for c in ctx.calls if c[0].endswith("u_to_i")]
    t.row(bool(u) and E.canon(u[0][1][1]) == "arg1", rs.id, "raw-samples-signed", "raw samples are not sign-extended from "
          "their own width")
    t.rr.require_floor(6, "parameter rows")
    out.append(t.rr)

    t = R("LAYOUT/residual", "parser::residual consumes what Residual::write emits: 2+4 bit header, 4-bit parameter per "
          "partition (method 0), unary quotient + parameter-bit remainder for every sample at or after the warm-up")
    pc, pa = parser_unit(facts, "residual")
    ev, rv, ctx = reader_events(facts, pc, args=pa, log=r"Residual::from_parts$")
    toks = rtoks(ev)
    kinds = [x[0] for x in toks]
    t.row(kinds == ["bits", "bits", "loop"] and widths(toks[:2]) == [2, 4], pc.id, "header", "residual header is read as %s %s; "
          "the writer emits 6 bits (method 00 + 4-bit order)" % (kinds, widths(toks[:2])), {"sequence": kinds}, pc.loc())
    if kinds != ["bits", "bits", "loop"]:
        out.append(t.rr)
        return out
    mid, oid = toks[0][2], toks[1][2]
    lp = toks[2]
    d1 = lp[1]
    hi = E.strip_casts(d1[3])
    okl = d1[0] == "range" and E.canon(d1[2]) == "0" and hi[0] == "bin" and hi[1] == "Shl" and E.is_c(E.strip_casts(hi[2]), 1) \
        and E.reads_of(hi) == [oid]
    t.row(okl, pc.id, "partition-loop", "partition loop runs %s; expected 0..(1 << order field)" % E.show_desc(d1)[:120])
    inner = lp[2]
    ik = [x[0] for x in inner]
    okp = ik == ["bits", "loop"]
    if okp:
        pw = inner[0][1]
        # parameter width: 4 for method 0
        w0 = E.evalv(_subst_read(pw, mid, 0), {}, facts) if True else None
        if w0 is None and pw[0] == "case":
            w0 = E.evalv(("case", E.C(0), pw[2]), {}, facts)
        okp = w0 == 4
    t.row(okp, pc.id, "parameter-width", "per-partition parameter is not read with 4 bits for coding method 0")
    if ik == ["bits", "loop"]:
        rid = inner[0][2]
        d2 = inner[1][1]
        L = ("bin", "Div", ("p", 1, ()), hi)
        lo_want = E.Normalizer(facts).nf(("bin", "Mul", L, ("idx", d1[1])))
        hi_want = E.Normalizer(facts).nf(("bin", "Mul", L, ("bin", "Add", ("idx", d1[1]), E.C(1))))
        try:
            n = E.Normalizer(facts)
            okr = d2[0] == "range" and E.nf_eq(n.nf(d2[2]), lo_want) and E.nf_eq(n.nf(d2[3]), hi_want)
        except E.Undecided:
            okr = False
        t.row(okr, pc.id, "sample-range", "sample loop of partition p runs %s; expected p*L..(p+1)*L with L = block_size / "
              "partitions" % E.show_desc(d2)[:160])
        body = inner[1][2]
        oks = len(body) == 1 and body[0][0] == "case"
        if oks:
            sc = E.strip_casts(body[0][1])
            arms = dict(body[0][2])
            skip_lt = sc[0] == "bin" and sc[1] == "Lt" and sc[2] == ("idx", d2[1]) and E.canon(sc[3]) == "arg2"
            rd = arms.get(0) or []
            oks = skip_lt and [x[0] if x[0] != "sub" else "sub:" + x[1] for x in rd] == ["sub:unary_code", "bits"] \
                and not arms.get(1)
            if oks:
                rw = rd[1][1]
                oks = E.reads_of(rw) == [rid]
        t.row(oks, pc.id, "sample-shape", "a sample is not read as `if t < warm-up {skip} else {unary quotient, parameter-bit "
              "remainder}` in every partition (the writer starts each partition at max(warm-up, p*L))")
    fp = [c for c in ctx.calls if c[0].endswith("Residual::from_parts")]
    okf = bool(fp) and E.reads_of(fp[0][1][0]) == [oid] \
        and E.canon(fp[0][1][1]) == "arg1" and E.canon(fp[0][1][2]) == "arg2"
    t.row(okf, pc.id, "ctor-args", "Residual::from_parts is not called with (order field, block_size, warmup_length, ..)")
    # pushes: quotients/remainders get one element per sample incl. zeros for the warm-up
    t.rr.require_floor(6, "residual rows")
    out.append(t.rr)
    return out


def layout_frame_stream(facts):
    t = R("LAYOUT/frame+stream", "frame = header, channels x subframe(width + side offset) in one bit block, CRC-16; stream = "
          "marker, metadata until the last flag, frames until end of input")
    pc, pa = parser_unit(facts, "frame")
    ev, rv, ctx = reader_events(facts, pc, args=pa, log=r"Frame::from_parts$")
    toks = rtoks(ev)
    kinds = [x[0] if x[0] != "sub" else "sub:" + x[1] for x in toks]
    t.row(kinds == ["sub:frame_header", "bitsblock", "bytes"], pc.id, "frame-order", "frame reader sequence is %s" % kinds,
          {"sequence": kinds}, pc.loc())
    if kinds == ["sub:frame_header", "bitsblock", "bytes"]:
        t.row(E.evalc(toks[0][2][0]) == 1, pc.id, "header-crc-checked", "frame() does not ask frame_header to check its CRC")
        bb = toks[1][1]
        okb = len(bb) == 1 and bb[0][0] == "rloop" and E.canon(bb[0][1]) == E.canon(bb[0][2])
        if okb:
            inner = bb[0][3]
            okb = [x[0] if x[0] != "sub" else "sub:" + x[1] for x in inner] == ["sub:subframe"]
            if okb:
                a = inner[0][2]
                cs = E.canon(a[1])
                okb = "bits_per_sample_offset" in cs and " Add " in cs and "block_size" in E.canon(a[0])
            cnt = E.canon(bb[0][1])
            okb = okb and "ChannelAssignment::channels" in cnt
        t.row(okb, pc.id, "subframes", "subframes are not read as channels x subframe(block_size, bits + side offset(ch)) "
              "inside one bit block")
        t.row(E.evalc(toks[2][1]) == 2, pc.id, "crc16-bytes", "the frame does not end with a two-byte CRC")
    st = body_by_suffix(facts, PARSER + "stream")
    ev, rv, ctx = reader_events(facts, st)
    toks = rtoks(ev)
    kinds = [x[0] if x[0] != "sub" else "sub:" + x[1] for x in toks]
    flatk = [k for k in kinds if k not in ("case",)]
    t.row(kinds[:2] == ["bytetag", "sub:metadata_block"] and kinds[-1] == "rmany", st.id, "stream-order",
          "stream reader sequence is %s" % kinds, {"sequence": kinds}, st.loc())
    if kinds[:1] == ["bytetag"]:
        pat = toks[0][1]
        s = pat[1] if pat[0] == "c" else None
        t.row(s in ("fLaC", '"fLaC"', "const \"fLaC\""), st.id, "marker", "stream marker tag is %s" % (s,))
    if kinds and kinds[-1] == "rmany":
        rm = toks[-1]
        okm = rm[1] == "many_till" and [x[0] if x[0] != "sub" else "sub:" + x[1] for x in rm[2]] == ["sub:frame"] \
            and any("eof" in E.show(x) for x in rm[3])
        if okm:
            okm = E.evalc(rm[2][0][2][1]) == 1
        t.row(okm, st.id, "frames-until-eof", "frames are not read with many_till(frame(_, check_crc = true), eof): a damaged "
              "or trailing frame would be dropped silently")
    # metadata loop: while !is_last
    mids = [x for x in toks if x[0] == "case" or x[0] == "loop"]
    t.row(any("metadata_block" in str(x) for x in toks[1:-1]) or len(toks) >= 3, st.id, "metadata-loop",
          "no metadata continuation loop found")
    # the stream parser rejects only what its sub-parsers reject, plus a first block that is not STREAMINFO: every other
    # explicit error it constructs would refuse bytes the writer can emit (the writer checks no cross-field relation)
    errs = []
    for bb in [st] + facts.closures_of(st, recursive=True):
        for bi, si, s in bb.iter_stmts():
            if s["k"] == "assign" and s["rv"]["k"] == "agg" and s["rv"].get("adt") == "nom::Err" and s["rv"].get("variant") in ("Error", "Failure"):
                errs.append(bb.loc(bi, si))
    t.row(len(errs) <= 1, st.id, "no-extra-rejection", "parser::stream constructs %d explicit parse errors (%s); only the "
          "`first block is not STREAMINFO` rejection is expected - any further cross-field validation refuses streams the "
          "writer emits" % (len(errs), errs), {"explicit_errors": errs})
    t.rr.require_floor(8, "frame/stream rows")
    return [t.rr]


def accept_frame(facts):
    """ACCEPT/frame: the frame reader's own cross-checks against STREAMINFO do not refuse what the writer emits.  The
    writer codes a sample size without a table code as `Unspecified` (the header accessor then yields None) and every
    other size as itself; on the reader's Ok paths the conditions that mention the header's sample size are evaluated for
    both answers (None, Some(size stated in STREAMINFO))."""
    t = R("ACCEPT/frame", "the frame reader accepts a header whose sample size is unspecified or equal to the STREAMINFO value")
    pc, pa = parser_unit(facts, "frame")
    ctx = E.Ctx(facts)
    ctx.reader = True
    ctx.open_loops = True
    ctx.collect_asserts = True
    ctx.noinline = list(CTOR_NOINLINE)
    it = E.Interp(ctx, pc, pa)
    it.run()
    ACC = r"FrameHeader::bits_per_sample$"
    is_acc = lambda x: isinstance(x, tuple) and x and x[0] == "call" and re.search(ACC, x[1])

    def ev(e, hb, sref):
        """-> ('none',) | ('some', v) | ('v', canon) | ('b', bool) | None"""
        e = E.strip_casts(e)
        if not isinstance(e, tuple) or not e:
            return None
        if is_acc(e):
            return hb
        if e[0] == "call" and re.search(r"Option::<.*>::unwrap_or$", e[1]) and len(e[2]) == 2:
            o = ev(e[2][0], hb, sref)
            if o is None:
                return None
            if o[0] == "none":
                return ev(e[2][1], hb, sref)
            if o[0] == "some":
                return o[1]
            return None
        if e[0] == "case":
            d = ev(e[1], hb, sref)
            if d is None or d[0] != "v" or not d[1].isdigit():
                return None
            for lab, v in e[2]:
                labs = lab if isinstance(lab, tuple) else (lab,)
                if int(d[1]) in labs:
                    return ev(v, hb, sref)
            return None
        if e[0] == "proj" and tuple(e[2])[:2] == ("@Some", ".0") and len(e[2]) == 2:
            o = ev(e[1], hb, sref)
            if o and o[0] == "some":
                return o[1]
            return None
        if e[0] == "agg" and e[2] == "Some" and len(e[3]) == 1:
            v = ev(e[3][0], hb, sref)
            return ("some", v) if v is not None else None
        if e[0] == "agg" and e[2] == "None":
            return ("none",)
        if e[0] == "discr":
            o = ev(e[1], hb, sref)
            if o and o[0] in ("none", "some"):
                return ("v", "1" if o[0] == "some" else "0")
            return None
        if e[0] == "c" and isinstance(e[1], int):
            return ("v", str(e[1]))
        m = re.search(r"PartialEq(<.*>)?>::(eq|ne)$", e[1]) if e[0] == "call" else None
        if m and len(e[2]) == 2:
            e = ("bin", "Eq" if m.group(2) == "eq" else "Ne", e[2][0], e[2][1])
        if e[0] == "bin" and e[1] in ("Eq", "Ne"):
            a, b2 = ev(e[2], hb, sref), ev(e[3], hb, sref)
            if a is None or b2 is None:
                return None
            same = a == b2
            if not same and ("?" in str(a) or "?" in str(b2)):
                return None
            # two different symbolic atoms are not known to differ: only decide when structurally equal, or when one side
            # is None / Some and the other the opposite shape
            if not same and a[0] == "v" and b2[0] == "v" and not (a[1].isdigit() and b2[1].isdigit()):
                return None
            return ("b", same if e[1] == "Eq" else not same)
        if E.mentions(e, is_acc):
            return None
        return ("v", E.canon(e))
    sref = None
    judged = 0
    for label, hb in (("unspecified (None)", ("none",)), ("equal to STREAMINFO", "S")):
        okpaths = 0
        reasons = []
        for (_bid, _bi, ass) in ctx.ok_returns:
            ok = True
            for a in ass:
                if a[0] != "cond" or not E.mentions(a[1], is_acc):
                    continue
                hbv = hb
                if hb == "S":
                    # the STREAMINFO value is whatever the condition compares the accessor with
                    cands = [x for x in E.walk_expr(a[1]) if x[0] == "p" and x[1] == 1]
                    if not cands:
                        continue
                    hbv = ("some", ("v", E.canon(cands[0])))
                r = ev(a[1], hbv, sref)
                if r is None or r[0] != "b":
                    continue
                judged += 1
                if int(r[1]) != a[2]:
                    ok = False
                    reasons.append("%s is %s, the Ok path needs %s" % (E.show(a[1])[:110], r[1], bool(a[2])))
            if ok:
                okpaths += 1
        t.row(okpaths >= 1, pc.id, "sample-size:%s" % label.split(" ")[0],
              "a frame header whose sample size is %s is refused by the frame reader on every path: %s. The writer emits such "
              "headers (sizes without a header code are written as `unspecified`), so a stream the library wrote is not parsed"
              % (label, "; ".join(reasons[:2])), {"case": label, "ok_paths": okpaths}, pc.loc())
    t.row(judged >= 2, pc.id, "inventory", "no condition on the header's sample size was found on the Ok paths of the frame "
          "reader (the rule went blind)")
    t.rr.require_floor(3, "acceptance rows")
    return [t.rr]


def decoder_width(facts):
    t = R("WIDTH/decode", "the decoder multiplies and accumulates predictions in 64 bits")
    n = 0
    for b in facts.body_list:
        if not b.module.startswith("component::decode"):
            continue
        for bi, si, s in b.iter_stmts():
            if s["k"] != "assign" or s["rv"]["k"] != "bin":
                continue
            op = s["rv"]["op"]
            if not op.startswith("Mul"):
                continue
            ty = b.op_ty(s["rv"]["a"])
            n += 1
            t.row(ty in ("i64", "usize", "u64"), b.id, "mul-width", "%s multiplies in %s (%s): a prediction sum of order x "
                  "15-bit coefficients x 25-bit samples needs more than 32 bits" % (b.id, ty, b.loc(bi, si)),
                  {"function": b.id, "type": ty}, b.loc(bi, si))
        for bi, tt in b.calls():
            fn = tt.get("fn") or {}
            if re.search(r"::(wrapping|overflowing|saturating|unchecked)_(mul|add)$", fn.get("def", "")) \
                    and re.search(r"impl (i32|i16|u32)>", fn.get("def", "")):
                n += 1
                t.row(False, b.id, "narrow-arith", "%s uses %s (%s)" % (b.id, fn["def"], b.loc(bi, "term")))
    # a decode helper that multiplies / accumulates in a type parameter must be instantiated with a 64-bit type everywhere
    for b in facts.body_list:
        if not b.module.startswith("component::decode"):
            continue
        accs = set()
        for bi, tt in b.calls():
            fn = tt.get("fn") or {}
            if re.search(r"^std::ops::(Mul|Add|AddAssign|MulAssign)::", fn.get("def") or ""):
                for g in (fn.get("gargs") or [])[:1]:
                    if re.match(r"^[A-Z]\w*$", g):
                        accs.add(g)
        if not accs:
            continue
        names = []
        for pr in b.raw.get("preds") or []:
            nm = pr.split(":")[0].strip()
            if re.match(r"^[A-Z]\w*$", nm) and nm != "Self" and nm not in names:
                names.append(nm)
        for c in facts.body_list:
            for bi, tt in c.calls():
                fn = tt.get("fn") or {}
                if (fn.get("def") or "") != b.id:
                    continue
                g = fn.get("gargs") or []
                bind = dict(zip(names, g[-len(names):])) if names and len(g) >= len(names) else {}
                for a_ in sorted(accs):
                    ty = bind.get(a_)
                    n += 1
                    t.row(ty in ("i64", "u64", "i128") or (ty is not None and re.match(r"^[A-Z]\w*$", ty)), c.id,
                          "accumulator-width:%s" % b.raw.get("name"),
                          "%s instantiates the accumulator type %s of %s with %s (%s): order x 15-bit coefficients x up to "
                          "33-bit samples need more than 32 bits" % (c.id, a_, b.id, ty, c.loc(bi, "term")),
                          {"function": c.id, "callee": b.id, "accumulator": ty}, c.loc(bi, "term"))
    t.row(n >= 1, "component::decode", "inventory", "no multiplication found in the decode module: the rule went blind")
    t.rr.require_floor(2, "decode arithmetic sites")
    return [t.rr]


def run(facts, tier, ctx):
    out = []
    for fn in (layout_streaminfo, layout_metadata, layout_frame_header, table_codes, layout_subframes,
               layout_params_residual, layout_frame_stream, accept_frame, decoder_width):
        try:
            out += fn(facts)
        except E.Undecided as e:
            rr = RuleResult("UNDECIDED/" + fn.__name__, "the effect engine could not structure a body")
            rr.fail(Finding(rr.rule, fn.__name__, "undecided", 0, "", "fail closed: %s" % e))
            out.append(rr)
    # the parser rebuilds every predictive subframe with residual warm-up = predictor order = warm-up sample count; the
    # encoder's construction sites must agree or the emitted frame does not decode to the input (C02 AGREE)
    from . import c02
    out += c02.predictor_order(facts, c02.oracle())
    # a parsed stream re-serialises to its bytes only if the is-last flags of the metadata chain are what the writer emits:
    # nothing may install metadata blocks behind add_metadata_block (C02 LASTFLAG)
    out += c02.last_flag(facts)
    # what a parsed frame decodes to must not depend on what the thread decoded before (C10's history rules see every
    # reusable storage of the crate, the decoder's included), and reading back a frame the writer can emit must not hit an
    # arithmetic assertion (C16 IMPLICIT over the stream parser)
    from . import c10, c16
    out += [r for r in c10.run(facts, tier, ctx) if r.rule in ("RESET", "STALE-READ", "PLAIN-STATE")]
    out += [r for r in c16.run(facts, tier, ctx) if r.rule == "IMPLICIT"]
    return out
