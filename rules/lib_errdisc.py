"""ERRDISC — error discipline by error *type*.

Every call site whose destination type is Result<_, E> with E in the caller-chosen set of
external-failure types is an obligation: the value must reach the function's return place
(directly, through `?`, or through pass-through combinators whose own result is again an
obligation) and must never be the receiver of a swallowing/panicking consumer, nor be dead.
"""
import re

from .core import Finding, RuleResult, op_local, op_place
from .tyutil import result_parts

PANICKING = {"unwrap", "expect", "unwrap_unchecked", "unwrap_err", "expect_err", "into_ok"}
SWALLOWING = {"unwrap_or", "unwrap_or_else", "unwrap_or_default", "ok", "err", "is_ok", "is_err",
              "is_ok_and", "is_err_and", "map_or", "iter", "iter_mut", "into_iter"}
# the error is handed to a closure: accepted here, the closure itself is an obligation (must be able to return)
CLOSURE_HANDLED = {"map_or_else"}
PASSTHRU = {"map_err", "map", "and_then", "or_else", "and", "or", "inspect", "inspect_err", "as_ref", "as_mut",
            "copied", "cloned", "flatten", "transpose", "as_deref", "as_deref_mut"}
# combinators that hand the *error* to a closure argument
ERR_CLOSURE = {"map_err": 1, "or_else": 1, "unwrap_or_else": 1, "map_or_else": 1, "inspect_err": 1,
               "is_err_and": 1}


def is_result_method(fn, names):
    return fn is not None and fn["def"].startswith("std::result::Result::<T, E>::") and fn["name"] in names


def closure_arg_body(facts, body, op):
    """If operand is (a move of) a closure aggregate created in `body`, return the closure body."""
    if op.get("k") == "const":
        cid = op.get("closure")
        if cid and cid in facts.bodies:
            return facts.bodies[cid]
        return None
    for o in body.origins(op):
        if o[0] == "agg" and o[3].get("ak") == "closure":
            cid = o[3]["closure"]
            if cid in facts.bodies:
                return facts.bodies[cid]
    return None


class Tracker:
    def __init__(self, facts, body, is_external):
        self.facts = facts
        self.body = body
        self.is_external = is_external

    def classify_uses(self, start_local, src_pos):
        """Follow the value forward.  Returns (accepted:list, violations:list[(kind,pos,callee)], notes)."""
        body = self.body
        accepted = []
        violations = []
        notes = []
        seen = set()
        work = [start_local]
        while work:
            l = work.pop()
            if l in seen:
                continue
            seen.add(l)
            if l == 0:
                accepted.append(("return", None))
                continue
            uses = body.uses_of_local(l)
            for (bi, si) in uses:
                if (bi, si) == src_pos:
                    continue
                if si == "term":
                    t = body.blocks[bi]["term"]
                    if t["k"] == "call":
                        fn = t.get("fn")
                        name = fn["name"] if fn else None
                        # which argument positions read l?
                        if fn and fn["def"] == "std::ops::Try::branch":
                            accepted.append(("try", (bi, si)))
                        elif is_result_method(fn, PANICKING):
                            violations.append(("panics-on-error:" + name, (bi, si)))
                        elif is_result_method(fn, SWALLOWING):
                            violations.append(("swallows-error:" + name, (bi, si)))
                        elif is_result_method(fn, CLOSURE_HANDLED):
                            accepted.append(("handled-by-closure:" + name, (bi, si)))
                        elif is_result_method(fn, PASSTHRU):
                            accepted.append(("combinator:" + name, (bi, si)))
                            # the combinator's own result is followed as part of this value
                            if not t["dst"]["p"]:
                                work.append(t["dst"]["l"])
                        elif fn and fn["def"] in ("std::mem::drop", "std::mem::forget"):
                            violations.append(("discarded:" + name, (bi, si)))
                        elif fn and fn["name"] in ("deref", "deref_mut", "borrow", "borrow_mut", "clone", "into",
                                                   "from"):
                            if not t["dst"]["p"]:
                                work.append(t["dst"]["l"])
                        else:
                            accepted.append(("escapes-to:" + (fn["def"] if fn else "fnptr"), (bi, si)))
                            notes.append("value passed to %s at %s" % (fn["def"] if fn else "fn pointer",
                                                                       body.loc(bi, si)))
                    elif t["k"] == "switch":
                        accepted.append(("switch", (bi, si)))
                    elif t["k"] == "ret":
                        accepted.append(("return", (bi, si)))
                    continue
                s = body.blocks[bi]["stmts"][si]
                rv = s["rv"]
                dst = s["dst"]
                if rv["k"] in ("use", "ref", "copyderef", "cast", "rawptr"):
                    work.append(dst["l"])
                elif rv["k"] == "agg":
                    work.append(dst["l"])
                elif rv["k"] == "discr":
                    # manual match on the Result: the Err arm must be able to return and read the payload
                    v = self.check_manual_match(l, bi, si, dst["l"])
                    if v:
                        violations.append(v)
                    else:
                        accepted.append(("match", (bi, si)))
                else:
                    work.append(dst["l"])
        return accepted, violations, notes

    def check_manual_match(self, res_local, bi, si, discr_local):
        body = self.body
        # find the switch on the discriminant
        for (ub, us) in body.uses_of_local(discr_local):
            if us != "term":
                continue
            t = body.blocks[ub]["term"]
            if t["k"] != "switch":
                continue
            # Err has discriminant 1
            err_t = None
            for val, tgt in t["vals"]:
                if val == 1:
                    err_t = tgt
            if err_t is None:
                # `vals` may list only 0 (Ok) and send Err to otherwise
                err_t = t["else"]
            region = body.reachable(err_t)
            if not any(body.term(b)["k"] == "ret" for b in region):
                return ("error-arm-never-returns", (ub, "term"))
            return None
        return None


def never_errs(facts, term, depth=2):
    """The *resolved* callee is a local body that cannot produce Err: it builds no `Result::Err`
    aggregate and every Result it returns from another call comes from a callee that never errs."""
    fn = term.get("fn")
    if not fn:
        return None
    cid = fn.get("res") or fn["def"]
    if fn.get("res_kind") in ("unresolved", "virtual") or cid not in facts.bodies:
        return None
    cb = facts.bodies[cid]
    for bi, si, st in cb.iter_stmts():
        if st["k"] == "assign" and st["rv"]["k"] == "agg" and st["rv"].get("adt") == "std::result::Result" \
                and st["rv"].get("variant") == "Err":
            return None
    for bi, t in cb.calls():
        if result_parts(t.get("dty")) is None:
            continue
        # a Result obtained from elsewhere may flow to the return value
        if depth <= 0 or never_errs(facts, t, depth - 1) is None:
            return None
    return cb.id


def run_errdisc(facts, rule_name, description, is_external, body_filter=lambda b: True, finding_prefix="ERRDISC",
                exempt_infallible_callee=False, exempt=None):
    """Generic driver.  is_external(err_type_str, body) -> bool."""
    rr = RuleResult(rule_name, description)
    for body in facts.body_list:
        if not body_filter(body):
            continue
        ordinals = {}
        for bi, t in body.calls():
            rp = result_parts(t.get("dty"))
            if rp is None:
                continue
            ok_ty, err_ty = rp
            if not is_external(err_ty, body):
                continue
            fn = t.get("fn")
            callee = fn["def"] if fn else "<fnptr>"
            cname = fn["name"] if fn else "fnptr"
            k = (callee,)
            ordinals[k] = ordinals.get(k, 0) + 1
            ordn = ordinals[k]
            where = body.loc(bi, "term")
            sample = {"function": body.id, "site": where, "callee": callee, "error_type": err_ty}
            dst = t["dst"]
            if exempt_infallible_callee:
                ne = never_errs(facts, t)
                if ne is not None:
                    rr.ok(dict(sample, verdict="ok", uses=["exempt: resolved callee %s constructs no Err" % ne]),
                          trivial=True)
                    continue
            if exempt is not None:
                why = exempt(body, bi, t)
                if why:
                    rr.ok(dict(sample, verdict="ok", uses=["exempt: " + why]))
                    continue
            tr = Tracker(facts, body, is_external)
            if dst["p"]:
                accepted, violations, notes = [("stored-in-place", None)], [], []
            else:
                accepted, violations, notes = tr.classify_uses(dst["l"], (bi, "term"))
            # closures that receive the error must be able to return
            clos_viol = []
            if fn and is_result_method(fn, set(ERR_CLOSURE)):
                # this call *consumes* an external Result (receiver type) — examined at the source; nothing here
                pass
            if violations:
                kinds = sorted(set(v[0] for v in violations))
                pos = violations[0][1]
                rr.fail(Finding(finding_prefix, body.id, "%s->%s" % (callee, "+".join(kinds)), ordn,
                                body.loc(*pos) if pos else where,
                                "Result<_, %s> produced by %s at %s is consumed by a %s (error of an external party "
                                "converted into a panic or dropped instead of being returned)"
                                % (err_ty, callee, where, ", ".join(kinds))),
                        dict(sample, verdict="FAIL", uses=kinds))
            elif not accepted:
                rr.fail(Finding(finding_prefix, body.id, "%s->discarded" % callee, ordn, where,
                                "Result<_, %s> produced by %s at %s is never used (error silently discarded)"
                                % (err_ty, callee, where)),
                        dict(sample, verdict="FAIL", uses=["none"]))
            else:
                rr.ok(dict(sample, verdict="ok", uses=sorted(set(a[0] for a in accepted))[:4]))
        # error-receiving closures
        for bi, t in body.calls():
            fn = t.get("fn")
            if not is_result_method(fn, set(ERR_CLOSURE)):
                continue
            recv_ty = t["argtys"][0] if t.get("argtys") else None
            rp = result_parts(recv_ty)
            if rp is None or not is_external(rp[1], body):
                continue
            idx = 1
            if fn["name"] == "map_or_else":
                idx = 1  # (default: FnOnce(E), f)
            if len(t["args"]) <= idx:
                continue
            cb = closure_arg_body(facts, body, t["args"][idx])
            where = body.loc(bi, "term")
            if cb is None:
                rr.ok({"function": body.id, "site": where, "callee": fn["def"], "error_handler": "fn item / non-closure",
                       "verdict": "ok"}, trivial=True)
                continue
            if not cb.returns():
                k = ("closure", fn["name"])
                ordinals[k] = ordinals.get(k, 0) + 1
                rr.fail(Finding(finding_prefix, body.id, "%s->error-closure-diverges" % fn["name"], ordinals[k], where,
                                "the closure %s (%s) receiving an error of type %s never returns: every path ends in "
                                "a panic, so the external failure becomes a panic" % (cb.id, cb.loc(), rp[1])),
                        {"function": body.id, "site": where, "closure": cb.id, "verdict": "FAIL"})
            else:
                rr.ok({"function": body.id, "site": where, "closure": cb.id, "verdict": "ok"})
    return rr
