"""C20 — emitted bytes do not depend on optional cargo features (XCFG: cross-configuration MIR equality)."""
import hashlib
import json
import re

from .core import Finding, RuleResult, FactError
from .lib_range import decode_cond

PROPERTY = "C20"
CONFIGS_QUICK = ["F0", "F2", "F3"]   # F3: the experimental feature adds code to shared numeric routines
CONFIGS_THOROUGH = ["F0", "F1", "F2", "F3"]
TECHNIQUE = ("XCFG: normalised MIR fingerprints of the encode/serialise call-graph closure compared across the "
             "buildable feature sets, with structural obligations on the enumerated feature gates")
EXPLANATION = (
    "Decides: for every body in the call-graph closure of the encode and serialise entry points (encode_fixed_size_frame,"
    " the single-thread stream encoder, all BitRepr and Fill impls) - NOT entering the enumerated gate functions - the "
    "set of bodies and their normalised MIR (statements, terminators, resolved callees, constants, types; no spans) are "
    "identical in every analysed feature configuration (quick: {} vs default+decode vs default+decode+experimental; thorough: all four buildable "
    "sets). The gates are an explicit list, each with a structural obligation: the parallel encoder is entered only on "
    "the true edge of a test of config.multithread (then C05 applies); the experimental estimators are entered only "
    "under config.qlpc.use_direct_mse (rejected by verification without the feature, excluded by the property with it); "
    "the estimator constructor may differ only by fields that no body of the non-gated closure reads. Dependency "
    "crates' own feature unification is trusted.")
NOT_DECIDED = "feature unification inside dependency crates; simd-nightly (does not build here)"
ASSUMPTIONS = ["crates.io dependencies behave identically under the feature sets cargo selects for them"]

# bodies the closure does not enter (feature gates), with the config-flag field that must guard every call
GATE_CALLEES = {
    "par::encode_with_fixed_block_size": "multithread",
    "lpc::lpc_with_direct_mse": "use_direct_mse",
    "lpc::lpc_with_irls_mae": "use_direct_mse",
}
# bodies inside the closure that may differ, with the reason / obligation
GATE_BODIES = {
    "coding::encode_with_fixed_block_size": "contains the cfg(par) dispatch (obligation: guarded by config.multithread)",
    "lpc::LpcEstimator::<T>::new": "initialises experimental-only fields (obligation: never read in the closure)",
}
EXPERIMENTAL_FIELDS = (".lagged_outer_prod_sum", ".weights")

VOLATILE = {"line", "mac", "fn_line", "file", "lo", "hi"}


def strip(x):
    if isinstance(x, dict):
        return {k: strip(v) for k, v in x.items() if k not in VOLATILE}
    if isinstance(x, list):
        return [strip(v) for v in x]
    if isinstance(x, str) and "alloc" in x:
        return re.sub(r"alloc\d+", "alloc", x)   # allocation ids are compilation-session numbers
    return x


def fingerprint(body):
    d = {"argc": body.argc, "locals": [l["ty"] for l in body.locals], "blocks": strip(body.blocks)}
    return hashlib.sha256(json.dumps(d, sort_keys=True).encode()).hexdigest()[:20]


def roots(facts):
    out = []
    for name in ("coding::encode_fixed_size_frame", "coding::encode_with_fixed_block_size"):
        out.append(facts.body(name))
    for b in facts.body_list:
        it = b.raw.get("impl_trait")
        if it == "component::bitrepr::BitRepr":
            out.append(b)
        if it == "source::Fill" and not b.module.startswith("par"):
            out.append(b)
    return out


def closure(facts):
    """Bodies reachable from the encode/serialise roots.  Calls through a crate-local trait on a generic receiver
    (`T::method` with `T: LpcFloat`) fan out to the impls of that method whose `Self` is a primitive / reference /
    generic type, or an ADT that some body already in the closure mentions (rapid type analysis, to a fixpoint): an
    impl that overrides a provided method in one feature set only is feature-dependent code on the encode path (seeded
    C20-10), while the impls for weight types that only the gated estimators construct stay out.  Bodies of the `par`
    module are the multi-thread mode, which C05's rules cover."""
    rs = roots(facts)

    def stop(b):
        return b.id in GATE_CALLEES or b.module.startswith("par")

    seen = {}
    pending_impls = []      # (self_adt, [item ids]) waiting for their type to show up
    mentioned = set()
    dq = []

    def add(b):
        if b.id not in seen:
            seen[b.id] = b
            dq.append(b)

    for r in rs:
        add(r)
    while True:
        while dq:
            b = dq.pop()
            if stop(b):
                continue
            for l in b.locals:
                mentioned.add(l["ty"])
            for c in facts.callee_bodies(b, trait_fanout=False):
                add(c)
            for bi, t in b.calls():
                fn = t.get("fn") or {}
                if fn.get("res_kind") in ("unresolved", "virtual") and fn.get("trait") in facts.traits:
                    for imp in facts.impls_of_trait(fn["trait"]):
                        items = [it for it in imp["items"] if it.endswith("::" + fn["name"]) and it in facts.bodies]
                        if not items:
                            continue
                        if imp.get("self_adt"):
                            pending_impls.append((imp["self_adt"], items))
                        else:
                            for it in items:
                                add(facts.bodies[it])
        alltys = " ".join(mentioned)
        progressed = False
        for adt, items in pending_impls:
            if re.search(r"(?<![\w:])%s(?![\w])" % re.escape(adt), alltys):
                for it in items:
                    if it not in seen:
                        add(facts.bodies[it])
                        progressed = True
        if not progressed:
            break
    return [b for b in seen.values() if not stop(b)]


def first_diff(a, b):
    """Human-readable location of the first difference between two bodies."""
    sa, sb = strip(a.blocks), strip(b.blocks)
    if len(sa) != len(sb):
        return "block count %d vs %d" % (len(sa), len(sb))
    for i, (x, y) in enumerate(zip(sa, sb)):
        if x != y:
            if x["term"] != y["term"]:
                return "bb%d terminator (%s:%s)" % (i, a.file, a.blocks[i]["term"].get("line"))
            for j, (s, t) in enumerate(zip(x["stmts"], y["stmts"])):
                if s != t:
                    return "bb%d statement %d (%s:%s)" % (i, j, a.file, a.blocks[i]["stmts"][j].get("line"))
            return "bb%d statement count" % i
    if [l["ty"] for l in a.locals] != [l["ty"] for l in b.locals]:
        return "local types"
    return "?"


def guarded_by_flag(facts, body, bi, flag):
    """The call in block bi is dominated by the true edge of a switch on a read of `.flag`."""
    for sb in sorted(body.live):
        t = body.term(sb)
        if t["k"] != "switch" or not body.dominates(sb, bi) or sb == bi:
            continue
        hit = False
        for o in body.origins(t["d"], through_calls=[r"Deref::deref", r"::deref$"]):
            if o[0] in ("param", "local") and re.search(r"\.%s$" % flag, o[2]):
                hit = True
        if not hit:
            continue
        false_t = [tb for v, tb in t["vals"] if v == 0]
        false_t = false_t[0] if false_t else t["else"]
        true_ts = [tb for v, tb in t["vals"] if v != 0] or [t["else"]]
        reach_false = bi == false_t or bi in body.reachable(false_t)
        reach_true = any(bi == x or bi in body.reachable(x) for x in true_ts)
        if reach_true and not reach_false:
            return True
    return False


def run(facts, tier, ctx):
    # per-configuration obligations on the gates
    out = []
    g = RuleResult("XCFG/gates", "every call of a feature-gated function is control-dependent on the configuration flag "
                   "that verification forces off (or that selects the mode covered by C05)")
    n = 0
    for b in closure(facts):
        for bi, t in b.calls():
            d = (t.get("fn") or {}).get("def")
            if d in GATE_CALLEES:
                n += 1
                flag = GATE_CALLEES[d]
                where = b.loc(bi, "term")
                sample = {"config": facts.tag, "caller": b.id, "gate": d, "flag": flag, "site": where}
                if guarded_by_flag(facts, b, bi, flag):
                    g.ok(dict(sample, verdict="ok"))
                else:
                    g.fail(Finding("XCFG/gates", b.id, "ungated-call:%s" % d, 0, where,
                                   "%s is called at %s without being confined to the true edge of a test of config.%s: "
                                   "feature-dependent code runs for configurations the property covers" % (d, where, flag)),
                           dict(sample, verdict="FAIL"))
    # experimental-only fields are not read inside the closure
    for b in closure(facts):
        if b.id in GATE_BODIES:
            continue
        for bi, si, s in b.iter_stmts():
            txt = json.dumps(s)
            for f in EXPERIMENTAL_FIELDS:
                if '"%s"' % f in txt:
                    g.fail(Finding("XCFG/gates", b.id, "experimental-field-used:%s" % f, 0, b.loc(bi, si),
                                   "%s touches the experimental-only field %s outside the gated estimators" % (b.id, f)))
    g.require_floor(1 if facts.tag == "F0" else 3, "calls of gate functions in the closure")
    out.append(g)
    # the `par` feature swaps the single-thread loop for the worker pipeline (config.multithread is on by default): bytes
    # are independent of that feature only if the two modes agree - the structural clauses of C05 (which include the
    # state inventory of C10 and write == count_bits of C08)
    if any(b.module == "par" for b in facts.body_list):
        from . import c05
        out += c05.run(facts, tier, ctx)
    return out


def run_cross(all_facts, tier, ctx):
    tags = sorted(all_facts)
    if len(tags) < 2:
        raise FactError("XCFG needs at least two configurations")
    xc = RuleResult("XCFG", "the non-gated encode/serialise closure has identical bodies in all configurations")
    clos = {t: {b.id: b for b in closure(all_facts[t])} for t in tags}
    allids = set()
    for t in tags:
        allids |= set(clos[t])
    base = tags[0]
    for bid in sorted(allids):
        present = [t for t in tags if bid in clos[t]]
        if len(present) != len(tags):
            missing = [t for t in tags if bid not in clos[t]]
            # a body that exists in the crate of that configuration but is not reachable, or does not exist
            exists_elsewhere = [t for t in missing if bid in all_facts[t].bodies]
            if "::promoted[" in bid and any(bid.split("::promoted[")[0] in GATE_BODIES for _ in [0]):
                xc.ok({"body": bid, "verdict": "ok", "why": "promoted constant of a gate body"}, trivial=True)
                continue
            where = clos[present[0]][bid].loc()
            xc.fail(Finding("XCFG", bid, "reachable-only-in:%s" % "+".join(present), 0, where,
                            "%s is part of the encode/serialise closure only in %s (missing in %s%s): feature-dependent "
                            "code outside the enumerated gates" % (bid, present, missing,
                                                                   ", though the body exists there" if exists_elsewhere else "")))
            continue
        fps = {t: fingerprint(clos[t][bid]) for t in tags}
        if len(set(fps.values())) == 1:
            xc.ok({"body": bid, "fingerprint": fps[base], "configs": tags, "verdict": "ok"})
        elif bid in GATE_BODIES:
            xc.ok({"body": bid, "fingerprints": fps, "verdict": "gate", "why": GATE_BODIES[bid]}, trivial=True)
        else:
            other = [t for t in tags if fps[t] != fps[base]][0]
            where = first_diff(clos[base][bid], clos[other][bid])
            xc.fail(Finding("XCFG", bid, "mir-differs:%s-vs-%s" % (base, other), 0, clos[base][bid].loc(),
                            "the MIR of %s differs between %s and %s (first difference: %s) and the body is not an "
                            "enumerated gate: the emitted bytes may depend on the cargo features" % (bid, base, other, where)),
                    {"body": bid, "fingerprints": fps, "verdict": "FAIL"})
    xc.require_floor(250, "bodies in the encode/serialise closure")
    return [xc]
