"""C09 — no frame larger than verbatim: admission-guard provenance in the subframe chooser (GUARD)."""
import re

from .core import Finding, RuleResult, FactError, op_local, op_place
from .lib_errdisc import closure_arg_body

PROPERTY = "C09"
TECHNIQUE = ("GUARD: case-tree summary of the subframe chooser's result (effect interpreter with Option/bool combinators, "
             "match and early returns as cases) + path-condition check per leaf; GUARD/stereo: control dependence of the "
             "selected channel assignment on `<` between sums of real count_bits; the C08 size rules")
EXPLANATION = (
    "Decides the structural clause behind 'no frame larger than verbatim': the result of the subframe chooser (role: the "
    "function returning SubFrame that calls Verbatim::count_bits_from_metadata) is summarised as a case tree; every "
    "feasible leaf is a verbatim subframe, a constant subframe (exempt: 8+bps <= 8+n*bps), or a candidate C produced by a "
    "crate function whose path conditions contain `count_bits(C) < B` (or <=) with B the verbatim baseline, "
    "min(baseline, ..) or a value itself bounded that way on the path - the real size of THAT candidate, not an estimate; "
    "at least one leaf is verbatim (the fallback). The spelling does not matter: bool::then_some / Option::filter / or / "
    "unwrap_or_else chains, `match`, `if` with early return are all cases. In the stereo chooser the channel assignment "
    "differs from Independent only under a `<` comparison whose operands derive from real count_bits sums (loop with a "
    "running minimum, or an argmin fold seeded with the independent size). The guards compare count_bits values, which "
    "are emitted sizes only if write == count_bits: the C08 size rules run here too. The saturating cost tables and the "
    "2-byte slack arithmetic are NOT decided.")
NOT_DECIDED = "cost-table saturation; exact slack arithmetic; that count_bits equals the written size (C08)"
ASSUMPTIONS = ["BitRepr::count_bits is the real size (decided separately under C08)"]

SUBFRAME = "component::datatype::SubFrame"
OPT_SUBFRAME = "std::option::Option<component::datatype::SubFrame>"


def chooser(facts):
    out = []
    for b in facts.body_list:
        if b.kind != "Fn" or b.raw.get("output") != SUBFRAME:
            continue
        if any((t.get("fn") or {}).get("def", "").endswith("Verbatim::count_bits_from_metadata") for _b, t in b.calls()):
            out.append(b)
    if len(out) != 1:
        raise FactError("subframe chooser role not unique: %s" % [b.id for b in out])
    return out[0]


def depends_on_call(facts, body, op, target_bb, seen=None, depth=0):
    """Backward slice of op reaches the result of the call in block target_bb."""
    if seen is None:
        seen = set()
    if depth > 12:
        return False
    for o in body.origins(op):
        k = o[0]
        key = (k, o[1] if len(o) > 1 and not isinstance(o[1], dict) else id(o[1]))
        if key in seen:
            continue
        seen.add(key)
        if k == "call":
            if o[1] == target_bb:
                return True
            t = o[2]
            for a in t["args"]:
                if depends_on_call(facts, body, a, target_bb, seen, depth + 1):
                    return True
        elif k == "rv":
            rv = o[3]
            for kk in ("a", "b", "op"):
                if kk in rv and isinstance(rv[kk], dict) and depends_on_call(facts, body, rv[kk], target_bb, seen, depth + 1):
                    return True
        elif k == "agg":
            for a in o[3]["ops"]:
                if depends_on_call(facts, body, a, target_bb, seen, depth + 1):
                    return True
        elif k == "cast":
            for sub in o[4]:
                pass
            rv = o[3]
            if depends_on_call(facts, body, rv["op"], target_bb, seen, depth + 1):
                return True
    return False


def is_count_bits_of(body, op, value_locals):
    """op is the result of BitRepr::count_bits(&v) with v one of value_locals (through refs/copies)."""
    for o in body.origins(op):
        if o[0] != "call":
            return False
        fn = o[2].get("fn") or {}
        if fn.get("name") != "count_bits" or fn.get("trait") != "component::bitrepr::BitRepr":
            return False
        recv = o[2]["args"][0]
        base = set()
        for r in body.origins(recv):
            if r[0] in ("local", "param"):
                base.add(r[1])
            elif r[0] == "call":
                base.add(("call", r[1]))
            else:
                return False
        ok = False
        for x in base:
            if x in value_locals:
                ok = True
        if not ok:
            return False
    return True


def run(facts, tier, ctx):
    out = []
    ch = chooser(facts)
    g = RuleResult("GUARD", "every non-verbatim candidate reaches the chooser's result only through a comparison of its "
                   "real bit count with a bound derived from the verbatim baseline")
    # The chooser's result is summarised as a case tree (Option / bool combinators, `match`, early returns and `if` chains
    # all become cases).  Every leaf must be a verbatim or constant subframe, or a candidate C whose path conditions contain
    # `count_bits(C) < B` (or <=) for a bound B that is the verbatim baseline, min(baseline, ..), or a value itself known to
    # be below such a bound on that path.
    from . import lib_effect as E
    from .c11 import _leaves
    ectx = E.Ctx(facts)
    ectx.open_loops = True
    ectx.option_algebra = True
    callee_ids = set()
    for bi, t in ch.calls():
        fn = t.get("fn") or {}
        if fn.get("local") and t.get("dty") in (SUBFRAME, OPT_SUBFRAME) and fn.get("name") not in ("into", "from"):
            callee_ids.add(fn["def"])
    ectx.noinline = [r"count_bits$", r"count_bits_from_metadata$", r"from_samples$", r"is_constant", r"Constant::from_parts$"] \
        + [re.escape(c) + "$" for c in sorted(callee_ids)]
    try:
        itp = E.Interp(ectx, ch)
        itp.run()
        leaves = _leaves(itp.retval)
    except E.Undecided as e:
        g.fail(Finding("GUARD", ch.id, "undecided", 0, ch.loc(), "cannot summarise the subframe chooser: %s" % e))
        out.append(g)
        leaves = None
    is_base = lambda x: isinstance(x, tuple) and x and x[0] == "call" and x[1].endswith("Verbatim::count_bits_from_metadata")

    def bounded(x, conds, depth=0):
        """x <= verbatim baseline on this path"""
        x = E.strip_casts(x)
        if depth > 6 or not isinstance(x, tuple) or not x:
            return False
        if is_base(x):
            return True
        if x[0] == "call" and re.search(r"(^|::)min(::<\w+>)?$", x[1]) and len(x[2]) == 2:
            return any(bounded(a_, conds, depth + 1) for a_ in x[2])
        if x[0] == "case":
            return all(bounded(v, conds + ((x[1], lab if isinstance(lab, tuple) else (lab,)),), depth + 1) for lab, v in x[2])
        cx = E.canon(x)
        for c, labs in conds:
            c0 = E.strip_casts(c)
            if isinstance(c0, tuple) and c0 and c0[0] == "bin" and c0[1] in ("Lt", "Le") and labs == (1,) \
                    and E.canon(c0[2]) == cx and bounded(c0[3], conds, depth + 1):
                return True
            if isinstance(c0, tuple) and c0 and c0[0] == "bin" and c0[1] in ("Ge", "Gt") and labs == (0,) \
                    and E.canon(c0[2]) == cx and bounded(c0[3], conds, depth + 1):
                return True
        return False
    nver = 0
    for conds, leaf in (leaves or []):
        l0 = E.strip_casts(leaf)
        while isinstance(l0, tuple) and l0 and l0[0] == "call" and re.search(r"::(into|from)$", l0[1]) and len(l0[2]) == 1:
            l0 = E.strip_casts(l0[2][0])
        txt = E.canon(l0)
        if "variant-mismatch" in str(l0):
            continue            # payload of a Some taken on a path where the value is None: infeasible by construction
        if isinstance(l0, tuple) and l0[0] == "call" and re.search(r"Verbatim::from_samples$", l0[1]):
            nver += 1
            g.ok({"function": ch.id, "leaf": "verbatim", "verdict": "ok"}, trivial=True)
            continue
        if isinstance(l0, tuple) and l0[0] == "call" and re.search(r"Constant::from_parts$", l0[1]):
            g.ok({"function": ch.id, "leaf": "constant", "verdict": "ok",
                  "why": "constant subframe: exempt (8+bps <= verbatim size)"}, trivial=True)
            continue
        ok = False
        for c, labs in conds:
            c0 = E.strip_casts(c)
            if not (isinstance(c0, tuple) and c0 and c0[0] == "bin"):
                continue
            op, lhs, rhs = c0[1], E.strip_casts(c0[2]), c0[3]
            if (op in ("Lt", "Le") and labs == (1,)) or (op in ("Ge", "Gt") and labs == (0,)):
                if lhs[0] == "call" and re.search(r"BitRepr>::count_bits$", lhs[1]) and len(lhs[2]) == 1 \
                        and E.canon(lhs[2][0]) == txt and bounded(rhs, conds):
                    ok = True
        src = re.sub(r"\(.*", "", txt)[:60]
        sample = {"function": ch.id, "candidate": src}
        if ok:
            g.ok(dict(sample, verdict="ok", why="selected only under count_bits(candidate) < bound <= verbatim baseline"))
        else:
            g.fail(Finding("GUARD", ch.id, "unadmitted:%s" % src, 0, ch.loc(),
                           "the subframe chooser can return the candidate %s on a path (%s) that does not compare its real "
                           "BitRepr::count_bits with a bound derived from the verbatim baseline: a candidate selected on an "
                           "estimate can be larger than the verbatim encoding"
                           % (txt[:100], "; ".join("%s=%s" % (E.show(c)[:50], list(l)) for c, l in conds[-4:]))),
                   dict(sample, verdict="FAIL"))
    if leaves is not None:
        if nver:
            g.ok({"function": ch.id, "clause": "the fallback constructs Verbatim", "verdict": "ok"})
        else:
            g.fail(Finding("GUARD", ch.id, "fallback-not-verbatim", 0, ch.loc(),
                           "no path of the chooser returns a verbatim subframe"))
        g.require_floor(3, "leaves of the subframe chooser")
    out.append(g)

    # ------------------------------------------------------------- stereo
    st = RuleResult("GUARD/stereo", "the channel assignment differs from Independent only under a `<` comparison of real "
                    "bit counts")
    sbodies = []
    for b in facts.body_list:
        if any((t.get("fn") or {}).get("name") == "reset_channel_assignment" for _b, t in b.calls()):
            sbodies.append(b)
    for b in sbodies:
        for bi, t in b.calls():
            if (t.get("fn") or {}).get("name") != "reset_channel_assignment":
                continue
            l = op_local(t["args"][1])
            # trace through moves to the user variable
            seen = set()
            while l is not None and l not in seen:
                seen.add(l)
                ds = b.whole_defs(l)
                if len(ds) == 1 and ds[0][1] != "term":
                    rv = b.def_rvalue(ds[0])
                    if rv["k"] == "use" and op_local(rv["op"]) is not None:
                        l = op_local(rv["op"])
                        continue
                break
            defs = b.whole_defs(l)
            # `let (best, _) = candidates.fold((Independent, indep_bits), |best, (a, bits)| if bits < best.1 {..} else {best})`
            folded = False
            for (db, ds_) in defs:
                src = None
                if ds_ != "term":
                    rv0 = b.def_rvalue((db, ds_))
                    if rv0.get("k") == "use" and rv0["op"].get("pl") and rv0["op"]["pl"]["p"]:
                        src = rv0["op"]["pl"]["l"]
                for (fb_, fs_) in (b.whole_defs(src) if src is not None else []):
                    if fs_ != "term":
                        continue
                    ft = b.term(fb_)
                    ffn = ft.get("fn") or {}
                    if ffn.get("name") != "fold" or ffn.get("trait") != "std::iter::Iterator" or len(ft["args"]) != 3:
                        continue
                    folded = True
                    cl = closure_arg_body(facts, b, ft["args"][2])
                    where = b.loc(fb_, "term")
                    pa = real_size_slice(facts, b, ft["args"][0])
                    pb_ = real_size_slice(facts, b, ft["args"][1])
                    okf = cl is not None and pa[0] and pb_[0]
                    why = "fold operands are not sums of BitRepr::count_bits results: %s %s" % (pa[1], pb_[1])
                    if okf:
                        # in the closure: a result whose assignment is not the accumulator's is built only under `<`/`<=`
                        for cb_, cs_, cst in cl.iter_stmts():
                            if cst["k"] != "assign" or cst["rv"]["k"] != "agg" or cst["rv"].get("ak") != "tuple":
                                continue
                            if cl.local_ty(cst["dst"]["l"]) != cl.local_ty(0):
                                continue
                            first = cst["rv"]["ops"][0]
                            from_acc = all(o[0] == "param" and o[1] == 2 for o in cl.origins(first)) and bool(cl.origins(first))
                            if from_acc:
                                continue
                            guarded = False
                            for sb in sorted(cl.live):
                                stt = cl.term(sb)
                                if stt["k"] != "switch" or not cl.dominates(sb, cb_) or sb == cb_:
                                    continue
                                for o in cl.origins(stt["d"]):
                                    if o[0] == "rv" and o[3]["k"] == "bin" and o[3]["op"] in ("Lt", "Le"):
                                        true_t = [tb for val, tb in stt["vals"] if val == 1]
                                        true_t = true_t[0] if true_t else stt["else"]
                                        false_t = [tb for val, tb in stt["vals"] if val == 0]
                                        false_t = false_t[0] if false_t else stt["else"]
                                        oa = cl.origins(o[3]["a"])
                                        ob = cl.origins(o[3]["b"])
                                        frm = lambda os_, p: bool(os_) and all(x[0] == "param" and x[1] == p for x in os_)
                                        if (cb_ == true_t or cb_ in cl.reachable(true_t)) \
                                                and not (cb_ == false_t or cb_ in cl.reachable(false_t, removed={sb})) \
                                                and frm(oa, 3) and frm(ob, 2):
                                            guarded = True
                            if not guarded:
                                okf = False
                                why = "the fold closure replaces the best assignment at %s without a `<` between the " \
                                      "element's size and the best size" % cl.loc(cb_, cs_)
                    if okf:
                        st.ok({"function": b.id, "site": where, "assigns": "argmin fold", "verdict": "ok",
                               "why": "fold from (Independent, independent size); replaced only under element size < best size"})
                        st.ok({"function": b.id, "site": where, "assigns": "Independent (fold seed)", "verdict": "ok"}, trivial=True)
                    else:
                        st.fail(Finding("GUARD/stereo", b.id, "assignment-not-guarded-by-real-size", 0, where,
                                        "the channel assignment is chosen at %s: %s" % (where, why)))
            if folded:
                continue
            for (db, ds_) in defs:
                rv = b.def_rvalue((db, ds_))
                where = b.loc(db, ds_)
                if rv.get("k") == "agg" and rv.get("variant") == "Independent":
                    st.ok({"function": b.id, "site": where, "assigns": "Independent", "verdict": "ok"}, trivial=True)
                    continue
                # must be dominated by the true edge of Lt(x, y) with both sides from count_bits sums
                ok = False
                why = "no dominating `<` comparison"
                for sb in sorted(b.live):
                    stt = b.term(sb)
                    if stt["k"] != "switch" or not b.dominates(sb, db) or sb == db:
                        continue
                    for o in b.origins(stt["d"]):
                        if o[0] == "rv" and o[3]["k"] == "bin" and o[3]["op"] in ("Lt", "Le"):
                            true_t = None
                            for val, tb in stt["vals"]:
                                if val == 1:
                                    true_t = tb
                            if true_t is None:
                                true_t = stt["else"]
                            false_t = [tb for val, tb in stt["vals"] if val == 0]
                            false_t = false_t[0] if false_t else stt["else"]
                            if (db == true_t or db in b.reachable(true_t)) and not (db == false_t or db in b.reachable(false_t, removed={sb})):
                                pa = real_size_slice(facts, b, o[3]["a"])
                                pb_ = real_size_slice(facts, b, o[3]["b"])
                                if pa[0] and pb_[0]:
                                    ok = True
                                else:
                                    why = "comparison operands are not sums of BitRepr::count_bits results: %s %s" % (pa[1], pb_[1])
                if ok:
                    st.ok({"function": b.id, "site": where, "assigns": "non-independent", "verdict": "ok",
                           "why": "under `bits < min_bits` with both sides sums of real count_bits"})
                else:
                    st.fail(Finding("GUARD/stereo", b.id, "assignment-not-guarded-by-real-size", 0, where,
                                    "the channel assignment is changed at %s: %s" % (where, why)))
    st.require_floor(2, "definitions of the selected channel assignment")
    out.append(st)
    # the guards compare count_bits() values: those are the emitted sizes only if write == count_bits (C08)
    from . import c08
    out += c08.size_rules(facts)
    # a choice taken from what the thread encoded before (a remembered stereo decision, a memoised candidate) is not a
    # comparison of this frame's real sizes: the coding decisions must not read cross-call state (C10's history rules)
    from . import c10
    out += [r for r in c10.run(facts, tier, ctx) if r.rule in ("PLAIN-STATE", "STALE-READ")]
    return out


def real_size_slice(facts, body, op, depth=0, seen=None):
    """(ok, reason): the backward slice contains a BitRepr::count_bits call and no call to a crate function that
    is not count_bits or a plain accessor."""
    if seen is None:
        seen = {"cb": False, "bad": None, "v": set()}
    _slice(facts, body, op, seen, 0)
    if seen["bad"]:
        return False, "depends on %s" % seen["bad"]
    if not seen["cb"]:
        return False, "no count_bits in the slice"
    return True, ""


def _slice(facts, body, op, st, depth):
    if depth > 40:
        return
    pl = op_place(op)
    if pl is None:
        return
    _slice_local(facts, body, pl["l"], st, depth)


def _slice_local(facts, body, l, st, depth):
    if l in st["v"] or depth > 40:
        return
    st["v"].add(l)
    for (bi, si, whole) in body.defs.get(l, []):
        if bi not in body.live:
            continue
        if si == "term":
            t = body.term(bi)
            fn = t.get("fn") or {}
            if fn.get("name") == "count_bits" and fn.get("trait") == "component::bitrepr::BitRepr":
                st["cb"] = True
                continue
            if fn.get("local") and fn.get("def") and not fn.get("trait"):
                cid = fn["def"]
                cb = facts.bodies.get(cid)
                # plain accessors (no calls to crate functions inside) are fine
                if cb is not None and any((x.get("fn") or {}).get("local") and
                                          (x["fn"].get("name") not in ("count_bits",)) and
                                          not x["fn"]["def"].startswith("component::datatype")
                                          for _b, x in cb.calls()):
                    st["bad"] = cid
                    continue
            for a in t["args"]:
                _slice(facts, body, a, st, depth + 1)
            continue
        s = body.blocks[bi]["stmts"][si]
        if s["k"] != "assign":
            continue
        rv = s["rv"]
        for kk in ("op", "a", "b"):
            if kk in rv and isinstance(rv[kk], dict):
                _slice(facts, body, rv[kk], st, depth + 1)
        if "pl" in rv:
            _slice_local(facts, body, rv["pl"]["l"], st, depth + 1)
        for o in rv.get("ops", []):
            _slice(facts, body, o, st, depth + 1)
