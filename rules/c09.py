"""C09 — no frame larger than verbatim: admission-guard provenance in the subframe chooser (GUARD)."""
import re

from .core import Finding, RuleResult, FactError, op_local, op_place
from .lib_errdisc import closure_arg_body

PROPERTY = "C09"
TECHNIQUE = "GUARD: forward def-use tracking of candidate subframes to the return place with admission-idiom recognition"
EXPLANATION = (
    "Decides the structural clause behind 'no frame larger than verbatim': in the subframe chooser (role: the function "
    "returning SubFrame that calls Verbatim::count_bits_from_metadata) every non-verbatim, non-constant candidate "
    "(value of type SubFrame / Option<SubFrame> produced by a crate function) can reach the return place only through "
    "an admission idiom - bool::then_some / bool::then / Option::filter - whose condition is `<`/`<=` between "
    "BitRepr::count_bits of THAT candidate (its real size, not an estimate) and a bound that is data-dependent on the "
    "verbatim baseline; the fallback closure of the final unwrap_or_else constructs Verbatim; the constant subframe is "
    "exempt (8+bps <= 8+n*bps). In the stereo chooser the channel assignment differs from Independent only under a "
    "`<` comparison whose operands derive from real count_bits sums. The saturating cost tables and the 2-byte slack "
    "arithmetic are NOT decided.")
NOT_DECIDED = "cost-table saturation; exact slack arithmetic; that count_bits equals the written size (C08)"
ASSUMPTIONS = ["BitRepr::count_bits is the real size (decided separately under C08)"]

SUBFRAME = "component::datatype::SubFrame"
OPT_SUBFRAME = "std::option::Option<component::datatype::SubFrame>"


def chooser(facts):
    out = []
    for b in facts.body_list:
        if b.kind != "Fn" or b.raw.get("output") != SUBFRAME:
            continue
        if any((t.get("fn") or {}).get("def", "").endswith("Verbatim::count_bits_from_metadata") for _b, t in b.calls()):
            out.append(b)
    if len(out) != 1:
        raise FactError("subframe chooser role not unique: %s" % [b.id for b in out])
    return out[0]


def depends_on_call(facts, body, op, target_bb, seen=None, depth=0):
    """Backward slice of op reaches the result of the call in block target_bb."""
    if seen is None:
        seen = set()
    if depth > 12:
        return False
    for o in body.origins(op):
        k = o[0]
        key = (k, o[1] if len(o) > 1 and not isinstance(o[1], dict) else id(o[1]))
        if key in seen:
            continue
        seen.add(key)
        if k == "call":
            if o[1] == target_bb:
                return True
            t = o[2]
            for a in t["args"]:
                if depends_on_call(facts, body, a, target_bb, seen, depth + 1):
                    return True
        elif k == "rv":
            rv = o[3]
            for kk in ("a", "b", "op"):
                if kk in rv and isinstance(rv[kk], dict) and depends_on_call(facts, body, rv[kk], target_bb, seen, depth + 1):
                    return True
        elif k == "agg":
            for a in o[3]["ops"]:
                if depends_on_call(facts, body, a, target_bb, seen, depth + 1):
                    return True
        elif k == "cast":
            for sub in o[4]:
                pass
            rv = o[3]
            if depends_on_call(facts, body, rv["op"], target_bb, seen, depth + 1):
                return True
    return False


def is_count_bits_of(body, op, value_locals):
    """op is the result of BitRepr::count_bits(&v) with v one of value_locals (through refs/copies)."""
    for o in body.origins(op):
        if o[0] != "call":
            return False
        fn = o[2].get("fn") or {}
        if fn.get("name") != "count_bits" or fn.get("trait") != "component::bitrepr::BitRepr":
            return False
        recv = o[2]["args"][0]
        base = set()
        for r in body.origins(recv):
            if r[0] in ("local", "param"):
                base.add(r[1])
            elif r[0] == "call":
                base.add(("call", r[1]))
            else:
                return False
        ok = False
        for x in base:
            if x in value_locals:
                ok = True
        if not ok:
            return False
    return True


def run(facts, tier, ctx):
    out = []
    ch = chooser(facts)
    g = RuleResult("GUARD", "every non-verbatim candidate reaches the chooser's result only through a comparison of its "
                   "real bit count with a bound derived from the verbatim baseline")
    base_bb = [bi for bi, t in ch.calls()
               if (t.get("fn") or {}).get("def", "").endswith("Verbatim::count_bits_from_metadata")][0]

    # candidate sources
    cands = []
    for bi, t in ch.calls():
        fn = t.get("fn")
        if not fn or t.get("dty") not in (SUBFRAME, OPT_SUBFRAME):
            continue
        if not fn.get("local") or fn["name"] in ("into", "from"):
            # conversions: exempt iff from Constant / Verbatim
            if fn["name"] in ("into", "from"):
                at = (t.get("argtys") or [""])[0]
                if at.endswith("::Constant") or at.endswith("::Verbatim"):
                    g.ok({"function": ch.id, "site": ch.loc(bi, "term"), "candidate": at, "verdict": "ok",
                          "why": "constant / verbatim subframe: exempt (8+bps <= verbatim size)"}, trivial=True)
                    continue
                cands.append((bi, t))
            continue
        if fn["def"].startswith("std::") or fn["def"].startswith("core::"):
            continue
        cands.append((bi, t))

    def cond_ok(cond_op, value_locals):
        for o in ch.origins(cond_op):
            if o[0] != "rv" or o[3]["k"] != "bin" or o[3]["op"] not in ("Lt", "Le"):
                return False, "condition is not a `<`/`<=` comparison"
            a, b = o[3]["a"], o[3]["b"]
            if not is_count_bits_of(ch, a, value_locals):
                return False, "left operand is not BitRepr::count_bits of the candidate itself (an estimate?)"
            if not depends_on_call(facts, ch, b, base_bb):
                return False, "bound is not derived from the verbatim baseline"
        return True, ""

    def filter_closure_ok(cl, agg_ops):
        # closure(&x) -> count_bits(x) < captured bound
        for o in cl.place_origins({"l": 0, "p": []}):
            if o[0] != "rv" or o[3]["k"] != "bin" or o[3]["op"] not in ("Lt", "Le"):
                return False, "filter predicate is not a `<`/`<=` comparison"
            a, b = o[3]["a"], o[3]["b"]
            okc = False
            for x in cl.origins(a):
                if x[0] == "call" and (x[2].get("fn") or {}).get("name") == "count_bits" \
                        and (x[2]["fn"].get("trait") == "component::bitrepr::BitRepr"):
                    if any(r[0] == "param" and r[1] == 2 for r in cl.origins(x[2]["args"][0])):
                        okc = True
            if not okc:
                return False, "filter predicate does not take BitRepr::count_bits of the candidate"
            dep = False
            for x in cl.origins(b):
                if x[0] == "param" and x[1] == 1:
                    m = re.match(r"^\*?\.(\d+)", x[2])
                    if m and int(m.group(1)) < len(agg_ops) and depends_on_call(facts, ch, agg_ops[int(m.group(1))], base_bb):
                        dep = True
            if not dep:
                return False, "filter bound is not derived from the verbatim baseline"
        return True, ""

    for (cb, ct) in cands:
        callee = ct["fn"]["def"]
        where = ch.loc(cb, "term")
        # forward tracking
        start = ct["dst"]["l"]
        state = {}  # local -> admitted(bool)
        work = [(start, False)]
        reached_unadmitted = None
        admitted_sites = []
        refusals = []
        while work:
            l, adm = work.pop()
            if l in state and (state[l] is False or state[l] == adm):
                # already processed with an equal-or-weaker flag
                if state[l] == adm or state[l] is False:
                    continue
            state[l] = adm
            if l == 0:
                if not adm:
                    reached_unadmitted = "returned"
                continue
            for (ub, us) in ch.uses_of_local(l):
                if us == "term":
                    t = ch.term(ub)
                    if t["k"] != "call":
                        continue
                    fn = t.get("fn") or {}
                    d = fn.get("def", "")
                    name = fn.get("name")
                    vlocals = set(k for k in state)
                    if d.startswith("core::bool::<impl bool>::then_some") and op_local(t["args"][1]) == l:
                        ok, why = cond_ok(t["args"][0], vlocals | {("call", cb)})
                        if ok:
                            admitted_sites.append(ch.loc(ub, "term"))
                            work.append((t["dst"]["l"], True))
                        else:
                            refusals.append("%s: %s" % (ch.loc(ub, "term"), why))
                            work.append((t["dst"]["l"], adm))
                        continue
                    if d.startswith("std::option::Option::<T>::filter") and op_local(t["args"][0]) == l:
                        cl = closure_arg_body(facts, ch, t["args"][1])
                        agg_ops = []
                        for o in ch.origins(t["args"][1]):
                            if o[0] == "agg":
                                agg_ops = o[3]["ops"]
                        if cl is not None:
                            ok, why = filter_closure_ok(cl, agg_ops)
                        else:
                            ok, why = False, "filter predicate is not a closure"
                        if ok:
                            admitted_sites.append(ch.loc(ub, "term"))
                            work.append((t["dst"]["l"], True))
                        else:
                            refusals.append("%s: %s" % (ch.loc(ub, "term"), why))
                            work.append((t["dst"]["l"], adm))
                        continue
                    dty = t.get("dty") or ""
                    if "component::datatype::SubFrame" in dty and not t["dst"]["p"]:
                        work.append((t["dst"]["l"], adm))
                    continue
                s = ch.blocks[ub]["stmts"][us]
                if s["k"] == "assign" and s["rv"]["k"] in ("use", "ref", "copyderef", "agg", "cast"):
                    work.append((s["dst"]["l"], adm))
        sample = {"function": ch.id, "candidate_from": callee, "site": where, "admitted_at": admitted_sites}
        if reached_unadmitted:
            g.fail(Finding("GUARD", ch.id, "unadmitted:%s" % callee, 0, where,
                           "the candidate produced by %s at %s reaches the chooser's result without passing a "
                           "comparison of its real BitRepr::count_bits with a bound derived from the verbatim "
                           "baseline%s" % (callee, where, ("; refused idioms: " + "; ".join(refusals)) if refusals else
                                           " (it is selected on an estimate inside the callee and then preferred to "
                                           "verbatim)")), dict(sample, verdict="FAIL", refused=refusals))
        else:
            g.ok(dict(sample, verdict="ok"))
    g.require_floor(3, "candidate sources in the subframe chooser")

    # fallback constructs Verbatim
    fb_ok = False
    for bi, t in ch.calls():
        fn = t.get("fn") or {}
        if fn.get("def", "").startswith("std::option::Option::<T>::unwrap_or") and t["dst"]["l"] == 0:
            cl = closure_arg_body(facts, ch, t["args"][1]) if len(t["args"]) > 1 else None
            if cl is not None and any("Verbatim" in ((x.get("fn") or {}).get("def", "")) for _b, x in cl.calls()):
                fb_ok = True
    if fb_ok:
        g.ok({"function": ch.id, "clause": "the fallback of the final unwrap_or_else constructs Verbatim", "verdict": "ok"})
    else:
        g.fail(Finding("GUARD", ch.id, "fallback-not-verbatim", 0, ch.loc(),
                       "the chooser's result is not `candidates.unwrap_or_else(|| Verbatim ..)`: undecided shape"))
    out.append(g)

    # ------------------------------------------------------------- stereo
    st = RuleResult("GUARD/stereo", "the channel assignment differs from Independent only under a `<` comparison of real "
                    "bit counts")
    sbodies = []
    for b in facts.body_list:
        if any((t.get("fn") or {}).get("name") == "reset_channel_assignment" for _b, t in b.calls()):
            sbodies.append(b)
    for b in sbodies:
        for bi, t in b.calls():
            if (t.get("fn") or {}).get("name") != "reset_channel_assignment":
                continue
            l = op_local(t["args"][1])
            # trace through moves to the user variable
            seen = set()
            while l is not None and l not in seen:
                seen.add(l)
                ds = b.whole_defs(l)
                if len(ds) == 1 and ds[0][1] != "term":
                    rv = b.def_rvalue(ds[0])
                    if rv["k"] == "use" and op_local(rv["op"]) is not None:
                        l = op_local(rv["op"])
                        continue
                break
            defs = b.whole_defs(l)
            for (db, ds_) in defs:
                rv = b.def_rvalue((db, ds_))
                where = b.loc(db, ds_)
                if rv.get("k") == "agg" and rv.get("variant") == "Independent":
                    st.ok({"function": b.id, "site": where, "assigns": "Independent", "verdict": "ok"}, trivial=True)
                    continue
                # must be dominated by the true edge of Lt(x, y) with both sides from count_bits sums
                ok = False
                why = "no dominating `<` comparison"
                for sb in sorted(b.live):
                    stt = b.term(sb)
                    if stt["k"] != "switch" or not b.dominates(sb, db) or sb == db:
                        continue
                    for o in b.origins(stt["d"]):
                        if o[0] == "rv" and o[3]["k"] == "bin" and o[3]["op"] in ("Lt", "Le"):
                            true_t = None
                            for val, tb in stt["vals"]:
                                if val == 1:
                                    true_t = tb
                            if true_t is None:
                                true_t = stt["else"]
                            false_t = [tb for val, tb in stt["vals"] if val == 0]
                            false_t = false_t[0] if false_t else stt["else"]
                            if (db == true_t or db in b.reachable(true_t)) and not (db == false_t or db in b.reachable(false_t, removed={sb})):
                                pa = real_size_slice(facts, b, o[3]["a"])
                                pb_ = real_size_slice(facts, b, o[3]["b"])
                                if pa[0] and pb_[0]:
                                    ok = True
                                else:
                                    why = "comparison operands are not sums of BitRepr::count_bits results: %s %s" % (pa[1], pb_[1])
                if ok:
                    st.ok({"function": b.id, "site": where, "assigns": "non-independent", "verdict": "ok",
                           "why": "under `bits < min_bits` with both sides sums of real count_bits"})
                else:
                    st.fail(Finding("GUARD/stereo", b.id, "assignment-not-guarded-by-real-size", 0, where,
                                    "the channel assignment is changed at %s: %s" % (where, why)))
    st.require_floor(2, "definitions of the selected channel assignment")
    out.append(st)
    # the guards compare count_bits() values: those are the emitted sizes only if write == count_bits (C08)
    from . import c08
    out += c08.size_rules(facts)
    return out


def real_size_slice(facts, body, op, depth=0, seen=None):
    """(ok, reason): the backward slice contains a BitRepr::count_bits call and no call to a crate function that
    is not count_bits or a plain accessor."""
    if seen is None:
        seen = {"cb": False, "bad": None, "v": set()}
    _slice(facts, body, op, seen, 0)
    if seen["bad"]:
        return False, "depends on %s" % seen["bad"]
    if not seen["cb"]:
        return False, "no count_bits in the slice"
    return True, ""


def _slice(facts, body, op, st, depth):
    if depth > 40:
        return
    pl = op_place(op)
    if pl is None:
        return
    _slice_local(facts, body, pl["l"], st, depth)


def _slice_local(facts, body, l, st, depth):
    if l in st["v"] or depth > 40:
        return
    st["v"].add(l)
    for (bi, si, whole) in body.defs.get(l, []):
        if bi not in body.live:
            continue
        if si == "term":
            t = body.term(bi)
            fn = t.get("fn") or {}
            if fn.get("name") == "count_bits" and fn.get("trait") == "component::bitrepr::BitRepr":
                st["cb"] = True
                continue
            if fn.get("local") and fn.get("def") and not fn.get("trait"):
                cid = fn["def"]
                cb = facts.bodies.get(cid)
                # plain accessors (no calls to crate functions inside) are fine
                if cb is not None and any((x.get("fn") or {}).get("local") and
                                          (x["fn"].get("name") not in ("count_bits",)) and
                                          not x["fn"]["def"].startswith("component::datatype")
                                          for _b, x in cb.calls()):
                    st["bad"] = cid
                    continue
            for a in t["args"]:
                _slice(facts, body, a, st, depth + 1)
            continue
        s = body.blocks[bi]["stmts"][si]
        if s["k"] != "assign":
            continue
        rv = s["rv"]
        for kk in ("op", "a", "b"):
            if kk in rv and isinstance(rv[kk], dict):
                _slice(facts, body, rv[kk], st, depth + 1)
        if "pl" in rv:
            _slice_local(facts, body, rv["pl"]["l"], st, depth + 1)
        for o in rv.get("ops", []):
            _slice(facts, body, o, st, depth + 1)
