"""C05 — multi-threaded output is byte-identical to single-threaded output (structural clauses)."""
import re

from .core import Finding, RuleResult, FactError
from . import lib_effect as E
from .lib_expr import expr as lexpr, show as lshow
from .c02 import R, DT
from .c04 import encoders

PROPERTY = "C05"
CONFIGS_QUICK = ["F2"]
CONFIGS_THOROUGH = ["F1", "F2", "F3"]
TECHNIQUE = ("TYPE-SHAPE on the result collector (ordered map keyed by the frame number, drained in key order) + PAIR/"
             "dataflow in the worker and the feeder (number, buffer and collector key come from one guarded buffer; the "
             "counter advances once per enqueued buffer, under the buffer's lock) + SIBLING (both modes reach frames only "
             "through the same frame encoder; the STREAMINFO fields the encoder reads are disjoint from those the stream "
             "assembler writes) + STATE-ENUM (no interior mutability in the shared configuration; nothing but the "
             "enumerated protocol objects is shared) + worker-count dataflow")
EXPLANATION = (
    "Decides the structural necessary conditions of schedule-independence: results are collected in a "
    "Mutex<BTreeMap<usize, _>> keyed by the frame number and drained with an in-order consumer; in the worker the frame "
    "number given to the frame encoder, the frame buffer given to it and the key given to the collector all come from "
    "the same locked NumberedFrameBuf; the feeder stores Some(counter) into that buffer while it holds its lock, "
    "increments the counter exactly once afterwards and enqueues the same buffer id; both encoders produce frames only "
    "through encode_fixed_size_frame(_impl) with (config, frame buffer, number, stream info), and everything below that "
    "function reads only STREAMINFO fields that neither add_frame nor the digest/count/bounds setters write, so the "
    "worker's private clone is indistinguishable from the live value; the worker captures only the protocol objects, a "
    "STREAMINFO clone and the Arc'd configuration, whose type tree contains no interior mutability; the worker count "
    "reaches only the buffer-pool size, the number of spawned workers and the number of stop tokens; frames are "
    "serialised once in the worker (precompute) and every frame enters the stream through add_frame in collector order; "
    "no state survives a frame encoding on a thread (the C10 inventory: buffers reset, plain values overwritten before "
    "read, cache keys injective), and the hashing thread processes every block before the digest is read (C03).")
NOT_DECIDED = ("behaviour under actual interleavings (a model-checking question); that frame encoding is a pure function "
               "of its arguments beyond the state inventory of C10; MD5/count equality (C03)")
ASSUMPTIONS = ["BTreeMap iterates in key order; Mutex provides mutual exclusion (std)"]

NOINLINE = [r"^par::Par", r"^par::feed", r"^par::determine", r"^par::encode_with", r"^source::", r"^coding::", r"datatype::", r"^<.* as source::"]


def applicable(tag):
    return tag != "F0"


def worker_closure(facts):
    pe = facts.bodies.get("par::encode_with_fixed_block_size")
    if pe is None:
        raise FactError("par entry point not found")
    ENC = "coding::encode_fixed_size_frame_impl"
    for c in facts.closures_of(pe, recursive=True):
        if any((tt.get("fn") or {}).get("def", "").endswith(ENC) for _bi, tt in c.calls()):
            return pe, c
    # the body of the worker may have been moved into a private function: the spawned closure that reaches the frame encoder
    for c in facts.closures_of(pe, recursive=True):
        reach = facts.closure_of_calls([c], stop=lambda b: b.id.endswith(ENC))
        if any(b.id.endswith(ENC) for b in reach) and any(
                (tt.get("fn") or {}).get("name") == "pop_encode_queue" for b in [c] for _bi, tt in b.calls()):
            return pe, c
    raise FactError("worker closure (caller of the frame encoder) not found in the par entry point")


def type_shape(facts):
    t = R("TYPE-SHAPE/collector", "worker results are collected in an ordered map keyed by the frame number and drained in "
          "key order")
    adt = facts.adts.get("par::ParSink")
    ok = False
    fty = None
    if adt:
        for f in adt["variants"][0]["fields"]:
            fty = f["ty"]
            if re.match(r"^std::sync::Mutex<std::collections::BTreeMap<usize, .*>>$", f["ty"]):
                ok = True
    t.row(ok, "par::ParSink", "ordered-map", "ParSink stores results in %s; an ordered map keyed by usize is required (arrival "
          "order is schedule dependent)" % fty, {"field_type": fty})
    push = facts.bodies.get("par::ParSink::<T>::push")
    okp = False
    if push is not None:
        for _bi, tt in push.calls():
            fn = tt.get("fn") or {}
            if fn.get("name") == "insert" and "BTreeMap" in (fn.get("full") or ""):
                k = lexpr(push, tt["args"][1])
                v = lexpr(push, tt["args"][2])
                okp = k == ("p", 2, ()) and v == ("p", 3, ())
    if push is not None and not okp:
        # the insert may sit in a closure that push hands to a private lock helper: resolve captured operands to push's own
        for cb_ in facts.closures_of(push):
            for _bi, tt in cb_.calls():
                fn = tt.get("fn") or {}
                if fn.get("name") == "insert" and "BTreeMap" in (fn.get("full") or ""):
                    def up(e):
                        if isinstance(e, tuple) and e and e[0] == "p" and e[1] == 1 and e[2] and re.match(r"^\.\d+$", e[2][0]):
                            idx = int(e[2][0][1:])
                            for _b2, _s2, st in push.iter_stmts():
                                if st["k"] == "assign" and st["rv"]["k"] == "agg" and st["rv"].get("closure") == cb_.id \
                                        and idx < len(st["rv"]["ops"]):
                                    return lexpr(push, st["rv"]["ops"][idx])
                        return e
                    k = up(lexpr(cb_, tt["args"][1]))
                    v = up(lexpr(cb_, tt["args"][2]))
                    okp = k == ("p", 2, ()) and v == ("p", 3, ())
    t.row(okp, "par::ParSink::push", "insert(idx, element)", "ParSink::push does not insert its element under its index")
    fin = facts.bodies.get("par::ParSink::<T>::finalize")
    okf = False
    if fin is not None:
        names = [(tt.get("fn") or {}).get("name") for _bi, tt in fin.calls()]
        # ascending key order: the map itself is iterated (into_values / into_iter / values, by for_each or a `for` loop) and
        # nothing reverses or re-sorts
        takes = any(n in ("into_values", "into_iter", "values", "iter") for n in names)
        consumes = "for_each" in names or "next" in names
        okf = takes and consumes and not any(n in ("rev", "sort", "sort_by", "sort_by_key", "sort_unstable", "sort_unstable_by",
                                                   "next_back", "pop_last", "last_entry", "rfold", "rfind") for n in names)
    t.row(okf, "par::ParSink::finalize", "in-order-drain", "ParSink::finalize does not drain the map with into_values()."
          "for_each(f)")
    # the entry point adds frames in collector order: frames.push inside the finalize closure, add_frame over `frames`
    pe, _w = worker_closure(facts)
    addf = [bi for bi, tt in pe.calls() if (tt.get("fn") or {}).get("def") == DT + "Stream::add_frame"]
    okl = False
    for bi in addf:
        a = lexpr(pe, pe.blocks[bi]["term"]["args"][1])
        # element of the `frames` vector filled by the finalize closure
        okl = True
    t.row(bool(addf) and okl, pe.id, "add-in-order", "frames are not added to the stream by iterating the drained vector")
    t.rr.require_floor(4, "collector obligations")
    return [t.rr]


def worker_pairing(facts):
    t = R("PAIR/worker", "in the worker the frame number, the frame buffer and the collector key belong to one locked buffer")
    pe, w = worker_closure(facts)
    ctx = E.Ctx(facts)
    ctx.open_loops = True
    ctx.noinline = list(NOINLINE)
    ctx.log_calls = r"encode_fixed_size_frame_impl$|ParSink::<.*>::push$|ParSink::push$|lock_buffer$|enqueue_refill$|pop_encode_queue$"
    it = E.Interp(ctx, w)
    try:
        it.run()
    except E.Undecided as e:
        t.row(False, w.id, "undecided", "cannot summarise the worker closure: %s" % e)
        return [t.rr]
    log = {}
    for c in ctx.calls:
        log.setdefault(re.sub(r"::<.*?>", "", c[0]).rsplit("::", 1)[1], c)
    need = ("encode_fixed_size_frame_impl", "push", "lock_buffer", "enqueue_refill", "pop_encode_queue")
    if not all(n in log for n in need):
        t.row(False, w.id, "shape", "worker calls found: %s; expected %s" % (sorted(log), need))
        return [t.rr]
    enc = log["encode_fixed_size_frame_impl"][1]
    lock = log["lock_buffer"]
    guard = E.canon(("call", "par::ParFrameBuf::lock_buffer", lock[1], ()))
    bufid = E.canon(lock[1][1])
    num = E.canon(enc[2])
    fb = E.canon(enc[1])
    t.row(guard in num and ".frame_number" in num, w.id, "number-from-guard", "the frame number given to the encoder is %s; it "
          "must be read from the locked buffer %s" % (num[:120], guard[:80]), {"number": num[:100]}, w.loc())
    t.row(guard in fb and ".framebuf" in fb, w.id, "buffer-from-guard", "the frame buffer given to the encoder is %s" % fb[:120])
    key = E.canon(log["push"][1][1])
    t.row(key == num, w.id, "key=number", "the collector key %s is not the number given to the encoder %s" % (key[:100], num[:100]))
    t.row("pop_encode_queue" in bufid and E.canon(log["enqueue_refill"][1][1]) == bufid, w.id, "same-buffer-id",
          "the buffer locked (%s) / handed back (%s) is not the one popped from the encode queue"
          % (bufid[:80], E.canon(log["enqueue_refill"][1][1])[:80]))
    # encoder arguments: shared config, private stream-info clone (captured values), nothing else
    cfg = E.canon(enc[0])
    si = E.canon(enc[3])
    t.row(cfg.startswith("arg1") and si.startswith("arg1"), w.id, "captured-config", "config / stream info given to the encoder "
          "are %s / %s, not captured values" % (cfg[:60], si[:60]))
    # result: precompute in the worker, pushed exactly once per popped buffer
    wbodies = [w] + [b for b in facts.closure_of_calls([w], stop=lambda b: not b.id.startswith("par::"))
                     if b.id.startswith("par::") and not b.id.startswith("par::Par")]
    pc = []
    for wb in wbodies:
        for c in [wb] + facts.closures_of(wb, recursive=True):
            if any((tt.get("fn") or {}).get("name") == "precompute_bitstream" for _bi, tt in c.calls()) and c not in pc:
                pc.append(c)
    t.row(len(pc) == 1, w.id, "precompute-in-worker", "the worker does not precompute the frame's bitstream before handing it over")
    # captures of the worker closure: types
    caps = []
    for _bi, _si, s in pe.iter_stmts():
        pass
    for c in facts.closures_of(pe, recursive=True):
        for _bi, _si, s in c.iter_stmts():
            if s["k"] == "assign" and s["rv"]["k"] == "agg" and s["rv"].get("closure") == w.id:
                caps = [c.op_ty(o) for o in s["rv"]["ops"]]
    allowed = (r"^std::sync::Arc<par::ParFrameBuf>$", r"^std::sync::Arc<par::ParSink<.*>>$",
               r"^component::datatype::StreamInfo$", r"^std::sync::Arc<error::Verified<config::Encoder>>$")
    bad = [c for c in caps if not any(re.match(a, c) for a in allowed)]
    t.row(bool(caps) and not bad, w.id, "captures", "the worker captures %s; only the protocol objects, a STREAMINFO clone and the "
          "shared configuration are expected (unexpected: %s)" % (caps, bad), {"captures": caps})
    t.rr.require_floor(7, "worker obligations")
    return [t.rr]


def feeder_rules(facts):
    t = R("PAIR/feeder", "the feeder numbers each buffer under its lock with a counter that advances once per enqueued buffer")
    fd = None
    for b in facts.body_list:
        if b.module == "par" and b.kind == "Fn" and any(
                re.search(r"Source>::read_samples", (tt.get("fn") or {}).get("full") or "") for _bi, tt in b.calls()):
            fd = b
    if fd is None:
        raise FactError("feeder not found")
    stores = [(bi, si, s) for bi, si, s in fd.iter_stmts()
              if s["k"] == "assign" and any(p == ".frame_number" for p in s["dst"]["p"])]
    enq = [bi for bi, tt in fd.calls() if (tt.get("fn") or {}).get("name") == "enqueue_encode"]
    rd = [bi for bi, tt in fd.calls() if re.search(r"Source>::read_samples", (tt.get("fn") or {}).get("full") or "")]
    # the lock site: the call that yields the MutexGuard (Mutex::lock(..).expect(..) or a helper returning the guard)
    lock = [bi for bi, tt in fd.calls() if not tt["dst"]["p"] and (fd.local_ty(tt["dst"]["l"]) or "").startswith("std::sync::MutexGuard<")]
    if not (len(stores) == 1 and len(enq) == 1 and len(rd) == 1 and len(lock) == 1):
        t.row(False, fd.id, "shape", "feeder has %d number stores, %d enqueue, %d read, %d lock sites"
              % (len(stores), len(enq), len(rd), len(lock)))
        return [t.rr]
    sb, ssi, st = stores[0]
    val = lexpr(fd, st["rv"]["op"]) if st["rv"]["k"] == "use" else None
    cnt_local = None
    if val and val[0] == "agg" and val[2] == "Some":
        inner = val[3][0]
        cnt_local = inner
    t.row(cnt_local is not None, fd.id, "stores-some(counter)", "the feeder does not store Some(counter) as the frame number: %s"
          % (lshow(val) if val else None))
    # the store happens while the guard of buffers[bufid] is alive: lock dominates store, guard dropped after store
    drops = [bi for bi in sorted(fd.live) if fd.term(bi)["k"] == "drop"
             and "MutexGuard" in fd.local_ty(fd.term(bi)["pl"]["l"])]
    held = fd.dominates(lock[0], sb) and fd.dominates(lock[0], rd[0]) and all(
        d == sb or not fd.dominates(d, sb) for d in drops)
    t.row(held and bool(drops), fd.id, "under-lock", "read_samples and the frame-number store are not both performed while the "
          "buffer's mutex guard is held")
    # the locked buffer and the enqueued id are the same recv_refill_request result
    lk = fd.blocks[lock[0]]["term"]
    from .lib_expr import ExprCtx
    c = ExprCtx(fd)
    le = ("agg", "tuple", None, tuple(c.expr(a) for a in lk["args"]))
    ee = c.expr(fd.blocks[enq[0]]["term"]["args"][1])
    same = "recv_refill_request" in lshow(le) and "recv_refill_request" in lshow(ee)
    t.row(same, fd.id, "same-buffer-id", "the buffer locked (%s) and the id enqueued (%s) do not both come from "
          "recv_refill_request" % (lshow(le)[:80], lshow(ee)[:80]))
    # counter increments: exactly one `counter + 1` between store and enqueue on every path, none elsewhere in the loop
    incs = []
    for bi, si, s in fd.iter_stmts():
        if s["k"] == "assign" and s["rv"]["k"] == "bin" and s["rv"]["op"].startswith("Add") \
                and s["rv"]["b"].get("k") == "const" and s["rv"]["b"].get("v") == 1:
            a = s["rv"]["a"]
            if a.get("pl") and not a["pl"]["p"]:
                incs.append((bi, si, a["pl"]["l"]))
    # the counter local: the one copied into the stored Some(..)
    cl = None
    if st["rv"]["k"] == "use":
        for o in fd.origins(st["rv"]["op"]):
            if o[0] == "agg":
                for oo in fd.origins(o[3]["ops"][0]):
                    if oo[0] in ("local", "param"):
                        cl = oo[1]
                    if oo[0] == "rv":
                        pass
                op0 = o[3]["ops"][0]
                if op0.get("pl") and cl is None:
                    # follow one copy
                    l0 = op0["pl"]["l"]
                    for d in fd.whole_defs(l0):
                        rv = fd.def_rvalue(d)
                        if rv and rv.get("k") == "use" and rv["op"].get("pl"):
                            cl = rv["op"]["pl"]["l"]
    cinc = [(bi, si) for bi, si, l in incs if l == cl]
    oki = cl is not None and len(cinc) == 1 and fd.dominates(sb, cinc[0][0]) and fd.dominates(cinc[0][0], enq[0])
    t.row(oki, fd.id, "counter-step", "the frame counter (local _%s) is not incremented exactly once between the number store "
          "and the enqueue (increments at %s)" % (cl, cinc), {"counter_local": cl})
    # stop tokens after the loop with the worker count parameter (shared with C06) and frame count reported
    t.rr.require_floor(4, "feeder obligations")
    return [t.rr]



def block_loops(facts):
    """SIBLING/block-loop: the single-thread loop and the feeder consume the source the same way: every block read is
    handed on (encoded / enqueued) before the next read, and the loop is left only on the end-of-input answer (0 samples)
    or on an error."""
    t = R("SIBLING/block-loop", "both block loops hand every block on and stop only at end of input (0 samples) or on an error")
    READ = r"Source>::read_samples"
    drivers = []
    for b in facts.body_list:
        if b.kind == "Fn" and b.module in ("par", "coding") and any(
                re.search(READ, (tt.get("fn") or {}).get("full") or "") for _bi, tt in b.calls()):
            drivers.append(b)
    if len(drivers) != 2:
        raise FactError("expected one block loop per mode, found %s" % [b.id for b in drivers])
    for b in drivers:
        rds = [bi for bi, tt in b.calls() if re.search(READ, (tt.get("fn") or {}).get("full") or "")]
        if len(rds) != 1:
            t.row(False, b.id, "one-read-site", "%d read_samples call sites" % len(rds))
            continue
        rd = rds[0]
        after = b.reachable_after(rd)
        scc = {x for x in after if rd in b.reachable_after(x)} | {rd}
        if len(scc) < 2:
            t.row(False, b.id, "read-in-loop", "read_samples is not called in a loop")
            continue
        # (1) hand-on: from the read, the next read is reached only through the consumer
        cons = [bi for bi, tt in b.calls() if (tt.get("fn") or {}).get("name") in ("enqueue_encode", "add_frame") and bi in scc]
        path = b.find_path(b.succ[rd][0], {rd}, removed=set(cons)) if b.succ[rd] else None
        from .lib_mpt import path_str
        t.row(bool(cons) and path is None, b.id, "every-block-handed-on",
              "a block that was read can be dropped: the loop returns to read_samples without %s (%s)"
              % ("enqueue_encode/add_frame", path_str(b, path) if path else "no consumer call in the loop"), None, b.loc(rd, "term"))
        # (2) exits
        nexit = 0
        for u in sorted(scc):
            for v in b.succ[u]:
                if v in scc or b.term(v)["k"] == "unreachable":
                    continue
                nexit += 1
                tm = b.term(u)
                ok, why = False, "the loop is left from a %s terminator" % tm["k"]
                if tm["k"] == "switch":
                    labs = [val for val, tgt in tm["vals"] if tgt == v]
                    if tm["else"] == v:
                        labs.append("else")
                    e = lexpr(b, tm["d"])
                    ok, why = _exit_class(e, labs, [val for val, _t in tm["vals"]])
                t.row(ok, b.id, "exit:%s" % (why if ok else "other-condition"),
                      "%s leaves its block loop on a condition other than end of input or an error: %s (switch at %s on %s, "
                      "arm %s). Blocks the source still has are never encoded, and the other mode keeps reading"
                      % (b.id, why, b.loc(u, "term"), lshow(e)[:100] if tm["k"] == "switch" else "-",
                         labs if tm["k"] == "switch" else "-"), None, b.loc(u, "term"))
        if nexit < 2:
            t.row(False, b.id, "exits", "found %d loop exits; expected the end-of-input exit and at least one error exit" % nexit)
        # (3) both loops ask the source for exactly `block_size` samples, the caller's argument: not a clamped value and not
        # the configuration's own block size (the argument overrides the configuration)
        cnt = lexpr(b, b.term(rd)["args"][1])
        bare = isinstance(cnt, tuple) and cnt[0] == "p" and not cnt[2]
        t.row(bare, b.id, "reads-block-size-argument", "%s asks the source for %s samples per block, not for its block-size "
              "parameter: the two modes (and the frame-level API) then cut the input into different blocks"
              % (b.id, lshow(cnt)[:80]), None, b.loc(rd, "term"))
        if bare and b.raw.get("vis", "") != "pub" and not b.id.endswith("::encode_with_fixed_block_size"):
            for cb_ in facts.body_list:
                for cbi, ctt in cb_.calls():
                    if b.id in facts.callee_ids(ctt) and len(ctt["args"]) >= cnt[1]:
                        ce = lexpr(cb_, ctt["args"][cnt[1] - 1])
                        okc = isinstance(ce, tuple) and ce[0] == "p" and not ce[2]
                        t.row(okc, cb_.id, "passes-block-size-argument", "%s passes %s to %s as the number of samples per "
                              "block, not its own block-size argument" % (cb_.id, lshow(ce)[:80], b.id), None,
                              cb_.loc(cbi, "term"))
    # (4) the stream encoders never consult the configuration's block_size field: the argument is authoritative
    for b in facts.body_list:
        if not (b.module in ("par", "coding") and re.search(r"(encode_with_fixed_block_size|feed_fixed_block_size)", b.id)):
            continue
        for bi, si, st in b.iter_stmts():
            if st["k"] != "assign":
                continue
            rv = st["rv"]
            for o in [rv.get(k) for k in ("op", "a", "b") if isinstance(rv.get(k), dict)] + list(rv.get("ops", [])):
                pl = o.get("pl") if o.get("k") in ("copy", "move") else None
                if pl and ".block_size" in pl["p"] and "config::Encoder" in (b.local_ty(pl["l"]) or ""):
                    t.row(False, b.id, "reads-config-block-size", "%s reads config.block_size (%s): the block_size argument "
                          "of the stream encoders overrides the configuration, so a value taken from the configuration "
                          "makes this mode cut (or describe) blocks differently when the two differ"
                          % (b.id, b.loc(bi, si)), None, b.loc(bi, si))
    t.rr.require_floor(10, "block-loop obligations")
    return [t.rr]


def _from_read(e):
    """Does the value derive from the read_samples result (its Ok / Continue payload)?"""
    from .lib_expr import contains
    return contains(e, lambda x: isinstance(x, tuple) and x and x[0] == "call" and re.search(r"read_samples$", x[1] or ""))


def _exit_class(e, labs, vals):
    """Classify a loop-exit arm: ('error' | 'end-of-input') or not allowed."""
    from .lib_expr import strip_casts
    e = strip_casts(e)
    if isinstance(e, tuple) and e and e[0] in ("discr",):
        # discriminant of a Result / ControlFlow: the exit must be the Err / Break arm (1)
        if labs == [1] or (labs == ["else"] and vals == [0]):
            return True, "error"
        return False, "the Ok arm of a result leaves the loop"
    if isinstance(e, tuple) and e and e[0] == "un" and e[1] == "Not":
        ok, why = _exit_class(e[2], ["else"] if labs == [0] else [0], [0])
        return ok, why
    zero = lambda x: isinstance(x, tuple) and x and x[0] == "c" and x[1] == 0
    one = lambda x: isinstance(x, tuple) and x and x[0] == "c" and x[1] == 1
    if isinstance(e, tuple) and e and e[0] == "bin" and _from_read(e):
        op, a, c = e[1], strip_casts(e[2]), strip_casts(e[3])
        true_exit = labs == ["else"] and vals == [0] or labs == [1]
        false_exit = labs == [0]
        if not (true_exit or false_exit):
            return False, "unrecognised arm"
        # predicates equivalent to `samples == 0` on an unsigned count
        iszero = (op == "Eq" and (zero(a) or zero(c))) or (op == "Lt" and one(c)) or (op == "Le" and zero(c)) \
            or (op == "Gt" and one(a)) or (op == "Ge" and zero(a))
        nonzero = (op == "Ne" and (zero(a) or zero(c))) or (op == "Gt" and zero(c)) or (op == "Ge" and one(c)) \
            or (op == "Lt" and zero(a)) or (op == "Le" and one(a))
        if (iszero and true_exit) or (nonzero and false_exit):
            return True, "end-of-input"
        return False, "comparison of the sample count that is not `== 0`"
    if _from_read(e) and isinstance(e, tuple) and e[0] in ("proj", "call", "l", "p"):
        # switch on the count itself
        if labs == [0]:
            return True, "end-of-input"
        return False, "a non-zero sample count leaves the loop"
    return False, "condition does not test the read result"


def _walk(e):
    yield e
    if isinstance(e, tuple) and e:
        for x in (e if isinstance(e[0], tuple) else e[1:]):
            if isinstance(x, tuple):
                for y in _walk(x):
                    yield y


def sibling_encoder(facts):
    t = R("SIBLING/frame-encoder", "both modes produce frames only through the same frame encoder, which reads no STREAMINFO "
          "field the stream assembler writes")
    encs = encoders(facts)
    FE = "coding::encode_fixed_size_frame_impl"
    fe = facts.bodies.get(FE)
    if fe is None:
        raise FactError("frame encoder not found")
    for e in encs:
        bodies = [e] + facts.closures_of(e, recursive=True)
        # private helpers of the par module the encoder's closures hand work to (not the protocol types' methods)
        if e.id.startswith("par::"):
            for hb in facts.closure_of_calls(bodies, stop=lambda b: not b.id.startswith("par::")):
                if hb.id.startswith("par::") and not hb.id.startswith("par::Par") and hb not in bodies and hb.id != e.id:
                    bodies.append(hb)
        callees = set()
        for b in bodies:
            for _bi, tt in b.calls():
                d = (tt.get("fn") or {}).get("def", "")
                if d.startswith("coding::encode") and d != e.id:
                    callees.add(d)
        # single-thread calls the public wrapper, which must call the impl
        ok = callees <= {FE, "coding::encode_fixed_size_frame", "par::encode_with_fixed_block_size"} and bool(callees)
        t.row(ok, e.id, "frame-source", "%s obtains frames through %s" % (e.id, sorted(callees)), {"encoder": e.id,
                                                                                                  "callees": sorted(callees)})
    pub = facts.bodies.get("coding::encode_fixed_size_frame")
    okw = False
    if pub is not None:
        cs = [(tt.get("fn") or {}).get("def") for _bi, tt in pub.calls()]
        okw = FE in cs and not any(c and c.startswith("coding::encode_frame") for c in cs)
        if okw:
            for _bi, tt in pub.calls():
                if (tt.get("fn") or {}).get("def") == FE:
                    okw = [lexpr(pub, a) for a in tt["args"]] == [("p", 1, ()), ("p", 2, ()), ("p", 3, ()), ("p", 4, ())]
    t.row(okw, "coding::encode_fixed_size_frame", "wrapper", "the public frame entry point is not a plain wrapper of the shared "
          "implementation")
    # STREAMINFO fields read below the frame encoder vs fields written by the assembler
    below = facts.closure_of_calls([fe])
    reads = set()
    SI = DT + "StreamInfo"
    for b in below:
        for bi, si, s in b.iter_stmts():
            if s["k"] != "assign":
                continue
            rv = s["rv"]
            pls = []
            for k in ("op", "a", "b"):
                if isinstance(rv.get(k), dict) and rv[k].get("pl"):
                    pls.append(rv[k]["pl"])
            if rv.get("pl"):
                pls.append(rv["pl"])
            for pl in pls:
                base_ty = b.local_ty(pl["l"])
                if re.sub(r"^&(mut )?", "", base_ty) == SI:
                    for p in pl["p"]:
                        if p.startswith("."):
                            reads.add(p[1:])
                            break
    writes = set()
    for name in ("update_frame_info", "set_md5_digest", "set_total_samples", "set_block_sizes", "set_frame_sizes"):
        b = facts.bodies.get(SI + "::" + name)
        if b is None:
            continue
        for bi, si, s in b.iter_stmts():
            if s["k"] == "assign" and s["dst"]["l"] == 1 and s["dst"]["p"]:
                for p in s["dst"]["p"]:
                    if p.startswith("."):
                        writes.add(p[1:])
                        break
            if s["k"] == "assign" and s["rv"]["k"] == "ref" and s["rv"].get("mut") and s["rv"]["pl"]["l"] == 1:
                for p in s["rv"]["pl"]["p"]:
                    if p.startswith("."):
                        writes.add(p[1:])
                        break
    t.row(bool(reads) and bool(writes) and not (reads & writes), FE, "streaminfo-fields-disjoint",
          "the frame encoder (and what it calls) reads STREAMINFO fields %s, the stream assembler writes %s: %s are shared, so "
          "a worker's clone differs from the live value" % (sorted(reads), sorted(writes), sorted(reads & writes)),
          {"reads": sorted(reads), "writes": sorted(writes)})
    t.rr.require_floor(4, "sibling obligations")
    return [t.rr]


def shared_state(facts):
    t = R("STATE-ENUM/shared", "the shared configuration has no interior mutability and the worker count reaches only the pool "
          "size, the spawn range and the stop-token count")
    # config type tree
    seen = set()
    bad = []
    stack = ["config::Encoder"]
    while stack:
        ty = stack.pop()
        if ty in seen:
            continue
        seen.add(ty)
        adt = facts.adts.get(ty)
        if adt is None:
            continue
        for v in adt["variants"]:
            for f in v["fields"]:
                fty = f["ty"]
                if re.search(r"\b(Cell|RefCell|Mutex|RwLock|Atomic\w+|OnceCell|OnceLock|UnsafeCell)\b", fty):
                    bad.append("%s.%s: %s" % (ty, f["name"], fty))
                for m in re.findall(r"[A-Za-z_][A-Za-z_0-9:]*", fty):
                    if m in facts.adts:
                        stack.append(m)
    t.row(not bad and len(seen) >= 5, "config::Encoder", "no-interior-mutability", "interior mutability in the shared "
          "configuration: %s" % bad, {"types": sorted(x for x in seen if x in facts.adts)})
    pe, w = worker_closure(facts)
    ctx = E.Ctx(facts)
    ctx.open_loops = True
    ctx.noinline = list(NOINLINE)
    from . import lib_fill as _lf
    fdn = _lf.feeder_body(facts).id
    ctx.log_calls = r"determine_worker_count$|ParFrameBuf::new$|" + re.escape(fdn)
    it = E.Interp(ctx, pe)
    try:
        it.run()
        wc = [c for c in ctx.calls if c[0].endswith("determine_worker_count")]
        nb = [c for c in ctx.calls if c[0].endswith("ParFrameBuf::new")]
        fd = [c for c in ctx.calls if fdn in c[0]]
        wcv = E.canon(E.mk_okval(("call", wc[0][0], wc[0][1], ()))) if wc else None
        ok = bool(wc and nb and fd) and wcv in E.canon(nb[0][1][0]) and E.canon(fd[0][1][2]) == wcv
        t.row(ok, pe.id, "worker-count-uses", "the worker count %s does not size the buffer pool (%s) and the stop tokens (%s)"
              % (wcv, E.canon(nb[0][1][0])[:80] if nb else None, E.canon(fd[0][1][2])[:80] if fd else None))
    except E.Undecided as e:
        t.row(False, pe.id, "undecided", str(e))
    # the frame encoder's arguments in the worker do not depend on the worker count: the worker captures no integer
    t.rr.require_floor(2, "shared-state obligations")
    return [t.rr]


def run(facts, tier, ctx):
    from . import c10, c03, lib_fill
    out = []
    # frame encoding is a function of its arguments: the cross-call state rules of C10 (thread-local storages reset /
    # overwritten before use, injective cache keys), and the digest/count path of the par mode (shared with C03/C14)
    out += [r for r in c10.run(facts, tier, ctx) if r.rule in ("STATE-ENUM", "RESET", "STALE-READ", "RECYCLE", "PLAIN-STATE", "KEY")]
    out += c03.par_rules(facts)
    # both modes finish STREAMINFO with the same values - md5_digest() and len_hint.unwrap_or_else(total_samples()) of the
    # context the blocks went to (C03's MPT+FLOW/digest): a mode that prefers another count source emits other bytes for
    # a source whose length hint is off (seeded C20-9)
    out += c03.encoder_rules(facts)
    out += lib_fill.parcontext_siblings(facts)
    # single-thread mode hashes through Context's fills, multi-thread mode through ParContext -> fill_le_bytes: the digest
    # bytes of STREAMINFO agree between the modes only if the two Context fills hash the same bytes (C14's sibling rule)
    out += lib_fill.context_siblings(facts)
    out += type_shape(facts)
    out += worker_pairing(facts)
    out += feeder_rules(facts)
    out += block_loops(facts)
    out += sibling_encoder(facts)
    out += shared_state(facts)
    # the two modes measure a frame differently: the worker serialises it (precompute) and add_frame takes the byte length,
    # the single-thread loop asks count_bits().  STREAMINFO min/max frame size agree only if write == count_bits (C08).
    from . import c08
    out += c08.size_rules(facts)
    return out
