"""Symbolic expression trees of MIR operands (pure dataflow, no evaluation).

expr(body, operand) follows copies, moves, references, derefs, transparent casts and a small set of
pass-through calls back to parameters, constants, calls and arithmetic, and returns a nested tuple:

  ('c', value, cdef|None)                constant (value as exported: int / text)
  ('p', local, proj)                     place rooted at a parameter (proj: tuple of projection strings, '*' dropped)
  ('l', local, proj)                     place rooted at a local without a (single) definition
  ('call', name, (args...))              call result; name = resolved def path if known else def path
  ('bin', op, a, b)  ('un', op, a)       arithmetic / comparison (WithOverflow variants normalised, `.0` dropped)
  ('len', x)                             slice / Vec / array length  (PtrMetadata, <[T]>::len, Vec::len)
  ('cast', to, x)                        value-changing cast (IntToInt etc.)
  ('agg', adt, variant, (ops...))
  ('phi', (alts...))                     several reaching definitions
  ('?', text)                            not followed

Used by the SIBLING / LAYOUT / EFFECT style rules to compare *shapes* of values.
"""
import re

from .core import op_place

PASS_CALLS = [
    r"^<.* as std::ops::Deref>::deref$", r"^<.* as std::ops::DerefMut>::deref_mut$",
    r"^std::ops::Deref::deref$", r"^std::ops::DerefMut::deref_mut$",
    r"Vec::<T, A>::as_slice$", r"Vec::<T, A>::as_mut_slice$", r"^<.* as std::convert::AsRef<.*>>::as_ref$",
    r"^<.* as std::borrow::Borrow<.*>>::borrow$", r"^<&.* as std::ops::Deref>::deref$",
    r"^std::convert::AsRef::as_ref$", r"^<.* as std::clone::Clone>::clone$", r"^std::clone::Clone::clone$",
    r"^<.* as std::convert::Into<.*>>::into$", r"^<.* as std::convert::From<.*>>::from$",
]
LEN_CALLS = [r"^core::slice::<impl \[T\]>::len$", r"^std::vec::Vec::<T, A>::len$", r"^core::slice::<impl \[.*\]>::len$",
             r"^std::vec::Vec::<.*>::len$", r"heapless::.*::len$"]


def _name(fn):
    return fn.get("res") or fn.get("def") or "?"


def _is(fn, pats):
    n1, n2 = fn.get("res") or "", fn.get("def") or ""
    return any(re.search(p, n1) or re.search(p, n2) for p in pats)


def strip_proj(p):
    return tuple(x for x in p if x != "*")


class ExprCtx:
    def __init__(self, body, max_depth=40, pass_calls=(), opaque_calls=(), at=None):
        self.body = body
        self.at = at    # block of the use: definitions that cannot reach it are not alternatives (flow sensitivity)
        self.max_depth = max_depth
        self.pass_calls = list(PASS_CALLS) + list(pass_calls)
        self.opaque = list(opaque_calls)

    def expr(self, op, depth=0, stack=None):
        if op is None:
            return ("?", "none")
        if op.get("k") == "const":
            if "cdef" in op:
                return ("c", op.get("sv", op.get("v")), op["cdef"])
            if "closure" in op:
                return ("closure", op["closure"])
            if "def" in op:
                return ("fn", op["def"])
            if "param" in op:
                return ("cparam", op["param"])
            v = op.get("sv", op.get("v"))
            if v is None:
                v = op.get("s")
            return ("c", v, None)
        pl = op_place(op)
        if pl is None:
            return ("?", "operand")
        return self.place(pl, depth, stack or ())

    def place(self, pl, depth=0, stack=()):
        body = self.body
        l = pl["l"]
        p = list(pl["p"])
        key = (l, tuple(p))
        if depth > self.max_depth or key in stack:
            return ("l", l, strip_proj(p))
        stack = stack + (key,)
        ds = body.whole_defs(l)
        if 1 <= l <= body.argc and not ds:
            return ("p", l, strip_proj(p))
        if not ds:
            return ("l", l, strip_proj(p))
        alts = []
        if self.at is not None:
            dblocks = set(d[0] for d in ds)
            ds = [d for d in ds if d[0] == self.at or body.find_path(d[0], {self.at}) is not None]
            if 1 <= l <= body.argc and (self.at == 0 or self.at not in dblocks and
                                        body.find_path(0, {self.at}, removed=dblocks) is not None):
                alts.append(("p", l, strip_proj(p)))   # the parameter's own value still reaches the use
        for (bi, si) in ds:
            alts.append(self._def(bi, si, p, depth + 1, stack))
        uniq = []
        for a in alts:
            if a not in uniq:
                uniq.append(a)
        if len(uniq) == 1:
            return uniq[0]
        return ("phi", tuple(uniq))

    def _proj(self, e, p):
        """Apply remaining projections p to expression e."""
        p = [x for x in p if x != "*"]
        if not p:
            return e
        if e[0] in ("p", "l"):
            return (e[0], e[1], tuple(e[2]) + tuple(p))
        if e[0] == "bin" and p == [".0"]:
            return e
        if e[0] == "agg" and p and re.match(r"^\.(\d+)$", p[0]):
            i = int(p[0][1:])
            if i < len(e[3]):
                return self._proj(e[3][i], p[1:])
        if e[0] == "agg" and p and p[0].startswith("@") and len(p) >= 2 and re.match(r"^\.(\d+)$", p[1]):
            if e[2] == p[0][1:]:
                i = int(p[1][1:])
                if i < len(e[3]):
                    return self._proj(e[3][i], p[2:])
        return ("proj", e, tuple(p))

    def _def(self, bi, si, p, depth, stack):
        body = self.body
        if si == "term":
            t = body.blocks[bi]["term"]
            fn = t.get("fn")
            if not fn:
                return self._proj(("call", "<indirect>", ()), p)
            if _is(fn, self.pass_calls) and not _is(fn, self.opaque) and t["args"]:
                a0 = t["args"][0]
                if a0.get("k") in ("copy", "move"):
                    return self.place({"l": a0["pl"]["l"], "p": a0["pl"]["p"] + p}, depth, stack)
                return self._proj(self.expr(a0, depth, stack), p)
            if _is(fn, LEN_CALLS) and len(t["args"]) == 1:
                return self._proj(("len", self.expr(t["args"][0], depth, stack)), p)
            args = tuple(self.expr(a, depth, stack) for a in t["args"])
            g = tuple(fn.get("gargs") or ())
            return self._proj(("call", _name(fn), args, g), p)
        rv = body.blocks[bi]["stmts"][si]["rv"]
        k = rv["k"]
        if k == "use":
            o = rv["op"]
            if o.get("k") == "const":
                return self._proj(self.expr(o, depth, stack), p)
            return self.place({"l": o["pl"]["l"], "p": o["pl"]["p"] + p}, depth, stack)
        if k in ("ref", "copyderef", "rawptr"):
            return self.place({"l": rv["pl"]["l"], "p": rv["pl"]["p"] + p}, depth, stack)
        if k == "cast":
            inner = self.expr(rv["op"], depth, stack)
            ck = rv.get("ck", "")
            if ck.startswith("PointerCoercion") or ck in ("Transmute", "PtrToPtr"):
                return self._proj(inner, p)
            return self._proj(("cast", rv.get("to"), inner), p)
        if k == "bin":
            op = rv["op"].replace("WithOverflow", "")
            if op.endswith("Unchecked"):
                op = op[:-9]
            return self._proj(("bin", op, self.expr(rv["a"], depth, stack), self.expr(rv["b"], depth, stack)), p)
        if k == "un":
            if rv["op"] == "PtrMetadata":
                return self._proj(("len", self.expr(rv["a"], depth, stack)), p)
            return self._proj(("un", rv["op"], self.expr(rv["a"], depth, stack)), p)
        if k == "agg":
            ops = tuple(self.expr(o, depth, stack) for o in rv.get("ops", []))
            return self._proj(("agg", rv.get("adt", rv.get("ak")), rv.get("variant"), ops), p)
        if k == "discr":
            return self._proj(("discr", self.place(rv["pl"], depth, stack)), p)
        if k == "repeat":
            return self._proj(("repeat", self.expr(rv["op"], depth, stack)), p)
        return ("?", k)


def expr(body, op, **kw):
    return ExprCtx(body, **kw).expr(op)


def place_expr(body, pl, **kw):
    return ExprCtx(body, **kw).place(pl)


def show(e, depth=0):
    """Compact printable form."""
    if not isinstance(e, tuple):
        return str(e)
    k = e[0]
    if k == "c":
        return "%s" % (e[2] if e[2] else e[1],)
    if k in ("p", "l"):
        return "%s%d%s" % ("arg" if k == "p" else "_", e[1], "".join(e[2]))
    if k == "call":
        nm = e[1].split("::")[-1] if not e[1].startswith("<") else e[1]
        return "%s(%s)" % (nm, ", ".join(show(a) for a in e[2]))
    if k == "bin":
        return "(%s %s %s)" % (show(e[2]), e[1], show(e[3]))
    if k == "un":
        return "%s(%s)" % (e[1], show(e[2]))
    if k == "len":
        return "len(%s)" % show(e[1])
    if k == "cast":
        return "(%s as %s)" % (show(e[2]), e[1])
    if k == "agg":
        return "%s::%s{%s}" % (e[1], e[2], ", ".join(show(a) for a in e[3]))
    if k == "phi":
        return "phi[%s]" % " | ".join(show(a) for a in e[1])
    if k == "proj":
        return "%s%s" % (show(e[1]), "".join(e[2]))
    if k == "discr":
        return "discr(%s)" % show(e[1])
    return str(e)


def walk(e):
    """All sub-expressions (pre-order)."""
    yield e
    if not isinstance(e, tuple):
        return
    for x in e[1:]:
        if isinstance(x, tuple):
            if x and isinstance(x[0], str):
                for y in walk(x):
                    yield y
            else:
                for z in x:
                    if isinstance(z, tuple):
                        for y in walk(z):
                            yield y


def contains(e, pred):
    return any(pred(x) for x in walk(e))


def strip_casts(e):
    while isinstance(e, tuple) and e and e[0] == "cast":
        e = e[2]
    return e
