"""C03 — STREAMINFO states the true format, sample count and MD5 (structural clauses: MPT / ORDER / dataflow / SIBLING)."""
import re

from .core import Finding, RuleResult, FactError
from . import lib_effect as E
from . import lib_fill
from .lib_mpt import mpt, path_str
from .c02 import R, DT, writer, _seq
from .c04 import encoders

PROPERTY = "C03"
TECHNIQUE = ("MPT on the stream encoders (every Ok return passes the digest / total-sample stores) + dataflow identity of "
             "the stored values (EFFECT-engine call log: digest and count come from the very Context every block was "
             "delivered to; format fields come from the Source accessors) + ORDER stop -> join -> read for the hashing "
             "thread + FORWARD/SIBLING on the Fill impls + hashing-loop shape + STREAMINFO LAYOUT")
EXPLANATION = (
    "Decides, for the single-thread and the multi-thread encoder: the stream is created from src.sample_rate(), "
    "src.channels(), src.bits_per_sample(); every block the frame buffer receives is also delivered to the MD5 / count "
    "context (the read destination is the (frame buffer, context) pair and the pair / reference impls forward both fill "
    "methods to every component); on every Ok return set_md5_digest and set_total_samples are executed with "
    "context.md5_digest() resp. len_hint.unwrap_or_else(|| context.total_samples()) of that same context; in par mode "
    "the context read is the one returned by ParContext::finalize, which joins the hashing thread, and request_stop "
    "precedes it; the hashing thread leaves its loop only on the empty stop block and hashes every other block with "
    "the context's own byte width; the two Context fills update {md5, sample_count, frame_count} alike (shared with "
    "C14); STREAMINFO is written as 16/16/24/24/20/3/5/36/128 bits of exactly those fields.")
NOT_DECIDED = ("the digest value and sign extension of narrow samples; `len_hint` is trusted when the source provides one "
               "(source contract); behaviour under interleavings")
ASSUMPTIONS = ["Source::len_hint, when Some, equals the number of inter-channel samples the source delivers"]

LOG = (r"set_md5_digest$|set_total_samples$|ParContext::request_stop$|ParContext::finalize$|__FEEDER__|"
       r"Source>::read_samples|Stream::new$|Context::new$|ParContext::new$|Context::md5_digest$|Context::total_samples$|"
       r"Source>::len_hint$")
NOINLINE = [r"^par::", r"^source::", r"^coding::", r"datatype::", r"^<.* as source::"]


def applicable(tag):
    return True


def feeder_name(facts):
    try:
        return lib_fill.feeder_body(facts).id
    except FactError:
        return "<no feeder>"


def call_log(facts, body):
    ctx = E.Ctx(facts)
    ctx.open_loops = True
    ctx.log_calls = LOG.replace("__FEEDER__", re.escape(feeder_name(facts)))
    ctx.noinline = list(NOINLINE)
    ctx.option_algebra = True       # unwrap_or_else / match / if let on the length hint all become one case form
    it = E.Interp(ctx, body)
    it.run()
    seen = set()
    out = []
    for c in ctx.calls:
        k = (c[0], c[2], c[3])
        if k in seen:
            continue
        seen.add(k)
        out.append(c)
    return out, it.retval, ctx


def short(n):
    return re.sub(r"::<.*$", "", n).split("::")[-1]


def encoder_rules(facts):
    t = R("MPT+FLOW/digest", "every Ok return of a stream encoder stores the digest and the sample count of the context all "
          "blocks were delivered to, and the stream is created from the source's own format")
    encs = encoders(facts)
    want = 1 if facts.tag == "F0" else 2
    if len(encs) < want:
        raise FactError("stream encoders found: %s (expected %d)" % ([e.id for e in encs], want))
    for e in encs:
        is_par = e.id.startswith("par::")
        # ---- MPT on the raw CFG
        oks = lib_fill.ok_returns(e)
        for what in ("set_md5_digest", "set_total_samples"):
            blocks = [bi for bi, tt in e.calls() if (tt.get("fn") or {}).get("def") == DT + "StreamInfo::" + what]
            okp, path = mpt(e, blocks, 0, oks)
            t.row(bool(oks) and bool(blocks) and okp, e.id, "ok-path-passes(%s)" % what,
                  "an Ok return of %s is reachable without %s: %s" % (e.id, what, path_str(e, path) if path else "no site"),
                  {"encoder": e.id, "store": what}, e.loc())
        # ---- dataflow through the call log
        try:
            log, rv, _ctx = call_log(facts, e)
        except E.Undecided as ex:
            t.row(False, e.id, "undecided", "cannot summarise %s: %s" % (e.id, ex))
            continue
        by = {}
        for c in log:
            by.setdefault(short(c[0]), []).append(c)
        # stream creation from the source accessors
        sn = by.get("new", [])
        snew = [c for c in log if c[0].endswith("Stream::new")]
        okf = len(snew) == 1 and [E.canon(a) for a in snew[0][1]] == [
            "<T as source::Source>::sample_rate(arg2)", "<T as source::Source>::channels(arg2)",
            "<T as source::Source>::bits_per_sample(arg2)"]
        t.row(okf, e.id, "format-from-source", "Stream::new is not called with (src.sample_rate(), src.channels(), "
              "src.bits_per_sample()): %s" % ([E.show(a) for a in snew[0][1]] if snew else None), {"encoder": e.id})
        cnew = [c for c in log if c[0].endswith("source::Context::new")]
        okc = len(cnew) == 1 and [E.canon(a) for a in cnew[0][1]] == [
            "<T as source::Source>::bits_per_sample(arg2)", "<T as source::Source>::channels(arg2)"]
        t.row(okc, e.id, "context-from-source", "Context::new is not called with (src.bits_per_sample(), src.channels())")
        if not cnew:
            continue
        ctxv = ("call", "source::Context::new", cnew[0][1], ())
        ctx_key = E.canon(ctxv)
        # where the blocks go
        if is_par:
            feed = [c for c in log if feeder_name(facts) in c[0]]
            pnew = [c for c in log if c[0].endswith("ParContext::new")]
            okd = len(feed) == 1 and len(pnew) == 1 and E.canon(pnew[0][1][0]) == ctx_key \
                and E.canon(feed[0][1][4]) == E.canon(("call", "par::ParContext::new", pnew[0][1], ())) \
                and E.canon(feed[0][1][0]) == "arg2"
            t.row(okd, e.id, "blocks-reach-context", "the feeder is not given the source and the ParContext wrapping the "
                  "context whose digest is stored")
            pc_key = E.canon(("call", "par::ParContext::new", pnew[0][1], ())) if pnew else None
            fin = [c for c in log if c[0].endswith("ParContext::finalize")]
            stop = [c for c in log if c[0].endswith("ParContext::request_stop")]
            okfin = len(fin) == 1 and len(stop) == 1 and E.canon(fin[0][1][0]) == pc_key and E.canon(stop[0][1][0]) == pc_key \
                and log.index(feed[0]) < log.index(stop[0]) < log.index(fin[0]) if feed else False
            t.row(okfin, e.id, "stop-then-join", "request_stop and finalize are not applied, in this order and after feeding, "
                  "to the ParContext that received the blocks")
            read_from = E.canon(("call", "par::ParContext::finalize", fin[0][1], ())) if fin else None
        else:
            rs = [c for c in log if re.search(r"Source>::read_samples(::<.*>)?$", c[0])]
            okd = len(rs) >= 1 and all(E.canon(c[1][0]) == "arg2" for c in rs)
            if okd:
                d = E.strip_casts(rs[0][1][2])
                okd = d[0] == "agg" and d[1] == "tuple" and len(d[3]) == 2 and E.canon(d[3][1]) == ctx_key \
                    and "FrameBuf::with_size" in E.canon(d[3][0])
            t.row(okd, e.id, "blocks-reach-context", "read_samples is not given the (frame buffer, context) pair as its "
                  "destination")
            read_from = ctx_key
        md = [c for c in log if c[0].endswith("StreamInfo::set_md5_digest")]
        okm = len(md) == 1 and E.canon(md[0][1][1]) == "source::Context::md5_digest(%s)" % read_from
        t.row(okm, e.id, "digest-source", "set_md5_digest stores %s; expected md5_digest() of the context the blocks were "
              "delivered to (%s)" % (E.show(md[0][1][1])[:120] if md else None, read_from), {"encoder": e.id})
        ts = [c for c in log if c[0].endswith("StreamInfo::set_total_samples")]
        okt = False
        if len(ts) == 1:
            v = E.strip_casts(ts[0][1][1])
            if v[0] == "case":
                # case discr(src.len_hint()) { None => context.total_samples(), Some(n) => n }
                sc = E.strip_casts(v[1])
                arms = dict((lab if not isinstance(lab, tuple) else lab[0], x) for lab, x in v[2])
                hintc = "<T as source::Source>::len_hint(arg2)"
                okt = sc[0] == "discr" and E.canon(sc[1]) == hintc and set(arms) == {0, 1} \
                    and E.canon(arms[0]) == "source::Context::total_samples(%s)" % read_from \
                    and E.canon(arms[1]) == hintc + "@Some.0"
            if v[0] == "call" and re.search(r"Option::<usize>::unwrap_or_else", v[1]) and len(v[2]) == 2:
                hint, clo = v[2]
                okt = E.canon(hint) == "<T as source::Source>::len_hint(arg2)" and clo[0] == "closure"
                if okt:
                    # the fallback closure returns total_samples() of the same context
                    cb = facts.bodies.get(clo[1])
                    sub = E.Interp(E.Ctx(facts), cb, [clo]) if cb is not None else None
                    if sub is not None:
                        sub.ctx.noinline = list(NOINLINE)
                        sub.run()
                        okt = E.canon(sub.retval) == "source::Context::total_samples(%s)" % read_from
                    else:
                        okt = False
        t.row(okt, e.id, "count-source", "set_total_samples does not store len_hint.unwrap_or_else(|| context.total_samples()) "
              "of the context the blocks were delivered to", {"encoder": e.id})
    t.rr.require_floor(7 * want, "encoder obligations")
    return [t.rr]


def par_rules(facts):
    t = R("ORDER/hash-thread", "ParContext::finalize joins the hashing thread before handing the context out; the hashing "
          "loop ends only on the empty stop block; request_stop sends that block")
    fin = facts.bodies.get("par::ParContext::finalize")
    if fin is None:
        raise FactError("ParContext::finalize not found")
    joins = [bi for bi, tt in fin.calls() if (tt.get("fn") or {}).get("name") == "join"
             and "JoinHandle" in ((tt.get("fn") or {}).get("full") or "")]
    okp, path = mpt(fin, joins, 0, fin.returns())
    t.row(bool(joins) and okp, fin.id, "join-before-return", "finalize can return without joining the hashing thread: %s"
          % (path_str(fin, path) if path else "no join"), None, fin.loc())
    # the inner context is read only after the join
    inner_reads = [bi for bi, tt in fin.calls() if "into_inner" in ((tt.get("fn") or {}).get("name") or "")
                   or "destruct_arc" in ((tt.get("fn") or {}).get("def") or "")]
    t.row(bool(inner_reads) and all(any(fin.dominates(j, r) for j in joins) for r in inner_reads), fin.id, "read-after-join",
          "the shared context is taken out before the hashing thread was joined")
    # request_stop sends an empty vector
    rs = facts.bodies.get("par::ParContext::request_stop")
    oks = False
    if rs is not None:
        for bi, tt in rs.calls():
            if (tt.get("fn") or {}).get("name") == "send":
                from .lib_expr import expr as lexpr
                a = lexpr(rs, tt["args"][1])
                if a[0] == "call" and re.search(r"Vec::<u8>::new$|Vec::<T>::new$", a[1]):
                    oks = True
    t.row(oks, "par::ParContext::request_stop", "stop-token", "request_stop does not send an empty Vec as the stop block")
    # the hashing closure
    pn = facts.bodies.get("par::ParContext::new")
    hc = None
    for c in facts.closures_of(pn, recursive=True) if pn else []:
        if any((tt.get("fn") or {}).get("name") == "recv" for _bi, tt in c.calls()):
            hc = c
    if hc is None:
        t.row(False, "par::ParContext::new", "hash-closure", "hashing-thread closure not found")
        return [t.rr]
    recv = [bi for bi, tt in hc.calls() if (tt.get("fn") or {}).get("name") in ("recv", "recv_timeout", "try_recv")]
    fills = [bi for bi, tt in hc.calls() if (tt.get("fn") or {}).get("name") == "fill_le_bytes"]
    empt = [bi for bi, tt in hc.calls() if (tt.get("fn") or {}).get("name") == "is_empty"]
    okh = len(recv) == 1 and len(fills) == 1 and len(empt) == 1 \
        and (hc.blocks[recv[0]]["term"]["fn"]["name"] == "recv")
    if okh:
        # every return of the closure passes the is_empty test (the only way out of the loop)
        okp, path = mpt(hc, empt, 0, hc.returns())
        # from the receive, the next receive is reached only through the fill (every non-stop block is hashed)
        nxt = hc.find_path(hc.succ[recv[0]][0], set(recv), removed=set(fills)) if hc.succ[recv[0]] else None
        # the block reaching a return directly after is_empty is on the `true` edge
        okh = okp and nxt is None
    t.row(okh, hc.id, "loop-shape", "the hashing thread can leave its loop other than on the empty stop block, or skip "
          "hashing a received block (blocking recv, is_empty break, fill_le_bytes on every other block)", None, hc.loc())
    # single consumer: blocks reach the shared digest context in queue order only if nothing but the hashing thread feeds
    # it.  Any other body of the module that calls a Fill method on the inner `Context` (e.g. a "hash in place when the
    # queue is full" shortcut) lets a block overtake the ones still queued.
    others = []
    for b in facts.body_list:
        if not (b.id.startswith("par::") or b.id.startswith("<par::")) or b.id == hc.id:
            continue
        for bi, tt in b.calls():
            fn = tt.get("fn") or {}
            if fn.get("name") in ("fill_le_bytes", "fill_interleaved") and fn.get("trait") == "source::Fill" \
                    and re.search(r"source::Context\b", (fn.get("self_ty") or "") + " " + (fn.get("full") or "")):
                others.append((b.id, b.loc(bi, "term")))
    t.row(not others, others[0][0] if others else hc.id, "single-consumer",
          "the shared digest context is also fed outside the hashing thread (%s): that block is hashed before the blocks "
          "still waiting in the queue, so the MD5 is of a permutation of the input" % (others[:2],), {"other_feeders": others})
    t.rr.require_floor(5, "hash-thread obligations")
    return [t.rr]


def layout(facts):
    t = R("LAYOUT/streaminfo-values", "STREAMINFO carries sample_rate, channels-1, bits_per_sample-1, total_samples and the "
          "MD5 in the RFC's positions; StreamInfo::new and the setters store their arguments in those fields")
    w = writer(facts, DT + "StreamInfo")
    ev, _rv, _ = E.analyse(facts, w)
    seq = _seq(ev)
    vals = [E.canon(s[2]) for s in seq if s[0] in ("w", "bytes")]
    want = ["arg1.min_block_size", "arg1.max_block_size", "arg1.min_frame_size", "arg1.max_frame_size", "arg1.sample_rate",
            "(arg1.channels Sub 1)", "(arg1.bits_per_sample Sub 1)", "arg1.total_samples", "arg1.md5"]
    t.row(vals == want, w.id, "values", "STREAMINFO values are %s" % vals, {"values": vals}, w.loc())
    for fn, field, arg in (("set_total_samples", ".total_samples", 2), ("set_md5_digest", ".md5", 2)):
        b = facts.bodies.get(DT + "StreamInfo::" + fn)
        ok = False
        if b is not None:
            for _bi, _si, s in b.iter_stmts():
                if s["k"] == "assign" and s["dst"]["l"] == 1 and field in s["dst"]["p"]:
                    rv = s["rv"]
                    src = rv.get("op") if rv["k"] in ("use", "cast") else None
                    if src is not None and any(o[0] == "param" and o[1] == arg for o in b.origins(src)):
                        ok = True
            for _bi, tt in b.calls():
                if (tt.get("fn") or {}).get("name") == "copy_from_slice" and len(tt["args"]) == 2:
                    d = _flat(b.origins(tt["args"][0]))
                    s_ = _flat(b.origins(tt["args"][1]))
                    if any(o[0] == "param" and o[1] == 1 and field in o[2] for o in d) \
                            and any(o[0] == "param" and o[1] == arg for o in s_):
                        ok = True
        t.row(ok, DT + "StreamInfo::" + fn, "setter(%s)" % field, "%s does not store its argument in %s" % (fn, field))
    nb = facts.bodies.get(DT + "StreamInfo::new")
    okn = False
    if nb is not None:
        it = E.Interp(E.Ctx(facts), nb)
        it.ctx.open_loops = True
        try:
            it.run()
            aggs = [x for x in E.walk_expr(it.retval) if x[0] == "agg" and x[1] == DT + "StreamInfo"]
            if aggs:
                names = [f["name"] for f in facts.adts[DT + "StreamInfo"]["variants"][0]["fields"]]
                fv = dict(zip(names, aggs[0][3]))
                okn = E.canon(fv.get("sample_rate")) == "arg1" and E.canon(fv.get("channels")) == "arg2" \
                    and E.canon(fv.get("bits_per_sample")) == "arg3"
        except E.Undecided:
            okn = False
    t.row(okn, DT + "StreamInfo::new", "ctor-fields", "StreamInfo::new does not store (sample_rate, channels, bits_per_sample) "
          "in the fields of the same name")
    t.rr.require_floor(4, "streaminfo value rows")
    return [t.rr]


def _flat(origins):
    out = []
    for o in origins:
        if o[0] == "cast":
            out += _flat(o[4])
        else:
            out.append(o)
    return out


def run(facts, tier, ctx):
    out = []
    out += encoder_rules(facts)
    if facts.tag != "F0":
        out += par_rules(facts)
        out += lib_fill.parcontext_siblings(facts)
    out += lib_fill.forward_impls(facts)
    out += lib_fill.context_siblings(facts)
    out += layout(facts)
    # the digest is over samples of the byte-rounded width: a packed-byte delivery of another width must be refused
    # before it is hashed (C17 PARAMCHECK on the digest contexts)
    from . import c17
    out += [r for r in c17.run(facts, tier, ctx) if r.rule == "PARAMCHECK"]
    return out
