"""C10 — encoding is independent of call history and of the calling thread (structural clauses)."""
import re

from .core import Finding, RuleResult, FactError, op_local, op_place
from .lib_errdisc import closure_arg_body

PROPERTY = "C10"
CONFIGS_QUICK = ["F2", "F3"]   # F3 adds the experimental estimators, which have reusable buffers of their own
TECHNIQUE = ("STATE-ENUM (inventory of cross-call state from type facts), RESET (append-before-define typestate on "
             "reusable buffers, interprocedural summaries), KEY (injectivity of cache-key derivation by backward "
             "slicing), LOCKORDER (borrowed-while-calling graph acyclic)")
EXPLANATION = (
    "Decides: (STATE-ENUM) the complete inventory of state that survives a call - every `static` of the crate is either "
    "an immutable Freeze value or a thread_local! storage reached only through LocalKey::with; no static mut, no "
    "interior-mutable global: this settles the 'other thread' half of the property by construction and enumerates what "
    "the 'same thread' half has to reset; (RESET) inside every LocalKey::with closure and every crate function the "
    "storage is passed to (&mut, depth <= 5), no growable buffer is appended to (push/extend/write*/align) unless a "
    "define (clear / reset_from_* / resize / truncate / whole-field assignment) of that path or a prefix dominates it; "
    "(KEY) for every map-typed storage the key's backward slice to the lookup parameters contains only injective "
    "operations (copies, aggregates, to_bits, widening conversions, addition of a constant) - float arithmetic, "
    "float->int and narrowing casts, division, shifts and masks are reported; (LOCKORDER) the relation 'storage A is "
    "borrowed while storage B is entered' is irreflexive and acyclic; (STALE-READ) the first access of a call to the elements "
    "of a reusable buffer is a write / clear / fill, never a read (resize keeps the retained prefix). NOT decided: that the "
    "writes to a length-set (resize) buffer cover every index that is read later (runtime lengths).")
NOT_DECIDED = "complete overwrite of length-set buffers before reads; state hidden inside dependencies"
ASSUMPTIONS = ["dependency crates (crc, md-5, nom, heapless) keep no hidden mutable global state affecting results"]

APPEND = {"push", "extend", "extend_from_slice", "append", "insert", "push_str", "extend_from_within",
          "write", "write_lsbs", "write_msbs", "write_twoc", "write_zeros", "write_bytes_aligned", "align_to_byte",
          "push_back", "push_front"}
DEFINE = {"clear", "truncate", "resize", "resize_with", "reset_from_slice", "reset_from_iter_simd", "drain", "fill"}
NEUTRAL = {"reserve", "reserve_exact", "shrink_to_fit", "len", "is_empty", "capacity", "as_slice", "as_mut_slice",
           "as_ref", "as_mut", "iter", "iter_mut", "deref", "deref_mut", "index", "index_mut", "get", "get_mut",
           "borrow", "borrow_mut", "as_ref_simd", "as_mut_simd", "simd_len", "to_bitstring", "write_to_byte_slice",
           "split_at_mut", "first", "last", "clone", "contains_key", "entry"}
# crate types treated as primitive growable buffers: their methods are classified by name, not entered
OPAQUE_TYPES = ("bitsink::MemSink", "arrayutils::SimdVec")
MAP_TYPES = ("std::collections::BTreeMap<", "std::collections::HashMap<")


def storages(facts):
    """Reusable storages: consts of type LocalKey<RefCell<T>>."""
    out = {}
    for path, c in facts.consts.items():
        m = re.match(r"^std::thread::LocalKey<std::cell::RefCell<(.+)>>$", c["ty"])
        if m:
            out[path] = m.group(1)
    return out


def storage_of(facts, body, op):
    """Name of the LocalKey const an operand refers to (directly or through a promoted `&KEY`)."""
    for o in body.origins(op):
        if o[0] != "const":
            continue
        c = o[1]
        if c.get("cdef"):
            return c["cdef"]
        pid = re.sub(r"::<[^<>]*(?:<[^<>]*>[^<>]*)*>::promoted", "::promoted", c.get("s", ""))
        if c.get("promoted") and pid in facts.bodies:
            pb = facts.bodies[pid]
            for o2 in pb.place_origins({"l": 0, "p": []}):
                if o2[0] == "const" and o2[1].get("cdef"):
                    return o2[1]["cdef"]
    return None


def with_sites(facts):
    """[(user_body, bb, storage_path, outer_closure, inner_closure)]"""
    out = []
    for b in facts.body_list:
        for bi, t in b.calls():
            fn = t.get("fn") or {}
            if not fn.get("def", "").startswith("std::thread::LocalKey::<T>::with"):
                continue
            st = storage_of(facts, b, t["args"][0])
            outer = closure_arg_body(facts, b, t["args"][1])
            inner = outer
            out.append((b, bi, st, outer, inner))
    return out


def storage_roots(outer):
    """Locals of the `with` closure that hold the RefMut guard of the cell (param 2)."""
    roots = {}
    for bi, t in outer.calls():
        fn = t.get("fn") or {}
        if fn.get("def", "").startswith("std::cell::RefCell::<T>::borrow_mut") and not t["dst"]["p"]:
            if any(o[0] == "param" and o[1] == 2 for o in outer.origins(t["args"][0])):
                roots[t["dst"]["l"]] = ""
    return roots


class Reset:
    def __init__(self, facts):
        self.facts = facts
        self.memo = {}

    def ref_paths(self, body, roots, upvars=None):
        """Fixed point: local -> path (string) for locals holding a reference into the storage.
        `upvars` maps captured-variable indices of a closure body to storage paths."""
        upvars = upvars or {}
        paths = dict(roots)
        changed = True
        it = 0
        while changed and it < 50:
            changed = False
            it += 1
            for bi in sorted(body.live):
                blk = body.blocks[bi]
                for s in blk["stmts"]:
                    if s["k"] != "assign" or s["dst"]["p"]:
                        continue
                    rv = s["rv"]
                    src = None
                    pl = None
                    if rv["k"] in ("ref", "rawptr", "copyderef"):
                        pl = rv["pl"]
                    elif rv["k"] == "use":
                        pl = op_place(rv["op"])
                    if pl is not None and pl["l"] in paths:
                        src = paths[pl["l"]] + "".join(p for p in pl["p"] if p != "*")
                    elif pl is not None and pl["l"] == 1 and upvars:
                        pj = [p for p in pl["p"] if p != "*"]
                        if pj and re.match(r"^\.\d+$", pj[0]) and int(pj[0][1:]) in upvars:
                            src = upvars[int(pj[0][1:])] + "".join(pj[1:])
                    if src is not None and paths.get(s["dst"]["l"]) != src and s["dst"]["l"] not in roots:
                        paths[s["dst"]["l"]] = src
                        changed = True
                t = blk["term"]
                if t["k"] == "call" and not t["dst"]["p"] and t["args"]:
                    fn = t.get("fn") or {}
                    if fn.get("name") in ("deref_mut", "deref", "as_mut", "as_mut_slice", "borrow_mut", "as_mut_simd",
                                          "index_mut", "get_mut", "iter_mut", "split_at_mut"):
                        l = op_local(t["args"][0])
                        if l in paths and fn.get("name") in ("deref_mut", "deref") and \
                                (fn.get("self_ty") or "").startswith("std::cell::RefMut<"):
                            if paths.get(t["dst"]["l"]) != paths[l]:
                                paths[t["dst"]["l"]] = paths[l]
                                changed = True
                        elif l in paths and paths.get(t["dst"]["l"]) != paths[l] + "[view]" and "[view]" not in paths[l]:
                            paths[t["dst"]["l"]] = paths[l] + "[view]"
                            changed = True
        return paths

    def analyse(self, body, roots, depth=0, upvars=None):
        """Returns (exposed_appends, ops) where exposed_appends = [(path, description)] for appends not dominated by
        a define of the same path or a prefix within this body (or its callees)."""
        upvars = upvars or {}
        key = (body.id, tuple(sorted(roots.items())), tuple(sorted(upvars.items())))
        if key in self.memo:
            return self.memo[key]
        self.memo[key] = ([], [])
        paths = self.ref_paths(body, roots, upvars)
        ops = []  # (bb, kind, path, text)
        for bi in sorted(body.live):
            blk = body.blocks[bi]
            for si, s in enumerate(blk["stmts"]):
                if s["k"] == "assign" and s["dst"]["p"] and s["dst"]["l"] in paths:
                    pj = "".join(p for p in s["dst"]["p"] if p != "*")
                    if pj and "[" not in pj:
                        ops.append((bi, "define", paths[s["dst"]["l"]] + pj, "assignment " + body.loc(bi, si)))
                # a closure capturing a storage reference: its exposed appends happen (at the earliest) here
                if s["k"] == "assign" and s["rv"]["k"] == "agg" and s["rv"].get("ak") == "closure" and depth < 6:
                    cup = {}
                    for i, ao in enumerate(s["rv"]["ops"]):
                        al = op_local(ao)
                        if al in paths and "[view]" not in paths[al]:
                            cup[i] = paths[al]
                    ccb = self.facts.bodies.get(s["rv"]["closure"])
                    if cup and ccb is not None:
                        exp, _ = self.analyse(ccb, {}, depth + 1, cup)
                        for (cp, desc) in exp:
                            ops.append((bi, "append", cp, desc + " in closure created at " + body.loc(bi, si)))
            t = blk["term"]
            if t["k"] != "call" or not t["args"]:
                continue
            fn = t.get("fn") or {}
            name = fn.get("name", "")
            # closure invocation: Fn*::call*(closure, (args..)) -> callee parameters 2..
            if name in ("call", "call_mut", "call_once") and fn.get("res") in self.facts.bodies and len(t["args"]) == 2:
                cb = self.facts.bodies[fn["res"]]
                croots = {}
                for o in body.origins(t["args"][1]):
                    if o[0] == "agg" and o[3].get("ak") == "tuple":
                        for i, ao in enumerate(o[3]["ops"]):
                            al = op_local(ao)
                            if al in paths and "[view]" not in paths[al]:
                                croots[2 + i] = ""
                                cpath = paths[al]
                if croots and depth < 6:
                    exp, _ = self.analyse(cb, croots, depth + 1)
                    where = "closure call %s" % body.loc(bi, "term")
                    for (cp, desc) in exp:
                        ops.append((bi, "append", cpath + cp, desc + " via " + where))
                    for cp in self.callee_defines(cb, croots, depth + 1):
                        ops.append((bi, "define", cpath + cp, "define via " + where))
                    continue
            for ai, a in enumerate(t["args"]):
                l = op_local(a)
                if l is None or l not in paths:
                    continue
                p = paths[l]
                if "[view]" in p:
                    continue  # slice views cannot grow the buffer
                where = "%s %s" % (name, body.loc(bi, "term"))
                cid = None
                ids = self.facts.callee_ids(t)
                if ids:
                    cid = ids[0]
                aty = (t.get("argtys") or [""] * (ai + 1))[ai]
                if not aty.startswith("&mut") and ai != 0:
                    continue
                opaque = cid is not None and any(x in cid.split("::<")[0] or cid.startswith("<" + x) or cid.startswith(x)
                                                 for x in OPAQUE_TYPES)
                if cid is not None and depth < 5 and not opaque:
                    cb = self.facts.bodies[cid]
                    exp, _ = self.analyse(cb, {ai + 1: ""}, depth + 1)
                    defs_c = self.callee_defines(cb, {ai + 1: ""}, depth + 1)
                    for (cp, desc) in exp:
                        ops.append((bi, "append", p + cp, desc + " via " + where))
                    for cp in defs_c:
                        ops.append((bi, "define", p + cp, "define via " + where))
                    continue
                if ai != 0:
                    continue
                if name in APPEND:
                    if any(str(x).startswith(mt) for mt in MAP_TYPES for x in [fn.get("self_ty", "")]):
                        ops.append((bi, "keyed", p, where))
                    else:
                        ops.append((bi, "append", p, where))
                elif name in DEFINE:
                    ops.append((bi, "define", p, where))
        exposed = []
        for (bi, kind, p, text) in ops:
            if kind != "append":
                continue
            ok = False
            for (db, dk, dp, _t) in ops:
                if dk == "define" and (p == dp or p.startswith(dp)) and db != bi and body.dominates(db, bi):
                    ok = True
                if dk == "define" and (p == dp or p.startswith(dp)) and db == bi:
                    ok = True  # define and exposed append come from the same callee call: callee ordered them
            if not ok:
                exposed.append((p, text))
        self.memo[key] = (exposed, ops)
        return self.memo[key]

    def callee_defines(self, body, roots, depth):
        """Paths that the callee defines on every path to its returns (must-define)."""
        _exp, ops = self.analyse(body, roots, depth, None)
        out = set()
        rets = body.returns()
        for (bi, kind, p, _t) in ops:
            if kind != "define":
                continue
            blocks = [b for (b, k, pp, _x) in ops if k == "define" and pp == p]
            if body.find_path(0, set(rets), removed=set(blocks)) is None:
                out.add(p)
        return out


NONINJ_BIN = {"Div", "Rem", "Shr", "ShrUnchecked", "BitAnd", "BitOr", "BitXor", "Mul", "MulWithOverflow", "MulUnchecked",
              "Sub", "SubWithOverflow", "Shl", "ShlUnchecked"}


def key_selectors(facts, body, op):
    """Control dependence of a key component: when the operand's local is assigned on several paths, the branches that
    choose among the assignments must be matches on an enum discriminant (different variants, different keys).  A branch
    on a comparison or on a predicate call maps a whole range of parameter values to one key value."""
    pl = op_place(op)
    if pl is None:
        return []
    l = pl["l"]
    ds = [p for p in body.whole_defs(l) if p[0] in body.live]
    if len(ds) < 2:
        return []
    blocks = sorted(set(p[0] for p in ds))
    # common dominator of the defining blocks
    idom = body.idom
    def chain(b):
        out = [b]
        while idom.get(out[-1]) is not None and idom[out[-1]] != out[-1]:
            out.append(idom[out[-1]])
        return out
    chains = [chain(b) for b in blocks]
    common = None
    for x in chains[0]:
        if all(x in c for c in chains[1:]):
            common = x
            break
    if common is None:
        return []
    bad = []
    seen_sw = set()
    for c in chains:
        for x in c:
            t = body.blocks[x]["term"]
            if t["k"] == "switch" and x not in seen_sw and len(set(body.succ[x])) > 1:
                seen_sw.add(x)
                ok = False
                for o in body.origins(t["d"]):
                    if o[0] == "rv" and o[3]["k"] == "discr":
                        ok = True
                if not ok:
                    bad.append("key value chosen by a branch that is not a match on an enum variant (%s): a range of "
                               "parameter values shares one key" % body.loc(x, "term"))
            if x == common:
                break
    return bad


def key_slice(facts, body, op, depth=0, seen=None):
    """List of non-injective operations in the backward slice of `op` (empty = injective derivation)."""
    if seen is None:
        seen = set()
    bad = []
    if depth > 10:
        return ["slice too deep"]
    from .lib_cast import is_narrowing
    bad += key_selectors(facts, body, op)
    for o in body.origins(op):
        k = o[0]
        if k in ("param", "const", "local"):
            continue
        if k == "cast":
            rv = o[3]
            if rv["ck"] == "FloatToInt":
                bad.append("float->int cast (%s as %s) at %s" % (rv["from"], rv["to"], body.loc(o[1], o[2])))
            elif rv["ck"] == "IntToInt" and is_narrowing(rv["from"], rv["to"]):
                bad.append("narrowing cast (%s as %s) at %s" % (rv["from"], rv["to"], body.loc(o[1], o[2])))
            elif rv["ck"] in ("IntToFloat", "FloatToFloat"):
                bad.append("%s cast at %s" % (rv["ck"], body.loc(o[1], o[2])))
            bad += key_slice(facts, body, rv["op"], depth + 1, seen)
        elif k == "rv":
            rv = o[3]
            if rv["k"] == "bin":
                opn = rv["op"]
                tya = body.op_ty(rv["a"]) or ""
                if tya in ("f32", "f64") and opn not in ("Eq", "Ne", "Lt", "Le", "Gt", "Ge"):
                    bad.append("floating-point %s at %s" % (opn, body.loc(o[1], o[2])))
                elif opn in NONINJ_BIN:
                    bad.append("%s at %s" % (opn, body.loc(o[1], o[2])))
                elif opn in ("Add", "AddWithOverflow", "AddUnchecked"):
                    ca = rv["a"].get("k") == "const"
                    cb = rv["b"].get("k") == "const"
                    if not (ca or cb):
                        bad.append("addition of two runtime values at %s" % body.loc(o[1], o[2]))
                bad += key_slice(facts, body, rv["a"], depth + 1, seen)
                bad += key_slice(facts, body, rv["b"], depth + 1, seen)
            elif rv["k"] == "un":
                if rv["op"] not in ("Not", "Neg", "PtrMetadata"):
                    bad.append("%s at %s" % (rv["op"], body.loc(o[1], o[2])))
                bad += key_slice(facts, body, rv["a"], depth + 1, seen)
            elif rv["k"] == "discr":
                pass
        elif k == "agg":
            for a in o[3]["ops"]:
                bad += key_slice(facts, body, a, depth + 1, seen)
        elif k == "call":
            t = o[2]
            fn = t.get("fn") or {}
            cid = (facts.callee_ids(t) or [None])[0]
            name = fn.get("name", "")
            if cid is not None:
                if cid in seen:
                    continue
                seen.add(cid)
                cb = facts.bodies[cid]
                bad += key_slice(facts, cb, {"k": "copy", "pl": {"l": 0, "p": []}}, depth + 1, seen)
                for a in t["args"]:
                    bad += key_slice(facts, body, a, depth + 1, seen)
            elif name in ("to_bits", "clone", "from", "into", "borrow", "deref", "as_ref", "to_owned", "len"):
                if name in ("from", "into"):
                    # only widening / identity conversions are injective
                    src = (t.get("argtys") or ["?"])[0]
                    dst = t.get("dty") or "?"
                    if is_narrowing(src, dst):
                        bad.append("narrowing conversion %s -> %s at %s" % (src, dst, body.loc(o[1], "term")))
                for a in t["args"]:
                    bad += key_slice(facts, body, a, depth + 1, seen)
            else:
                bad.append("opaque call %s at %s" % (fn.get("def"), body.loc(o[1], "term")))
    return bad


def run(facts, tier, ctx):
    out = []
    # ----------------------------------------------------------- STATE-ENUM
    se = RuleResult("STATE-ENUM", "every static is immutable+Freeze or a thread-local reusable storage; the inventory of "
                    "cross-call state is complete")
    stor = storages(facts)
    tls = set()
    for s in facts.statics:
        where = "%s:%d" % (s["file"], s["line"])
        if s["thread_local"]:
            root = s["path"].split("::{constant#")[0]
            tls.add(root)
            if root in stor:
                se.ok({"static": s["path"], "kind": "thread_local storage", "storage": root, "verdict": "ok"},
                      trivial=(s["path"].count("closure#1") > 0))
            else:
                se.fail(Finding("STATE-ENUM", s["path"], "thread-local-outside-reusable", 0, where,
                                "thread-local static %s is not one of the LocalKey<RefCell<_>> storages" % s["path"]))
            continue
        if s["mut"]:
            se.fail(Finding("STATE-ENUM", s["path"], "static-mut", 0, where,
                            "`static mut %s` carries state across calls and threads" % s["path"]))
        elif not s["freeze"]:
            se.fail(Finding("STATE-ENUM", s["path"], "interior-mutable-static", 0, where,
                            "static %s: %s is not Freeze (interior mutability shared by all threads and calls)"
                            % (s["path"], s["ty"])))
        else:
            se.ok({"static": s["path"], "type": s["ty"], "kind": "immutable Freeze", "verdict": "ok"})
    for k in stor:
        if k not in tls:
            se.fail(Finding("STATE-ENUM", k, "storage-without-thread-local", 0, "", "storage const %s has no "
                            "thread-local backing static" % k))
    se.notes.append("reusable storages: %s" % sorted(stor))
    se.require_floor(10, "statics inventoried")
    out.append(se)

    sites = with_sites(facts)
    # every storage access goes through a recognised `with` site
    used = set(st for (_b, _bi, st, _o, _i) in sites if st)
    # ---------------------------------------------------------------- RESET
    rs = RuleResult("RESET", "no append-before-define on a reusable buffer (interprocedural, depth <= 5)")
    R = Reset(facts)
    for (b, bi, st, outer, inner) in sites:
        where = b.loc(bi, "term")
        if st is None or outer is None or inner is None:
            rs.fail(Finding("RESET", b.id, "unrecognised-storage-access", 0, where,
                            "LocalKey::with at %s does not have the reuse! shape (storage %s): undecided" % (where, st)))
            continue
        roots = storage_roots(inner)
        if not roots:
            rs.fail(Finding("RESET", inner.id, "storage-not-borrowed-mutably", 0, where,
                            "cannot find RefCell::borrow_mut on the cell in %s: undecided" % inner.id))
            continue
        exposed, ops = R.analyse(inner, roots)
        sample = {"storage": st, "type": stor.get(st), "closure": inner.id, "site": where,
                  "operations": ["%s %s%s" % (k, "storage", p) for (_b, k, p, _t) in ops][:12]}
        if exposed:
            first = {}
            for (p, text) in exposed:
                first.setdefault(p, []).append(text)
            for p, texts in sorted(first.items()):
                text = "%s%s" % (texts[0], (" and %d more append site(s)" % (len(texts) - 1)) if len(texts) > 1 else "")
                rs.fail(Finding("RESET", inner.id, "append-before-define:%s%s" % (st.split("::")[-1], p), 0, where,
                                "storage %s%s is appended to (%s) without a dominating clear/reset/resize of that "
                                "buffer in this call: what an earlier call left there leaks into this one"
                                % (st, p, text)), dict(sample, verdict="FAIL"))
        else:
            rs.ok(dict(sample, verdict="ok"))
    rs.require_floor(8, "LocalKey::with sites")
    out.append(rs)

    # ----------------------------------------------------------- STALE-READ
    sr = RuleResult("STALE-READ", "the first access a call makes to the elements of a reusable buffer is not a read "
                    "(interprocedural first-access analysis; `resize` is not a definition of the retained prefix)")
    from .lib_stale import Stale
    S = Stale(facts, OPAQUE_TYPES)
    for (b, bi, st, outer, inner) in sites:
        if st is None or outer is None or inner is None:
            continue
        where = b.loc(bi, "term")
        roots = storage_roots(inner)
        if not roots:
            continue   # reported by RESET
        if any(stor.get(st, "").startswith(m) for m in MAP_TYPES):
            sr.ok({"storage": st, "verdict": "keyed cache: decided by KEY"}, trivial=True)
            continue
        exposed, wr, ev = S.analyse(inner, roots)
        sample = {"storage": st, "type": stor.get(st), "site": where, "written_paths": sorted(wr),
                  "element_reads": sum(1 for e in ev if e[2] == "r"), "element_writes": sum(1 for e in ev if e[2] == "w")}
        if exposed:
            first = {}
            for (p, text) in exposed:
                first.setdefault(p, []).append(text)
            for p, texts in sorted(first.items()):
                sr.fail(Finding("STALE-READ", inner.id, "read-before-write:%s%s" % (st.split("::")[-1], p), 0, where,
                                "storage %s%s: elements are read (%s%s) on a path on which this call has not written or "
                                "cleared that buffer before: `resize` keeps what an earlier call on this thread left in "
                                "the retained prefix, so the earlier call's data flows into this one"
                                % (st, p, texts[0], (" and %d more read(s)" % (len(texts) - 1)) if len(texts) > 1 else "")),
                        dict(sample, verdict="FAIL"))
        else:
            sr.ok(dict(sample, verdict="ok"))
    sr.notes.append("calls treated conservatively as reads (not in the accessor tables): %s" % dict(sorted(S.unknown_calls.items())))
    sr.notes.append("decides the order of first accesses, not that the writes cover every index read later")
    sr.require_floor(8, "LocalKey::with sites")
    out.append(sr)

    # -------------------------------------------------------------- RECYCLE
    # entries taken out of a keyed cache (eviction) are dropped, never reused as a buffer: a recycled entry still holds the
    # evicted value, and `resize` keeps it.  First-access order cannot see this (the stale elements are read by a later
    # call, through the cache), so the eviction itself is the reported construct unless its result is unused.
    rc = RuleResult("RECYCLE", "no entry removed from a keyed cache is used again (evicted entries are dropped)")
    EVICT = {"pop_first", "pop_last", "remove", "remove_entry", "take", "split_off", "drain", "extract_if", "pop",
             "swap_remove", "first_entry", "last_entry"}
    nmap = 0
    for (b, bi, st, outer, inner) in sites:
        if st is None or inner is None or not any(stor.get(st, "").startswith(m) for m in MAP_TYPES):
            continue
        nmap += 1
        reach = facts.closure_of_calls([inner])
        found = False
        for rb in reach:
            for rbi, t in rb.calls():
                fn = t.get("fn") or {}
                if fn.get("name") in EVICT and any(str(fn.get("self_ty") or fn.get("full") or "").startswith(mt.rstrip("<"))
                                                   or mt.split("::")[-1].rstrip("<") in str(fn.get("full") or "")
                                                   for mt in MAP_TYPES):
                    dl = t["dst"]["l"]
                    uses = rb.uses_of_local(dl) if not t["dst"]["p"] else [(rbi, "term")]
                    if uses:
                        found = True
                        rc.fail(Finding("RECYCLE", rb.id, "evicted-entry-reused:%s" % st.split("::")[-1], 0, rb.loc(rbi, "term"),
                                        "%s takes an entry out of the keyed cache %s with `%s` and uses it afterwards (%s): a "
                                        "recycled entry still holds the value it cached, `resize` keeps that content, and "
                                        "whatever is not overwritten becomes part of another key's entry - the result then "
                                        "depends on which entries this thread happened to cache before"
                                        % (rb.id, st, fn.get("name"), rb.loc(uses[0][0], uses[0][1]))))
        if not found:
            rc.ok({"storage": st, "verdict": "no entry is removed and reused"})
    rc.require_floor(1, "keyed caches")
    out.append(rc)

    # ---------------------------------------------------------- PLAIN-STATE
    ps = RuleResult("PLAIN-STATE", "a reusable storage holding a plain value (no growable buffer) is overwritten as a whole "
                    "before it is read in every call")
    GROW = re.compile(r"Vec<|SimdVec<|MemSink<|BTreeMap<|HashMap<|VecDeque<|String")

    def has_growable(ty, depth=0):
        if GROW.search(ty):
            return True
        if depth > 3:
            return False
        for m in re.findall(r"[A-Za-z_][A-Za-z_0-9:]*", ty):
            adt = facts.adts.get(m)
            if adt:
                for v in adt["variants"]:
                    for f in v["fields"]:
                        if has_growable(f["ty"], depth + 1):
                            return True
        return False
    nplain = 0
    for (b, bi, st, outer, inner) in sites:
        if st is None or inner is None:
            continue
        ty = stor.get(st, "")
        if has_growable(ty):
            ps.ok({"storage": st, "type": ty, "verdict": "buffer storage: decided by RESET"}, trivial=True)
            continue
        nplain += 1
        where = b.loc(bi, "term")
        # the user closure invoked with the storage reference
        users = []
        for ibi, t in inner.calls():
            fn = t.get("fn") or {}
            if fn.get("name") in ("call", "call_mut", "call_once") and fn.get("res") in facts.bodies:
                users.append(facts.bodies[fn["res"]])
        if len(users) != 1:
            ps.fail(Finding("PLAIN-STATE", inner.id, "unrecognised-access:%s" % st.split("::")[-1], 0, where,
                            "cannot find the closure that receives storage %s" % st))
            continue
        u = users[0]
        paths = R.ref_paths(u, {2: ""}, None)
        defs = []
        reads = []
        for ubi in sorted(u.live):
            blk = u.blocks[ubi]
            for si, s2 in enumerate(blk["stmts"]):
                if s2["k"] != "assign":
                    continue
                d = s2["dst"]
                if d["l"] in paths and d["p"] and all(p == "*" for p in d["p"]) and paths[d["l"]] == "":
                    defs.append((ubi, si))
                rv = s2["rv"]
                ops_ = [rv[k] for k in ("op", "a", "b") if isinstance(rv.get(k), dict)] + list(rv.get("ops", []))
                for o in ops_:
                    pl = op_place(o)
                    if pl is not None and pl["l"] in paths and "*" in pl["p"]:
                        reads.append((ubi, si, "read of the stored value"))
                if rv["k"] == "discr" and rv["pl"]["l"] in paths:
                    reads.append((ubi, si, "match on the stored value"))
                if rv["k"] == "copyderef" and rv["pl"]["l"] in paths:
                    pass
            t = blk["term"]
            if t["k"] == "call":
                for a in t["args"]:
                    l = op_local(a)
                    if l in paths and l != 2:
                        reads.append((ubi, "term", "passed to %s" % ((t.get("fn") or {}).get("name"))))
                    elif l == 2:
                        reads.append((ubi, "term", "passed to %s" % ((t.get("fn") or {}).get("name"))))
            if t["k"] == "switch":
                pl = op_place(t["d"])
                if pl is not None and pl["l"] in paths and "*" in pl["p"]:
                    reads.append((ubi, "term", "branch on the stored value"))
        bad = [r for r in reads if not any(u.pos_dominates(dp, (r[0], r[1])) and dp != (r[0], r[1]) for dp in defs)]
        if bad:
            ps.fail(Finding("PLAIN-STATE", u.id, "read-before-overwrite:%s" % st.split("::")[-1], 0, u.loc(bad[0][0], bad[0][1]),
                            "storage %s: %s is read (%s at %s) before this call has overwritten it: the value an earlier "
                            "call on this thread left there influences this call" % (st, ty, bad[0][2], u.loc(bad[0][0], bad[0][1]))),
                    {"storage": st, "type": ty, "verdict": "FAIL"})
        else:
            ps.ok({"storage": st, "type": ty, "verdict": "ok", "whole_stores": len(defs), "reads": len(reads)})
    ps.notes.append("plain-value storages on this tree: %d" % nplain)
    ps.require_floor(8, "LocalKey::with sites")
    out.append(ps)

    # ------------------------------------------------------------------ KEY
    ky = RuleResult("KEY", "cache keys of map-typed storages are derived injectively from the lookup parameters")
    for (b, bi, st, outer, inner) in sites:
        if st is None or inner is None or not any(stor.get(st, "").startswith(m) for m in MAP_TYPES):
            continue
        # key operands of get/insert/contains_key/entry/remove on the storage
        keys = []
        R2 = Reset(facts)
        R2.analyse(inner, storage_roots(inner))
        user = None
        for (bid, rts, ups) in list(R2.memo):
            ub_ = facts.bodies[bid]
            paths = R2.ref_paths(ub_, dict(rts), dict(ups))
            for ib, t in ub_.calls():
                fn = t.get("fn") or {}
                if fn.get("name") in ("get", "insert", "contains_key", "entry", "remove", "get_mut") and t["args"] \
                        and any((fn.get("self_ty") or "").startswith(mt) for mt in MAP_TYPES):
                    l = op_local(t["args"][0])
                    if l in paths:
                        keys.append((ib, t["args"][1]))
                        user = ub_
        if user is not None:
            inner = user
        if not keys:
            ky.fail(Finding("KEY", inner.id, "no-key-operations", 0, inner.loc(), "map storage %s is never looked up: "
                            "undecided shape" % st))
            continue
        # keys are captured from the parent: resolve upvars
        for (ib, kop) in keys:
            bad = []
            for o in inner.origins(kop, through_calls=[r"Clone::clone", r"::clone$"]):
                if o[0] == "param" and o[1] == 1:
                    m = re.match(r"^\*?\.(\d+)", o[2])
                    # find the closure aggregates up to the function that built the key
                    chain = [inner]
                    cur = inner
                    idx = int(m.group(1)) if m else None
                    resolved = False
                    while cur is not None and idx is not None:
                        parent = facts.bodies.get(cur.raw.get("parent"))
                        if parent is None:
                            break
                        nxt = None
                        for pb, ps, pst in parent.iter_stmts():
                            if pst["k"] == "assign" and pst["rv"]["k"] == "agg" and pst["rv"].get("closure") == cur.id:
                                opx = pst["rv"]["ops"][idx]
                                por = parent.origins(opx, through_calls=[r"Clone::clone", r"::clone$"])
                                if all(x[0] == "param" and x[1] == 1 for x in por) and parent.kind == "Closure":
                                    mm = re.match(r"^\*?\.(\d+)", por[0][2])
                                    nxt = (parent, int(mm.group(1)) if mm else None)
                                else:
                                    bad += key_slice(facts, parent, opx)
                                    resolved = True
                        if resolved or nxt is None:
                            break
                        cur, idx = nxt
                    if not resolved:
                        bad.append("cannot resolve the captured key to its construction")
                else:
                    bad += key_slice(facts, inner, kop)
            where = inner.loc(ib, "term")
            sample = {"storage": st, "lookup": where}
            bad = sorted(set(bad))
            if bad:
                ky.fail(Finding("KEY", inner.id, "non-injective-key:%s" % st.split("::")[-1], 0, where,
                                "the key used at %s for cache %s is derived through non-injective operations: %s. Two "
                                "different parameter values can share one cache entry, so the result of a call depends "
                                "on which value was seen first on this thread" % (where, st, "; ".join(bad))),
                        dict(sample, verdict="FAIL", non_injective=bad))
            else:
                ky.ok(dict(sample, verdict="ok"))
    ky.require_floor(1, "map-typed storages")
    out.append(ky)

    # ------------------------------------------------------------ LOCKORDER
    lo = RuleResult("LOCKORDER", "no storage is re-entered while borrowed (borrowed-while-calling graph is acyclic)")
    edges = {}
    site_of = {}
    for (b, bi, st, outer, inner) in sites:
        if st is None or inner is None:
            continue
        reach = facts.closure_of_calls([inner])
        tgt = set()
        for rb in reach:
            for rbi, t in rb.calls():
                fn = t.get("fn") or {}
                if fn.get("def", "").startswith("std::thread::LocalKey::<T>::with"):
                    s2 = storage_of(facts, rb, t["args"][0])
                    if s2:
                        tgt.add(s2)
                        site_of[(st, s2)] = rb.loc(rbi, "term")
        edges.setdefault(st, set()).update(tgt)
    # cycle detection
    for a in sorted(edges):
        seen = set()
        stack = [(x, [a, x]) for x in edges[a]]
        cyc = None
        while stack:
            n, path = stack.pop()
            if n == a:
                cyc = path
                break
            if n in seen:
                continue
            seen.add(n)
            for x in edges.get(n, ()):
                stack.append((x, path + [x]))
        if cyc:
            lo.fail(Finding("LOCKORDER", a, "re-entered-while-borrowed", 0, site_of.get((cyc[-2], cyc[-1]), ""),
                            "storage %s can be entered again while it is mutably borrowed: %s (RefCell::borrow_mut "
                            "panics)" % (a, " -> ".join(cyc))))
        else:
            lo.ok({"storage": a, "enters_while_borrowed": sorted(edges[a]), "verdict": "ok"})
    lo.require_floor(8, "storages in the borrow graph")
    out.append(lo)
    return out
