"""C18 — public component constructors are total (narrow: explicit panics, unguarded divisions, casts, zero block size)."""
import json
import os
import re

from .core import Finding, RuleResult, FactError, const_val
from .lib_panic import enumerate_sites
from .lib_cast import is_narrowing, int_range, param_of, dominating_bounds, idents

PROPERTY = "C18"
TECHNIQUE = ("PANICSITE enumeration from public constructors and Verify impls + DIVGUARD (division/remainder by "
             "unguarded runtime values) + CASTCHECK (narrowing cast of a constructor argument before its range check) "
             "+ lower-bound RANGE rule for block sizes")
EXPLANATION = (
    "Narrow claim. Universe: the public constructors of component::datatype (new / new_unknown; found by visibility "
    "and name) and every Verify::verify impl of the component module, with everything they call except BitRepr impls "
    "(serialisation is entered by Frame::verify only after all sub-frames verified). Decided: (PANICSITE) every "
    "explicit panic construct (assert*/debug_assert*/panic/unreachable/unwrap/expect) in that universe is either "
    "discharged by a one-site SAFE entry with a reason or reported - in a total constructor an assertion on unverified "
    "arguments is a panic path by definition; (DIVGUARD) every division/remainder whose divisor is not a non-zero "
    "constant (or 1 << x) must be dominated by a guard excluding zero; (CASTCHECK) a narrowing integer cast of a "
    "constructor argument must be dominated by a `?`-propagated range check that makes it value-preserving; (RANGE) "
    "a constructor argument that reaches BlockSizeSpec::from_size must be bounded below by 1. Overflow/shift/index "
    "panics and the serialise->parse identity are NOT decided.")
NOT_DECIDED = "arithmetic overflow, shift and bounds-check panics; serialise/parse identity of constructed values"
ASSUMPTIONS = []

SAFE_FILE = os.path.join(os.path.dirname(os.path.dirname(os.path.abspath(__file__))), "oracle", "panicsite_safe.json")


from .lib_safe import load_safe, entry_holds


def constructors(facts):
    out = []
    for fn in facts.raw["fns"]:
        if fn["path"].startswith("component::datatype::") and fn["reachable"] and fn["has_body"] \
                and re.match(r"^new(_[a-z_]+)?$", fn["name"]):
            out.append(facts.body(fn["path"]))
    return out


def verify_impls(facts):
    return [b for b in facts.body_list if b.raw.get("impl_trait") == "error::Verify" and b.raw.get("name") == "verify"
            and b.module.startswith("component")]


def is_bitrepr(b):
    return b.raw.get("impl_trait") == "component::bitrepr::BitRepr"


def run(facts, tier, ctx):
    out = []
    ctors = constructors(facts)
    vimpls = verify_impls(facts)
    if len(ctors) < 8 or len(vimpls) < 10:
        raise FactError("constructor / Verify inventory too small: %d / %d" % (len(ctors), len(vimpls)))
    universe = [b for b in facts.closure_of_calls(ctors + vimpls, stop=is_bitrepr) if not is_bitrepr(b)]

    # ------------------------------------------------------------ PANICSITE
    ps = RuleResult("PANICSITE", "explicit panic constructs reachable from public constructors / Verify impls")
    safe = load_safe(PROPERTY)
    for (b, s, what, ordn) in enumerate_sites(facts, ctors + vimpls, stop=is_bitrepr, body_filter=lambda b: not is_bitrepr(b)):
        f = Finding("PANICSITE", b.id, what, ordn, b.loc(s["bb"], "term"),
                    "explicit panic construct `%s` at %s is reachable from a public constructor or a Verify impl with "
                    "unverified arguments and has no SAFE entry" % (what, b.loc(s["bb"], "term")))
        sample = {"function": b.id, "construct": what, "site": b.loc(s["bb"], "term")}
        if f.key in safe:
            holds, why = entry_holds(facts, safe[f.key])
            if holds:
                ps.ok(dict(sample, verdict="SAFE", reason=safe[f.key].get("reason_" + PROPERTY, safe[f.key]["reason"]),
                           machine_checked_premises=len(safe[f.key].get("requires", []))))
            else:
                f.message += "\nits SAFE entry no longer applies: " + why
                ps.fail(f, dict(sample, verdict="FAIL", why=why))
        else:
            ps.fail(f, dict(sample, verdict="FAIL"))
    ps.require_floor(3, "explicit panic constructs in the constructor/verify universe")
    out.append(ps)

    # ------------------------------------------------------------- DIVGUARD
    dg = RuleResult("DIVGUARD", "every division / remainder by a runtime value is dominated by a guard excluding zero")
    for b in universe:
        ords = {}
        for bi in sorted(b.live):
            t = b.term(bi)
            if t["k"] != "assert" or t["msg"] not in ("DivisionByZero", "RemainderByZero"):
                continue
            # cond = Eq(divisor, 0) with expected == false
            divisor = None
            for o in b.origins(t["cond"]):
                if o[0] == "rv" and o[3]["k"] == "bin" and o[3]["op"] == "Eq":
                    divisor = o[3]["a"]
            where = b.loc(bi, "term")
            k = t["msg"]
            ords[k] = ords.get(k, 0) + 1
            sample = {"function": b.id, "site": where, "kind": k}
            if divisor is None:
                dg.fail(Finding("DIVGUARD", b.id, k + ":undecoded", ords[k], where, "cannot decode the divisor"))
                continue
            dors = b.origins(divisor)
            # constant divisor
            if dors and all(o[0] == "const" and (const_val(o[1]) or 0) != 0 for o in dors):
                dg.ok(dict(sample, verdict="ok", why="non-zero constant divisor"), trivial=True)
                continue
            # 1 << x  (shift overflow is a separate, undecided panic; the value is never zero)
            if dors and all(o[0] == "rv" and o[3]["k"] == "bin" and o[3]["op"] in ("Shl", "ShlUnchecked")
                            and o[3]["a"].get("k") == "const" and (const_val(o[3]["a"]) or 0) != 0 for o in dors):
                dg.ok(dict(sample, verdict="ok", why="divisor is (non-zero const) << x"))
                continue
            iv = dominating_bounds(facts, b, (bi, "term"), idents(dors))
            if iv.get("min", 0) >= 1:
                dg.ok(dict(sample, verdict="ok", why="dominated by a guard establishing divisor >= %d" % iv["min"]))
                continue
            dg.fail(Finding("DIVGUARD", b.id, k, ords[k], where,
                            "%s at %s: the divisor is a runtime value with no dominating guard that excludes zero "
                            "(reachable with unverified arguments)" % (k, where)), dict(sample, verdict="FAIL"))
    dg.require_floor(10, "division / remainder sites in the constructor/verify universe")
    out.append(dg)

    # ------------------------------------------------------------ CASTCHECK
    cc = RuleResult("CASTCHECK", "no narrowing cast of a constructor argument before the range check that makes it "
                    "value-preserving")
    for b in ctors:
        ords = {}
        for bi, si, s in b.iter_stmts():
            if s["k"] != "assign" or s["rv"]["k"] != "cast" or s["rv"]["ck"] != "IntToInt":
                continue
            rv = s["rv"]
            if not is_narrowing(rv["from"], rv["to"]):
                continue
            p = param_of(b, rv["op"])
            if p is None:
                continue
            pname = b.local_name(p[0]) or "_%d" % p[0]
            k = "%s as %s" % (pname, rv["to"])
            ords[k] = ords.get(k, 0) + 1
            where = b.loc(bi, si)
            iv = dominating_bounds(facts, b, (bi, si), p)
            lo, hi = int_range(rv["to"])
            flo, fhi = int_range(rv["from"])
            have_lo = iv.get("min", flo)
            have_hi = iv.get("max", fhi)
            sample = {"function": b.id, "site": where, "cast": k, "from": rv["from"], "bounds_before_cast": iv}
            if have_lo >= lo and have_hi <= hi:
                cc.ok(dict(sample, verdict="ok"))
            else:
                cc.fail(Finding("CASTCHECK", b.id, k, ords[k], where,
                                "argument `%s` (%s) is truncated to %s at %s before any range check bounds it to "
                                "%d..=%d (bounds established so far: %s): out-of-range values wrap into the valid "
                                "range and are accepted" % (pname, rv["from"], rv["to"], where, lo, hi, iv or "none")),
                        dict(sample, verdict="FAIL"))
    cc.require_floor(4, "narrowing casts of constructor arguments")
    out.append(cc)

    # ---------------------------------------------------- RANGE (zero block)
    rz = RuleResult("RANGE/block-size-lower-bound", "a constructor argument reaching BlockSizeSpec::from_size is "
                    "bounded below by 1 (from_size(0) underflows)")
    for b in ctors:
        for bi, t in b.calls():
            fn = t.get("fn")
            if not fn or not fn["def"].endswith("BlockSizeSpec::from_size"):
                continue
            ors = b.origins(t["args"][0])
            ids = idents(ors)
            ps_ = [i for i in ids if i[0] == "param"]
            where = b.loc(bi, "term")
            if not ps_ or len(ids) != 1:
                rz.ok({"function": b.id, "site": where, "verdict": "ok", "why": "argument is not a bare parameter"},
                      trivial=True)
                continue
            p = (ps_[0][1], ps_[0][2])
            iv = dominating_bounds(facts, b, (bi, "term"), p)
            pname = b.local_name(p[0]) or "_%d" % p[0]
            if iv.get("min", 0) < 1:
                # second opinion from the effect interpreter's path facts (checks spelled as `match`, helper calls, ...)
                try:
                    from . import lib_effect as E_, lib_implicit as I_
                    ectx = E_.Ctx(facts)
                    ectx.open_loops = True
                    ectx.collect_asserts = True
                    ectx.log_calls = r"BlockSizeSpec::from_size$"
                    ectx.noinline = [r"BlockSizeSpec::from_size$"]
                    E_.Interp(ectx, b).run()
                    mine = [c for c in ectx.calls if c[2] == where and c[3] == b.id]
                    if mine and all((I_.Prover(facts, c[4] or [], {}).lower(c[1][0]) or 0) >= 1 for c in mine):
                        iv = dict(iv, min=1)
                except Exception:
                    pass
            sample = {"function": b.id, "site": where, "param": pname, "bounds": iv}
            if iv.get("min", 0) >= 1:
                rz.ok(dict(sample, verdict="ok"))
            else:
                rz.fail(Finding("RANGE/block-size-lower-bound", b.id, "from_size(%s)" % pname, 0, where,
                                "`%s` reaches BlockSizeSpec::from_size with bounds %s: the value 0 is not rejected and "
                                "from_size(0) computes 0 - 1" % (pname, iv or "none")), dict(sample, verdict="FAIL"))
    rz.require_floor(1, "constructor calls of BlockSizeSpec::from_size")
    out.append(rz)
    # ------------------------------------------------------------ TWOC-RANGE
    # a value later written as a W-bit two's-complement field must lie in [-2^(W-1), 2^(W-1)-1]: wherever a constructor or
    # a Verify impl checks `x >= -(1 << (W-1))`, the matching upper bound must be `x <= (1 << (W-1)) - 1` (or `< 1 << (W-1)`).
    from . import lib_effect as E
    tr = RuleResult("RANGE/twos-complement", "sample-range checks are the exact two's-complement range of the width the value "
                    "is written with")
    for b in ctors + vimpls:
        ectx = E.Ctx(facts)
        ectx.open_loops = True
        ectx.log_calls = r"verify_macro_impl"
        ectx.noinline = [r"from_parts$", r"Verify>::verify$"]
        it = E.Interp(ectx, b)
        try:
            it.run()
        except E.Undecided:
            continue                # bodies without such checks or with unsupported shapes are covered by PANICSITE only
        lows = {}
        ups = {}
        for c in ectx.calls:
            cond = E.strip_casts(c[1][0])
            if not (isinstance(cond, tuple) and cond[0] == "bin" and cond[1] in ("Ge", "Le", "Lt", "Gt")):
                continue
            subj = E.canon(cond[2])
            bound = E.strip_casts(cond[3])
            if cond[1] == "Ge" and bound[0] == "un" and bound[1] == "Neg" and "Shl" in E.canon(bound[2]):
                lows[subj] = (bound[2], c[2])
            elif cond[1] in ("Le", "Lt") and "Shl" in E.canon(bound):
                ups.setdefault(subj, []).append((cond[1], bound, c[2]))
        n = E.Normalizer(facts)
        for subj, (P, site) in sorted(lows.items()):
            cands = ups.get(subj, [])
            good = False
            desc = "no upper bound"
            try:
                pn = n.nf(P)
                for op, ub, usite in cands:
                    un = n.nf(ub)
                    want = E.nf_add(pn, E.nf_const(-1)) if op == "Le" else pn
                    desc = "%s %s" % ("<=" if op == "Le" else "<", E.show(ub))
                    if E.nf_eq(un, want):
                        good = True
            except E.Undecided:
                pass
            if good:
                tr.ok({"function": b.id, "subject": subj, "lower": ">= -(%s)" % E.show(P), "upper": desc, "verdict": "ok"})
            else:
                tr.fail(Finding("RANGE/twos-complement", b.id, "asymmetric-range:%s" % subj, 0, site,
                                "%s accepts %s >= -(%s) but bounds it above by `%s`; a W-bit two's-complement field holds at "
                                "most (1 << (W-1)) - 1, so the largest accepted value is serialised as a different number"
                                % (b.id, subj, E.show(P), desc)))
    tr.require_floor(8, "two's-complement range checks")
    out.append(tr)
    # ------------------------------------------------------------ IMPLICIT
    # every implicit panic site (bounds check, arithmetic overflow, shift overflow, division by zero) met while summarising
    # the public constructors and the Verify impls - callees and closures inlined - is discharged from the facts that hold
    # on every path to it (verified ranges, early error returns, loop ranges, earlier assertions).
    from . import lib_implicit as I
    im = RuleResult("IMPLICIT", "implicit panic sites of the constructors / Verify impls are discharged from verified facts")
    NI = [r"BitRepr>::"]
    recs = []
    aggs = []
    undec = []
    for b in ctors + vimpls + [x for x in facts.body_list if x.id.endswith("BlockSizeSpec::from_size")]:
        try:
            r, g = I.collect(facts, b, noinline=NI, want_aggs=True)
        except E.Undecided as e:
            undec.append((b.id, str(e)))
            continue
        if b in ctors or b in vimpls:
            recs += r           # helper roots contribute construction sites only; their own sites are judged via callers
        aggs += g
    DTP = "component::datatype::"
    fb, _sites = I.field_bounds(facts, aggs, {"Pow2Mul576": DTP + "BlockSizeSpec", "Pow2Mul256": DTP + "BlockSizeSpec"})
    im.notes.append("payload bounds over all construction sites seen: %s (derive-generated Deserialize impls are out of "
                    "scope: C18 is about the constructors)" % fb)
    ords = I.number_sites(facts, recs)
    seen_keys = {}
    for r in recs:
        key = I.site_key(r, ords)
        why = I.Prover(facts, r["assume"], fb).prove(r["goal"])
        prev = seen_keys.get(key)
        if prev is None or (prev[0] and not why):
            seen_keys[key] = (why, r)
    for key, (why, r) in sorted(seen_keys.items()):
        if why:
            im.ok({"site": r["site"], "function": r["body"], "kind": r["msg"], "goal": I.show_goal(r["goal"])[:120],
                   "because": why})
        else:
            im.fail(Finding("IMPLICIT", r["body"], "%s#%s" % (r["msg"], key.rsplit("|", 1)[1]), 0, r["site"],
                            "%s at %s can fail: nothing on the paths to it establishes that %s (facts known there: %s)"
                            % (r["msg"], r["site"], I.show_goal(r["goal"])[:200],
                               "; ".join(E.show(a[1])[:60] for a in r["assume"] if a[0] == "cond")[:400] or "none")))
    for bid, why in undec:
        im.notes.append("not summarised (no implicit sites decided in it): %s: %s" % (bid, why[:100]))
    im.require_floor(60, "implicit panic sites")
    out.append(im)
    # "serialises ... to exactly the number of bits it reports": the C08 effect rules
    from . import c08
    out += c08.size_rules(facts)
    return out
