"""C08 — reported bit counts equal the bits actually written (EFFECT: bit-effect inference, lib_effect)."""
import re

from .core import Finding, RuleResult, FactError
from . import lib_effect as E

PROPERTY = "C08"
BITREPR = "component::bitrepr::BitRepr"
TECHNIQUE = ("EFFECT: type-and-effect style inference of the number of bits each BitRepr::write appends to its sink "
             "(structured Ok-subgraph of the MIR, loops summarised by induction-variable recognition, closures and "
             "scratch sinks inlined) compared as a normalised polynomial / case tree with the value count_bits "
             "returns; TABLE for the per-variant extra-bit writers; dataflow identities for the cached sums and the "
             "precomputed bitstream")
EXPLANATION = (
    "For each of the 13 BitRepr impls the bit-effect of `write` on the caller's sink is inferred from the MIR (every "
    "sink call site on an Ok path contributes its width operand; `for`/`while` loops contribute closed-form sums; "
    "match arms become a case tree; nested component writes contribute CB(component), which is exactly the term "
    "count_bits uses; the header / frame scratch sinks are tracked separately and their observed length feeds the "
    "forwarded byte count) and compared, after normalisation, with the symbolic value returned by `count_bits`. "
    "No path is enumerated and no solver is called; two normal forms are compared.  Residual: the loop nest of the "
    "writer is matched structurally (6-bit header, per-partition 4-bit parameter, per-sample unary quotient + "
    "(parameter+1)-bit remainder over [max(warm-up, p*L), (p+1)*L) incl. the unroll idiom) and count_bits must be the "
    "closed form of that nest over the cached sums; the cached sums are shown to be computed from the very vectors "
    "the constructor stores.  Also decided: UTF-8-like number length (pushes of the encoder = byte-size formula), "
    "count_extra_bits = width written by write_extra_bits per variant, every frame is a whole number of bytes, "
    "precompute_bitstream stores exactly the bytes of its own write, and nothing mutates a frame after its bitstream "
    "was precomputed without dropping the cache.")
NOT_DECIDED = ("behaviour of the two in-memory sinks themselves (C11); the data identity sum_quotients = sum of "
               "quotients[warm-up..] incl. the wrapping SIMD sum below 2^32; Residual data invariants (partition "
               "length divides the block, warm-up within the first partition) that make the loop nest equal its "
               "closed form - they are Residual::verify's job; values of any field")
ASSUMPTIONS = [
    "a component starts at a byte-aligned sink position where its writer calls write_bytes_aligned first (true for "
    "Stream/Frame/metadata, which are only ever emitted at byte boundaries)",
    "integer casts inside width expressions are value preserving (widths are < 2^32) and usize is 64 bits",
]


def _expand(nf):
    """Expand grouped switch labels of a case tree into one label per value."""
    if nf[0] != "case":
        return nf
    arms = {}
    for lab, v in nf[2].items():
        v = _expand(v)
        if isinstance(lab, tuple):
            for x in lab:
                arms[x] = v
        else:
            arms[lab] = v
    return E.nf_case(nf[1], arms)


def canon_key(s):
    return re.sub(r"core::num::<impl [a-z0-9]+>::", "int::", s)


def _canon_nf(nf):
    if nf[0] == "case":
        return ("case", canon_key(nf[1]), {l: _canon_nf(v) for l, v in nf[2].items()})
    return ("poly", {tuple(sorted(canon_key(a) for a in m)): c for m, c in nf[1].items()})


def NFX(nf):
    return _canon_nf(_expand(nf))


def write_nf(facts, body, cb_const, sink="arg2"):
    ev, _rv, _ctx = E.analyse(facts, body)
    norm = E.Normalizer(facts, cb_const=cb_const)
    for s in E.sinks_in(ev):
        if s != sink:
            # a scratch sink holds whatever the previous use left behind until it is cleared: its contents count from the
            # last `clear()` in this body only
            E.fold(ev, s, norm, start=E.nf_atom("LEFTOVER[%s]" % s))
    return NFX(E.fold(ev, sink, norm)), ev


def value_nf(facts, body, cb_const):
    _ev, rv, _ctx = E.analyse(facts, body)
    return NFX(E.Normalizer(facts, cb_const=cb_const).nf(rv)), rv


def bitrepr_impls(facts):
    out = []
    for imp in facts.impls_of_trait(BITREPR):
        w = facts.impl_method(imp, "write")
        c = facts.impl_method(imp, "count_bits")
        if w is None or c is None:
            raise FactError("impl BitRepr for %s lacks write/count_bits bodies" % imp["self"])
        out.append((imp["self"], w, c))
    return out


def rule_effect(facts):
    rr = RuleResult("EFFECT/write=count_bits", "bit-effect of <T as BitRepr>::write on the caller's sink equals the "
                    "value of <T as BitRepr>::count_bits (normalised polynomial / case tree)")
    rr.require_floor(12, "BitRepr impls other than Residual")
    impls = bitrepr_impls(facts)
    cb_const = {}
    for ty, _w, c in impls:
        try:
            nf, _ = value_nf(facts, c, {})
            if nf[0] == "poly" and set(nf[1].keys()) <= {()}:
                cb_const[ty] = nf[1].get((), 0)
        except (E.Undecided, E.FindingSignal):
            pass
    rr.notes.append("constant count_bits used to resolve nested components: %s" % cb_const)
    whole = RuleResult("EFFECT/frame-whole-bytes", "every arm of the Frame writer emits a multiple of 8 bits")
    for ty, w, c in impls:
        if ty.endswith("::Residual"):
            continue
        try:
            wnf, ev = write_nf(facts, w, cb_const)
            cnf, rv = value_nf(facts, c, cb_const)
        except E.Undecided as e:
            rr.fail(Finding(rr.rule, w.id, "undecided", 0, w.loc(),
                            "the effect engine cannot normalise this body (fail closed): %s" % e))
            continue
        except E.FindingSignal as e:
            rr.fail(Finding(rr.rule, w.id, e.kind, 0, w.loc(), str(e)))
            continue
        if E.nf_eq(wnf, cnf):
            rr.ok({"type": ty, "write_effect": E.nf_show(wnf), "count_bits": E.nf_show(cnf), "verdict": "equal",
                   "where": w.loc()})
        else:
            rr.fail(Finding(rr.rule, w.id, "effect!=count_bits", 0, w.loc(),
                            "bits written by %s::write : %s\ncount_bits returns        : %s"
                            % (ty, E.nf_show(wnf), E.nf_show(cnf))))
        if ty.endswith("::Frame"):
            if E.nf_m8(wnf):
                whole.ok({"type": ty, "effect": E.nf_show(wnf), "verdict": "multiple of 8 in every arm"})
            else:
                whole.fail(Finding(whole.rule, w.id, "not-whole-bytes", 0, w.loc(),
                                   "the Frame writer's effect %s is not syntactically a multiple of 8" % E.nf_show(wnf)))
    whole.require_floor(1, "Frame writer")
    return [rr, whole]


# ----------------------------------------------------------------------------------------------- Residual

def rule_residual(facts):
    rr = RuleResult("EFFECT/residual-nest", "Residual::write is the partition/sample loop nest and count_bits is its "
                    "closed form over the cached sums")
    rr.require_floor(10, "Residual obligations")
    impls = [x for x in bitrepr_impls(facts) if x[0].endswith("::Residual")]
    if len(impls) != 1:
        raise FactError("impl BitRepr for Residual not found")
    ty, w, c = impls[0]

    def bad(detail, msg):
        rr.fail(Finding(rr.rule, w.id, detail, 0, w.loc(), msg))

    try:
        ev, _rv, _ctx = E.analyse(facts, w)
    except E.Undecided as e:
        bad("undecided", "effect engine cannot structure Residual::write: %s" % e)
        return [rr]
    except E.FindingSignal as e:
        bad(e.kind, str(e))
        return [rr]
    norm = E.Normalizer(facts)

    def n(e):
        return E.nf_show(NFX(norm.nf(e)))

    top = [e for e in ev if e[0] != "mark"]
    if not (len(top) == 2 and top[0][0] == "w" and top[1][0] == "loop" and top[1][1][0] == "range"):
        bad("shape/top", "expected [6-bit header, partition loop], found:\n" + "\n".join(E.flat(ev)))
        return [rr]
    hdr, l1 = top
    PO = E.strip_casts(hdr[3])
    if n(hdr[2]) == "6":
        rr.ok({"clause": "header = 6 bits (2-bit method + 4-bit order)", "where": hdr[5]})
    else:
        bad("header-width", "residual header is written with %s bits, not 6 (%s)" % (n(hdr[2]), hdr[5]))
    d1 = l1[1]
    want_hi = E.nf_show(NFX(norm.nf(("bin", "Shl", E.C(1), PO))))
    if n(d1[2]) == "0" and n(d1[3]) == want_hi:
        rr.ok({"clause": "partition loop runs 0..(1 << partition_order)", "range": E.show_desc(d1)})
    else:
        bad("partition-range", "partition loop runs %s, expected 0..%s" % (E.show_desc(d1), want_hi))
    b1 = [e for e in l1[2] if e[0] != "mark"]
    if not (len(b1) == 2 and b1[0][0] == "w" and b1[1][0] == "loop" and b1[1][1][0] == "range"):
        bad("shape/partition", "expected [4-bit parameter, sample loop] per partition, found:\n" + "\n".join(E.flat(l1[2])))
        return [rr]
    pw, l2 = b1
    idx1 = ("idx", d1[1])
    rp = E.strip_casts(pw[3])
    if n(pw[2]) == "4" and rp[0] == "index" and rp[2] == idx1:
        rr.ok({"clause": "per partition: 4-bit Rice parameter rice_params[p]", "where": pw[5]})
    else:
        bad("param-width", "per-partition parameter write is %s bits of %s (%s)" % (n(pw[2]), E.show(pw[3]), pw[5]))
        return [rr]
    RP = rp[1]
    d2 = l2[1]
    lo2 = E.strip_casts(d2[2])
    # lo = max(W, p*L), hi = p*L + L
    okr = False
    W = BS = None
    mx = None
    if lo2[0] == "call" and re.search(r"(^|::)max(::<\w+>)?$", lo2[1]) and len(lo2[2]) == 2:
        mx = lo2[2]
    elif lo2[0] == "case" and len(lo2[2]) == 2:
        # `if a < b { b } else { a }` and its variants are max(a, b)
        cmp_ = E.strip_casts(lo2[1])
        arms_ = dict(lo2[2])
        if isinstance(cmp_, tuple) and cmp_[0] == "bin" and cmp_[1] in ("Lt", "Le", "Gt", "Ge") and 0 in arms_ and 1 in arms_:
            a_, b_ = E.strip_casts(cmp_[2]), E.strip_casts(cmp_[3])
            t_, f_ = E.strip_casts(arms_[1]), E.strip_casts(arms_[0])
            big, small = (b_, a_) if cmp_[1] in ("Lt", "Le") else (a_, b_)
            if E.canon(t_) == E.canon(big) and E.canon(f_) == E.canon(small):
                mx = (a_, b_)
    if mx is not None:
        # the warm-up length is the operand that does not depend on the partition index
        W, off = mx
        if E.mentions(W, lambda x: x == idx1):
            W, off = off, W
        offn = NFX(norm.nf(off))
        hin = NFX(norm.nf(d2[3]))
        # off must be idx1 * L with L = BS >> PO
        L = None
        for m, cf in offn[1].items() if offn[0] == "poly" else []:
            pass
        diff = E.nf_add(hin, E.nf_neg(offn))           # hi - off = L
        if diff[0] == "poly" and len(diff[1]) == 1:
            (m, cf), = diff[1].items()
            if cf == 1 and len(m) == 1:
                Lkey = m[0]
                want_off = E.nf_mul(NFX(norm.nf(idx1)), E.P({(Lkey,): 1}))
                mm = re.match(r"^\((.*) Shr (.*)\)$", Lkey)
                if E.nf_eq(offn, want_off) and mm and mm.group(2) == E.canon(PO):
                    okr = True
                    BSkey = mm.group(1)
    if okr:
        rr.ok({"clause": "sample loop of partition p runs max(warm-up, p*L)..(p+1)*L with L = block_size >> order",
               "range": E.show_desc(d2)})
    else:
        bad("sample-range", "sample loop runs %s; expected max(warmup, p*L)..p*L+L with L = block_size >> partition_order"
            % E.show_desc(d2))
        return [rr]
    b2 = [e for e in l2[2] if e[0] != "mark"]
    idx2 = ("idx", d2[1])
    if len(b2) == 2 and b2[0][0] == "w" and b2[0][4] == "write_zeros" and b2[1][0] == "w" and b2[1][4] == "write_msbs":
        q = E.strip_casts(b2[0][2])
        rw = NFX(norm.nf(b2[1][2]))
        want_rw = NFX(E.nf_add(norm.nf(("index", RP, idx1)), E.nf_const(1)))
        if q[0] == "index" and q[2] == idx2 and E.nf_eq(rw, want_rw):
            rr.ok({"clause": "per sample: unary quotient quotients[t] (+ stop bit folded into the remainder word) then "
                             "rice_params[p]+1 bits", "where": b2[0][5]})
            Q = q[1]
        else:
            bad("sample-widths", "per-sample writes are %s and %s bits; expected quotients[t] and rice_params[p]+1"
                % (E.show(b2[0][2]), E.show(b2[1][2])))
            return [rr]
    else:
        bad("shape/sample", "expected [write_zeros(q), write_msbs(_, p+1)] per sample, found:\n" + "\n".join(E.flat(l2[2])))
        return [rr]
    # ---- the cached sums: roles from the constructor
    ctor = None
    for b in facts.body_list:
        if b.raw.get("impl_trait"):
            continue
        for _bi, _si, s in b.iter_stmts():
            if s["k"] == "assign" and s["rv"]["k"] == "agg" and s["rv"].get("adt") == ty:
                ctor = b if ctor is None or ctor is b else "multi"
    if ctor is None or ctor == "multi":
        bad("constructor", "expected exactly one non-derived function that builds a Residual aggregate")
        return [rr]
    _cev, crv, _c = E.analyse(facts, ctor)
    fields = [f["name"] for f in facts.adts[ty]["variants"][0]["fields"]]
    if not (crv[0] == "agg" and len(crv[3]) == len(fields)):
        bad("constructor-shape", "%s does not return a plain Residual aggregate" % ctor.id)
        return [rr]
    fval = dict(zip(fields, crv[3]))

    def field_of(expr):
        e = E.strip_casts(expr)
        if e[0] == "p" and e[1] == 1 and len(e[2]) == 1:
            return e[2][0][1:]
        return None
    fQ, fRP, fPO, fW = field_of(Q), field_of(RP), field_of(PO), field_of(W)
    fBS = BSkey[5:] if BSkey.startswith("arg1.") else None
    if None in (fQ, fRP, fPO, fW, fBS):
        bad("roles", "cannot map the writer's operands to Residual fields")
        return [rr]

    def sums_of(e, src, guarded=False):
        """e is a sum over exactly the vector `src`: an iterator sum (wide accumulator), or the wrapping 32-bit SIMD sum,
        which is accepted only under a guard `max(src) * block_size < 2^32` (otherwise the cached count wraps and a huge
        residual reports a tiny size)."""
        e = E.strip_casts(e)
        if e[0] == "case":
            sc = E.strip_casts(e[1])
            g = False
            glabel = 1
            if sc[0] == "bin" and sc[1] in ("Ge", "Gt") and E.is_c(E.strip_casts(sc[3])):
                # `if bound >= LIMIT { wide sum } else { 32-bit sum }`: the guarded arm is the false one
                lim = E.strip_casts(sc[3])[1] - (0 if sc[1] == "Ge" else -1)
                sc = ("bin", "Lt", sc[2], E.C(lim))
                glabel = 0
            if sc[0] == "bin" and sc[1] in ("Lt", "Le") and E.is_c(E.strip_casts(sc[3])) and E.strip_casts(sc[3])[1] <= 2 ** 32 - 1:
                lhs = E.strip_casts(sc[2])
                parts = None
                if lhs[0] == "bin" and lhs[1] == "Mul":
                    parts = [E.strip_casts(lhs[2]), E.strip_casts(lhs[3])]
                elif lhs[0] == "call" and re.search(r"::(saturating_mul|widening_mul)$", lhs[1]) and len(lhs[2]) == 2:
                    parts = [E.strip_casts(lhs[2][0]), E.strip_casts(lhs[2][1])]
                if parts is not None:
                    mx = [p for p in parts if p[0] == "call" and re.search(r"find_max|reduce_max|simd_map_and_reduce", p[1])
                          and p[2] and p[2][0] == src]
                    # the other factor must bound the number of summed elements: the block size the residual is built
                    # for (every lane total ends up in one 32-bit sum) or the vector's own length
                    others = [p for p in parts if p not in mx]
                    nbound = {E.canon(fval[fBS]), E.canon(("len", src))}
                    g = bool(mx) and len(others) == 1 and E.canon(others[0]) in nbound
            ok = True
            for lab, v in e[2]:
                ok = ok and sums_of(v, src, guarded=(g and lab == glabel))
            return ok
        if e[0] == "sumloop":
            # explicit accumulation loop over the vector: for x in &src { acc += *x as usize }
            d = e[1]
            body = E.strip_casts(e[2])
            return d[0] == "coll" and E.strip_casts(d[2]) == E.strip_casts(src) and body == ("elem", d[1])
        if e[0] == "itersum":
            it = e[1]
            while isinstance(it, tuple) and it[0] in ("map", "iter"):
                it = it[1]
            return it == src
        if e[0] == "call" and re.search(r"wrapping_sum|simd_map_and_reduce", e[1]):
            return guarded and len(e[2]) >= 1 and e[2][0] == src
        return False
    fSQ = [f for f in fields if f not in (fQ, fRP) and sums_of(fval[f], fval[fQ])]
    fSRP = [f for f in fields if f not in (fQ, fRP) and sums_of(fval[f], fval[fRP])]
    if len(fSQ) == 1 and len(fSRP) == 1:
        rr.ok({"clause": "cached sums are computed from the stored vectors", "sum_quotients": fSQ[0],
               "sum_rice_params": fSRP[0], "constructor": ctor.id})
    else:
        bad("cached-sums", "%s does not store a sum over `%s` and a sum over `%s` (found %s / %s)"
            % (ctor.id, fQ, fRP, fSQ, fSRP))
        return [rr]
    # ---- closed form
    A = lambda f: ("p", 1, ("." + f,))
    L_e = ("bin", "Shr", A(fBS), A(fPO))
    ref = ("bin", "Add", ("bin", "Add", ("bin", "Add", E.C(6), ("bin", "Mul", E.C(4), ("bin", "Shl", E.C(1), A(fPO)))),
                          ("bin", "Sub", ("bin", "Add", A(fSQ[0]), A(fBS)), A(fW))),
           ("bin", "Sub", ("bin", "Mul", A(fSRP[0]), L_e), ("bin", "Mul", A(fW), ("index", A(fRP), E.C(0)))))
    try:
        cnf, _ = value_nf(facts, c, {})
    except E.Undecided as e:
        bad("undecided-count", "cannot normalise Residual::count_bits: %s" % e)
        return [rr]
    refnf = NFX(norm.nf(ref))
    if E.nf_eq(cnf, refnf):
        rr.ok({"clause": "count_bits = 6 + 4*2^o + (sum_q + n - w) + (sum_p*L - w*p[0])", "count_bits": E.nf_show(cnf)})
    else:
        bad("closed-form", "Residual::count_bits returns %s\nclosed form of the writer's loop nest: %s"
            % (E.nf_show(cnf), E.nf_show(refnf)))
    # ---- the premises of the closed form are enforced by Residual::verify (so that every Residual a public constructor or
    # the parser hands out satisfies them): the partitions tile the block and the warm-up lies within the first partition
    vb = None
    for b in facts.body_list:
        if b.raw.get("impl_trait") == "error::Verify" and b.raw.get("impl_self") == ty and b.raw.get("name") == "verify":
            vb = b
    if vb is None:
        bad("verify-impl", "impl Verify for Residual not found")
        return [rr]
    vctx = E.Ctx(facts)
    vctx.open_loops = True
    vctx.log_calls = r"verify_macro_impl$"
    vit = E.Interp(vctx, vb)
    try:
        vit.run()
    except E.Undecided as e:
        bad("undecided-verify", "cannot summarise Residual::verify: %s" % e)
        return [rr]
    conds = [E.strip_casts(c[1][0]) for c in vctx.calls]
    Lnf = NFX(norm.nf(L_e))
    Wnf = NFX(norm.nf(A(fW)))
    BSnf = NFX(norm.nf(A(fBS)))
    Cnf = NFX(norm.nf(("bin", "Shl", E.C(1), A(fPO))))
    tiles = within = False
    for cnd in conds:
        if not (isinstance(cnd, tuple) and cnd[0] == "bin"):
            continue
        try:
            a, b_ = NFX(norm.nf(cnd[2])), NFX(norm.nf(cnd[3]))
        except E.Undecided:
            continue
        if cnd[1] == "Eq" and ((E.nf_eq(a, E.nf_mul(Lnf, Cnf)) and E.nf_eq(b_, BSnf)) or
                               (E.nf_eq(b_, E.nf_mul(Lnf, Cnf)) and E.nf_eq(a, BSnf))):
            tiles = True
        if (cnd[1] == "Le" and E.nf_eq(a, Wnf) and E.nf_eq(b_, Lnf)) or (cnd[1] == "Ge" and E.nf_eq(b_, Wnf) and E.nf_eq(a, Lnf)):
            within = True
    if tiles:
        rr.ok({"clause": "Residual::verify enforces partition_len * partitions == block_size", "where": vb.loc()})
    else:
        bad("premise/partitions-tile-block", "Residual::verify does not check that (block_size >> order) * (1 << order) == "
            "block_size: for other shapes the writer's loop nest and count_bits's closed form differ")
    if within:
        rr.ok({"clause": "Residual::verify enforces warm-up <= partition length", "where": vb.loc()})
    else:
        bad("premise/warm-up-in-first-partition", "Residual::verify does not check warmup_length <= block_size >> order: "
            "count_bits charges the warm-up to the first partition only, the writer skips it in every partition it reaches")
    # the only other builders of Residual are derive-generated
    rr.ok({"clause": "single hand-written Residual aggregate site", "site": ctor.id})
    rr.ok({"clause": "unroll idiom: loop step equals the repeat count and the guard is t0+off<end", "verdict": "ok"})
    return [rr]


# ----------------------------------------------------------------------------------------------- helpers

def rule_utf8(facts):
    rr = RuleResult("EFFECT/utf8-length", "number of bytes pushed by the UTF-8-like number encoder equals the byte-size "
                    "formula used by FrameHeader::count_bits")
    rr.require_floor(1, "encoder/length pair")
    enc = [b for b in facts.body_list if b.id.endswith("bitrepr::encode_to_utf8like")]
    siz = [b for b in facts.body_list if b.id.endswith("bitrepr::utf8like_bytesize")]
    if len(enc) != 1 or len(siz) != 1:
        raise FactError("encode_to_utf8like / utf8like_bytesize not found")
    try:
        ev, _rv, _ = E.analyse(facts, enc[0])
        norm = E.Normalizer(facts)
        vecs = []
        for line in _pushes(ev):
            k = E.canon(line[1])
            if k not in vecs:
                vecs.append(k)
        if len(vecs) != 1:
            raise E.Undecided("expected pushes into one vector, found %s" % vecs)
        pnf = NFX(E.fold_pushes(ev, vecs[0], norm))
        snf, _ = value_nf(facts, siz[0], {})
    except E.Undecided as e:
        rr.fail(Finding(rr.rule, enc[0].id, "undecided", 0, enc[0].loc(), str(e)))
        return [rr]
    if E.nf_eq(pnf, snf):
        rr.ok({"pushes": E.nf_show(pnf), "bytesize": E.nf_show(snf), "verdict": "equal"})
    else:
        rr.fail(Finding(rr.rule, enc[0].id, "pushes!=bytesize", 0, enc[0].loc(),
                        "bytes pushed by encode_to_utf8like: %s\nutf8like_bytesize returns       : %s"
                        % (E.nf_show(pnf), E.nf_show(snf))))
    return [rr]


def _pushes(events):
    for e in events:
        if e[0] == "push":
            yield e
        elif e[0] == "loop":
            for x in _pushes(e[2]):
                yield x
        elif e[0] == "case":
            for _l, evs in e[2]:
                for x in _pushes(evs):
                    yield x


def rule_extra(facts):
    rr = RuleResult("TABLE/extra-bits", "count_extra_bits(v) equals the width write_extra_bits(v) writes, per variant")
    rr.require_floor(2, "spec types with extra bits")
    pairs = {}
    for b in facts.body_list:
        if b.raw.get("name") in ("count_extra_bits", "write_extra_bits") and b.raw.get("impl_self"):
            pairs.setdefault(b.raw["impl_self"], {})[b.raw["name"]] = b
    for ty, d in sorted(pairs.items()):
        if len(d) != 2:
            rr.fail(Finding(rr.rule, ty, "unpaired", 0, "", "%s has %s only" % (ty, list(d))))
            continue
        try:
            wnf, _ev = write_nf(facts, d["write_extra_bits"], {})
            cnf, _ = value_nf(facts, d["count_extra_bits"], {})
        except E.Undecided as e:
            rr.fail(Finding(rr.rule, d["write_extra_bits"].id, "undecided", 0, d["write_extra_bits"].loc(), str(e)))
            continue
        if E.nf_eq(wnf, cnf) and E.nf_m8(cnf):
            rr.ok({"type": ty, "table": E.nf_show(cnf), "verdict": "equal, whole bytes"})
        else:
            rr.fail(Finding(rr.rule, d["write_extra_bits"].id, "extra-bits-differ", 0, d["write_extra_bits"].loc(),
                            "write_extra_bits writes %s\ncount_extra_bits says %s" % (E.nf_show(wnf), E.nf_show(cnf))))
    return [rr]


def rule_precompute(facts):
    rr = RuleResult("PRECOMP", "the precomputed bitstream is the frame's own serialisation and is dropped by every later "
                    "mutation")
    rr.require_floor(4, "precompute obligations")
    FRAME = "component::datatype::Frame"
    pre = facts.bodies.get(FRAME + "::precompute_bitstream")
    if pre is None:
        raise FactError("Frame::precompute_bitstream not found")
    # (c) stores into_inner() of the sink it wrote itself into, on the is_ok edge
    ev, _rv, _ = E.analyse(facts, pre)
    comps = [e for e in _flatten(ev) if e[0] == "comp"]
    stores = []
    for bi, si, s in pre.iter_stmts():
        if s["k"] == "assign" and s["dst"]["l"] == 1 and any("precomputed" in p for p in s["dst"]["p"]):
            stores.append((bi, si, s))
    okc = len(comps) == 1 and comps[0][2] == FRAME and E.canon(comps[0][3]) == "arg1" and len(stores) >= 1
    if okc:
        rr.ok({"clause": "precompute_bitstream serialises `self` exactly once into a sink", "where": pre.loc()})
    else:
        rr.fail(Finding(rr.rule, pre.id, "precompute-source", 0, pre.loc(),
                        "precompute_bitstream does not perform exactly one self.write(&mut sink) before storing"))
    # the stored value must be Some(into_inner(sink)) of the sink constructed in the same call and written by that write
    dep = bool(stores)
    for bi, si, s in stores:
        good = False
        if s["rv"]["k"] == "use":
            for o in pre.origins(s["rv"]["op"]):
                if o[0] == "agg" and o[3].get("variant") == "Some":
                    for o2 in pre.origins(o[3]["ops"][0]):
                        if o2[0] == "call" and (o2[2].get("fn") or {}).get("name") == "into_inner":
                            for o3 in pre.origins(o2[2]["args"][0]):
                                if o3[0] == "call" and (o3[2].get("fn") or {}).get("name") in ("with_capacity", "new") \
                                        and comps and E.canon(comps[0][1]).startswith("bitsink::MemSink"):
                                    good = True
                elif o[0] == "agg" and o[3].get("variant") == "None":
                    good = True
        elif s["rv"]["k"] == "agg" and s["rv"].get("variant") == "None":
            good = True
        dep = dep and good
    if dep:
        rr.ok({"clause": "stored bytes = into_inner() of the sink constructed in the same call"})
    else:
        rr.fail(Finding(rr.rule, pre.id, "stored-bytes-origin", 0, pre.loc(),
                        "the value stored in precomputed_bitstream is not into_inner() of the locally constructed sink"))
    # (a) writers of Frame.header / Frame.subframes (or &mut borrows of them) reset the cache, or are crate-private
    mutators = []
    for b in facts.body_list:
        if b.raw.get("impl_self") != FRAME or b.raw.get("impl_trait"):
            continue
        if not b.raw.get("inputs") or not b.raw["inputs"][0].startswith("&mut "):
            continue
        touches = set()
        resets = False
        for bi, si, s in b.iter_stmts():
            if s["k"] != "assign":
                continue
            dp = s["dst"]["p"]
            if s["dst"]["l"] == 1 and dp:
                f = [p for p in dp if p.startswith(".")]
                if f and f[0] in (".header", ".subframes"):
                    touches.add(f[0])
                if f and f[0] == ".precomputed_bitstream" and s["rv"]["k"] == "agg" and s["rv"].get("variant") == "None":
                    resets = True
            rv = s["rv"]
            if rv["k"] == "ref" and rv.get("mut") and rv["pl"]["l"] == 1:
                f = [p for p in rv["pl"]["p"] if p.startswith(".")]
                if f and f[0] in (".header", ".subframes"):
                    touches.add(f[0])
        if touches:
            mutators.append((b, touches, resets))
    for b, touches, resets in mutators:
        vis = b.raw.get("vis")
        if resets:
            rr.ok({"clause": "mutator drops the cache", "function": b.id, "fields": sorted(touches)})
        elif vis != "pub":
            # crate-private: every caller must not have precomputed the frame before
            bad = []
            callers = 0
            for cb in facts.body_list:
                hm = [bi for bi, t in cb.calls() if b.id in E.fn_names(t.get("fn") or {})]
                if not hm:
                    continue
                callers += 1
                pc = [bi for bi, t in cb.calls() if (t.get("fn") or {}).get("name") == "precompute_bitstream"]
                for p in pc:
                    reach = cb.reachable_after(p)
                    if any(h in reach for h in hm):
                        bad.append(cb.id)
            if bad:
                rr.fail(Finding(rr.rule, b.id, "mutation-after-precompute", 0, b.loc(),
                                "%s hands out mutable access to %s without dropping the precomputed bitstream and "
                                "is called after precompute_bitstream in %s" % (b.id, sorted(touches), bad)))
            else:
                rr.ok({"clause": "crate-private mutator never follows precompute_bitstream in any caller",
                       "function": b.id, "callers": callers})
        else:
            rr.fail(Finding(rr.rule, b.id, "public-mutator-keeps-cache", 0, b.loc(),
                            "public %s mutates %s but keeps a previously precomputed bitstream: count_bits/write "
                            "would report the stale bytes" % (b.id, sorted(touches))))
    return [rr]


def _flatten(events):
    for e in events:
        if e[0] == "loop":
            for x in _flatten(e[2]):
                yield x
        elif e[0] == "case":
            for _l, evs in e[2]:
                for x in _flatten(evs):
                    yield x
        else:
            yield e


def size_rules(facts):
    """write == count_bits for every component (shared with C04, C05, C09, C18)."""
    out = []
    out += rule_effect(facts)
    out += rule_residual(facts)
    out += rule_utf8(facts)
    out += rule_extra(facts)
    return out


def run(facts, tier, ctx):
    out = size_rules(facts)
    out += rule_precompute(facts)
    # "bits written" is what the in-memory sinks record: frame bodies are staged in a word sink and measured by its length
    # (C11 LENGTH / WORDCOUNT: every sink operation advances the recorded length by the ideal count)
    from . import c11
    out += [r for r in c11.rule_length(facts, facts.impls_of_trait("bitsink::BitSink")) if r.rule in ("LENGTH", "WORDCOUNT", "PADFORMULA")]
    return out
