"""C14 — integer and packed-byte sample delivery are equivalent (structural clauses: SIBLING + TABLE)."""
import re

from .core import Finding, RuleResult, FactError
from .lib_expr import ExprCtx, show, walk, strip_casts
from .lib_mpt import mpt, path_str
from . import lib_fill

PROPERTY = "C14"
TECHNIQUE = ("SIBLING: symbolic expression shapes (lib_expr) of the two Fill methods of FrameBuf / Context / ParContext "
             "compared with each other + TABLE: width / channel dispatch tables extracted from comparison chains and "
             "matched with the const arguments / divisors of the dispatched bodies")
EXPLANATION = (
    "Decides, on MIR expression shapes, that the two delivery paths are siblings: (FrameBuf) both fills hand their i32 "
    "samples to the same deinterleave(_, self.channels(), self.size(), &mut self.samples) on every Ok path and set "
    "filled_size to (number of samples handed over) / channels; the byte path first converts with "
    "le_bytes_to_i32s(bytes, readbuf, bytes_per_sample) into a readbuf resized to len/bytes_per_sample; (Context) both "
    "fills touch exactly {md5, sample_count, frame_count}, add 1 to frame_count, add len/channels(/bytes_per_sample) "
    "to sample_count, skip empty blocks alike, and hash the little-endian bytes 0..bytes_per_sample of every sample "
    "resp. the packed bytes unchanged; (ParContext) both fills enqueue exactly one block on every Ok path, built from "
    "i32s_to_le_bytes(_, bytebuf, self.bytes_per_sample) resp. the bytes unchanged, and the hashing thread applies "
    "Context::fill_le_bytes with the context's own byte width; (TABLE) le_bytes_to_i32s dispatches width k to the "
    "<k> instance for exactly k in 1..=4, the instance shifts by (4-BPS)*8 and places bytes at offset 4-BPS (same "
    "sub-expression, little-endian constructor), and deinterleave dispatches channel count k to a body that divides "
    "both lengths by k. NOT decided: the converted sample values and zero padding of short fills (numerical).")
NOT_DECIDED = "sample values after conversion / de-interleave; zero padding of short fills; simd-nightly variants"
ASSUMPTIONS = ["Source implementations call exactly one of the two Fill methods per block (Source contract)"]


def run(facts, tier, ctx):
    out = []
    out += lib_fill.framebuf_siblings(facts)
    out += lib_fill.context_siblings(facts)
    if facts.tag != "F0":
        out += lib_fill.parcontext_siblings(facts)
    out += lib_fill.forward_impls(facts)
    out += lib_fill.width_tables(facts)
    return out
