"""C02 — emitted streams are well-formed FLAC (structural clauses: TABLE / LAYOUT / ORDER against an RFC 9639 oracle)."""
import json
import os
import re

from .core import Finding, RuleResult, FactError
from . import lib_effect as E

PROPERTY = "C02"
HERE = os.path.dirname(os.path.abspath(__file__))
ORACLE = os.path.join(os.path.dirname(HERE), "oracle", "rfc9639.json")
DT = "component::datatype::"
BITREPR = "component::bitrepr::BitRepr"

TECHNIQUE = ("TABLE: symbolic summaries (case trees) of the code-selection functions extracted from MIR and evaluated "
             "cell-wise on the rows of an RFC 9639 oracle table + LAYOUT: ordered (width, value) event sequence of "
             "every writer from the EFFECT engine compared with the RFC field layout + ORDER/dataflow on the CRC and "
             "alignment steps, the CRC generator constants from const evaluation, WHO-CONSTRUCTS on reserved codes and "
             "frame-number dataflow")
EXPLANATION = (
    "Decides that the writer's tables and layouts are the RFC's: block-size / sample-rate / sample-size / channel / "
    "subframe-type codes (every row of the oracle, plus the uncommon-size cells by their affine form), the side-channel "
    "placement and extra bit of each stereo mode, STREAMINFO / metadata-header / frame-header / LPC / residual field "
    "order and widths, the fLaC marker, sync word with the blocking-strategy bit taken from the header flag, nothing "
    "written after the frame loop, frame body aligned then exported then forwarded then CRC-16 over exactly the "
    "forwarded bytes, CRC-8 over exactly the forwarded header bytes, CRC generators 0x07 / 0x8005 with zero init and no "
    "reflection, reserved codes never constructed on the encode path, the header built from from_size / from_bits / "
    "from_freq of the block's own size and STREAMINFO's values, and the frame number handed to the header being the "
    "reader's / feeder's counter with the fixed-blocking variant selected.")
NOT_DECIDED = ("CRC values; the UTF-8-like bytes of each number (only their count, C08); Rice parameter values below the "
               "escape code and residual magnitudes; that all frames but the last hold the block size (source "
               "behaviour); bit-exactness of the sinks (C11)")
ASSUMPTIONS = ["the oracle file is a faithful transcription of RFC 9639"]


def oracle():
    with open(ORACLE) as fh:
        return json.load(fh)


def body_by_suffix(facts, suffix):
    bs = [b for b in facts.body_list if b.id.endswith(suffix) and "{closure" not in b.id[len(b.id) - len(suffix) - 1:]]
    bs = [b for b in bs if b.id == suffix or b.id.endswith("::" + suffix) or b.id.endswith(suffix)]
    if len(bs) != 1:
        raise FactError("expected one body %s, found %d" % (suffix, len(bs)))
    return bs[0]


def ret_of(facts, suffix):
    b = body_by_suffix(facts, suffix)
    _ev, rv, _ = E.analyse(facts, b)
    return rv, b


def writer(facts, ty):
    for imp in facts.impls_of_trait(BITREPR):
        if imp["self"] == ty:
            return facts.impl_method(imp, "write")
    raise FactError("impl BitRepr for %s not found" % ty)


def agg_name(v):
    return v[2] if isinstance(v, tuple) and v[0] == "agg" else None


def flat_events(ev):
    for e in ev:
        if e[0] == "loop":
            for x in flat_events(e[2]):
                yield x
        elif e[0] == "case":
            for _l, evs in e[2]:
                for x in flat_events(evs):
                    yield x
        else:
            yield e


class R:
    """Small helper around RuleResult for table rows."""

    def __init__(self, rule, desc):
        self.rr = RuleResult(rule, desc)

    def row(self, cond, func, detail, msg, sample=None, where=""):
        if cond:
            self.rr.ok(dict({"row": detail, "verdict": "ok"}, **(sample or {})))
        else:
            self.rr.fail(Finding(self.rr.rule, func, detail, 0, where, msg))
        return cond


# ------------------------------------------------------------------------------------------------ tables

def table_block_size(facts, orc):
    t = R("TABLE/block-size", "BlockSizeSpec::from_size -> tag / extra bits / block_size agree with RFC 9639 table 14")
    fs, fb = ret_of(facts, DT + "BlockSizeSpec::from_size")
    tag, tb = ret_of(facts, DT + "BlockSizeSpec::tag")
    inv, _ib = ret_of(facts, DT + "BlockSizeSpec::block_size")
    o = orc["block_size_codes"]
    fixed = {int(k): v for k, v in o["fixed"].items()}

    def code_of(size):
        v = E.evalv(fs, {1: size}, facts)
        return v, E.evalv(tag, {1: v}, facts), E.evalv(inv, {1: v}, facts)
    probe = code_of(192)
    if probe[0] is None or probe[1] is None:
        t.row(False, fb.id, "summary-not-evaluable", "the extracted summary of from_size/tag cannot be evaluated on table "
              "rows (unmodelled construct): %s" % E.show(fs)[:300], None, fb.loc())
        return [t.rr]
    for size, code in sorted(fixed.items()):
        v, c, back = code_of(size)
        t.row(c == code, fb.id, "size=%d" % size, "block size %d is coded %s (variant %s); RFC 9639 says %d"
              % (size, c, agg_name(v), code), {"size": size, "code": c, "variant": agg_name(v)}, fb.loc())
        t.row(isinstance(back, tuple) and back[2] == "Some" and back[3] == (size,), tb.id, "inverse(size=%d)" % size,
              "BlockSizeSpec::block_size does not map the spec of %d back to %d (%s)" % (size, size, back))
    # cells: the summary may branch only on `size == const` (switch labels) and `size <cmp> const`; then its cells are
    # intervals whose ends are the constants of the code and of the oracle, and an affine payload is decided by both
    # ends of each cell.  Any other predicate (%, &, helper calls) makes cells non-intervals: the 16-bit domain is then
    # enumerated on the extracted summary instead.
    consts, interval = _predicates(fs)

    def expected(size):
        if size in fixed:
            return fixed[size], None
        if size <= 256:
            return o["uncommon_8bit"]["code"], size - 1
        return o["uncommon_16bit"]["code"], size - 1
    if interval:
        pts = set()
        for c in set(consts) | set(fixed) | {256, 257}:
            pts.update((c - 1, c, c + 1))
        pts.update((1, 2, 65534, 65535))
        samples = sorted(x for x in pts if 1 <= x <= 65535)
        mode = "interval cells (%d breakpoints from the code and the oracle)" % len(samples)
    else:
        samples = range(1, 65536)
        mode = "non-interval predicate in the summary: whole u16 domain enumerated on the summary"
    bad = []
    n = 0
    for size in samples:
        if size in fixed:
            continue
        n += 1
        want_code, want_stored = expected(size)
        v, c, back = code_of(size)
        pay = v[3][0] if isinstance(v, tuple) and v[0] == "agg" and v[3] else None
        okrow = c == want_code and pay == want_stored and isinstance(back, tuple) and back[2] == "Some" and back[3] == (size,)
        if not okrow:
            bad.append((size, c, pay, agg_name(v)))
        if (not okrow and len(bad) <= 5) or (okrow and n <= 24):
            t.row(okrow, fb.id, "uncommon size=%d" % size,
                  "block size %d is coded %s (%s) storing %s; RFC 9639 says code %d storing %d, and block_size() must "
                  "invert it" % (size, c, agg_name(v), pay, want_code, want_stored),
                  {"size": size, "code": c, "stored": pay}, fb.loc())
    if len(bad) > 5:
        t.row(False, fb.id, "uncommon sizes (further)", "%d more sizes are coded wrongly, e.g. %s" % (len(bad) - 5, bad[5:10]))
    t.rr.notes.append("uncommon-size cells decided by: %s; %d sizes evaluated on the summary" % (mode, n))
    # reserved code never produced
    res = [lab for lab in _variants_built(fs) if lab == "Reserved"]
    t.row(not res, fb.id, "never-reserved", "from_size can construct BlockSizeSpec::Reserved")
    t.rr.require_floor(40, "block-size table rows")
    return [t.rr]


def _predicates(e):
    """(constants compared with the argument, all predicates are interval predicates on the bare argument)."""
    consts = []
    interval = True
    for x in E.walk_expr(e):
        if x[0] != "case":
            continue
        sc = E.strip_casts(x[1])
        if sc == ("p", 1, ()):
            for lab, _v in x[2]:
                for l in (lab if isinstance(lab, tuple) else (lab,)):
                    if isinstance(l, int):
                        consts.append(l)
            continue
        if isinstance(sc, tuple) and sc[0] == "bin" and sc[1] in ("Lt", "Le", "Gt", "Ge", "Eq", "Ne"):
            a, b = E.strip_casts(sc[2]), E.strip_casts(sc[3])
            if a == ("p", 1, ()) and E.is_c(b):
                consts.append(b[1])
                continue
            if b == ("p", 1, ()) and E.is_c(a):
                consts.append(a[1])
                continue
        interval = False
    return consts, interval


def _variants_built(e, acc=None):
    acc = acc if acc is not None else []
    if isinstance(e, tuple) and e:
        if e[0] == "agg" and len(e) >= 4 and e[2]:
            acc.append(e[2])
        for x in e:
            if isinstance(x, tuple):
                _variants_built(x, acc)
    return acc


def table_sample_rate(facts, orc):
    t = R("TABLE/sample-rate", "SampleRateSpec::from_freq -> tag / extra bits agree with RFC 9639 table 15")
    fb = body_by_suffix(facts, DT + "SampleRateSpec::from_freq")
    tag, tb = ret_of(facts, DT + "SampleRateSpec::tag")
    o = orc["sample_rate_codes"]
    # from_freq is summarised as one closed case tree (Option / bool combinators, try_into, early returns all become
    # cases) and evaluated row by row
    ectx = E.Ctx(facts)
    ectx.option_algebra = True
    itp = E.Interp(ectx, fb)
    itp.run()
    ff = itp.retval
    extra, _eb = ret_of(facts, DT + "SampleRateSpec::count_extra_bits")

    def variant_of(rate):
        v = E.evalv(ff, {1: rate}, facts)
        if not (isinstance(v, tuple) and v[0] == "agg" and v[1] == "std::option::Option"):
            return "?", None
        return v[2], (v[3][0] if v[2] == "Some" else None)
    probe = variant_of(44100)
    if probe[0] == "?":
        t.row(False, fb.id, "summary-not-evaluable", "the summary of from_freq cannot be evaluated for a concrete rate "
              "(fail closed): %s" % E.show(ff)[:200])
        return [t.rr]
    for rate, code in sorted((int(k), v) for k, v in o["fixed"].items()):
        _k, var = variant_of(rate)
        c = E.evalv(tag, {1: var}, facts) if var is not None else None
        t.row(c == code, fb.id, "rate=%d" % rate, "sample rate %d Hz is coded %s (%s); RFC 9639 says %d"
              % (rate, c, agg_name(var), code), {"rate": rate, "code": c, "variant": agg_name(var)}, fb.loc())
    # generic encodings: whatever form is chosen for an unnamed rate must represent it exactly (payload x unit = rate),
    # carry the RFC's code and extra-bit width, and a rate no form can hold is refused
    want = {"KHz": o["khz_8bit"], "Hz": o["hz_16bit"], "DaHz": o["dahz_16bit"]}
    limit = {"KHz": 255, "Hz": 65535, "DaHz": 65535}
    seen_forms = set()
    rates = [1, 7, 10, 999, 1000, 5000, 11025, 12340, 12345, 37800, 50000, 64000, 65535, 65536, 65540, 100000, 255000,
             256000, 300000, 352800, 384000, 655350, 655351, 655360, 700001, 1000000, 4294967295]
    for rate in rates:
        kind, var = variant_of(rate)
        if kind == "?":
            t.row(False, fb.id, "generic(%d)" % rate, "the summary of from_freq cannot be evaluated for %d Hz (fail closed)"
                  % rate, {"rate": rate, "form": "not evaluable"}, fb.loc())
            continue
        representable = any(rate % w["unit"] == 0 and rate // w["unit"] <= limit[nm] for nm, w in want.items())
        if kind == "None":
            t.row(not representable, fb.id, "generic(%d)" % rate, "sample rate %d Hz is refused although the frame header can "
                  "carry it" % rate, {"rate": rate, "form": None}, fb.loc())
            continue
        nm = var[2] if isinstance(var, tuple) and var[0] == "agg" else None
        ok = nm in want and isinstance(var, tuple) and len(var[3]) == 1 and isinstance(var[3][0], int) \
            and var[3][0] * want[nm]["unit"] == rate and 0 <= var[3][0] <= limit[nm]
        seen_forms.add(nm)
        t.row(ok, fb.id, "generic(%d)" % rate, "sample rate %d Hz is coded as %s: the value does not represent the rate in the "
              "unit RFC 9639 gives that form" % (rate, str(agg_name(var)) + str(var[3] if isinstance(var, tuple) else " (%r)" % (var,))),
              {"rate": rate, "form": nm}, fb.loc())
    for var, w in sorted(want.items()):
        t.row(var in seen_forms, fb.id, "unit(%s)" % var, "the %s form (unit %d Hz) is never chosen on the probe rates"
              % (var, w["unit"]), {"variant": var, "unit": w["unit"]}, fb.loc())
        val = ("agg", DT + "SampleRateSpec", var, (1,))
        c = E.evalv(tag, {1: val}, facts)
        xb = E.evalv(extra, {1: val}, facts)
        t.row(c == w["code"] and xb == w["extra_bits"], tb.id, "code(%s)" % var,
              "%s is coded %s with %s extra bits; RFC 9639 says code %d with %d bits"
              % (var, c, xb, w["code"], w["extra_bits"]), {"variant": var, "code": c, "extra_bits": xb})
    c0 = E.evalv(tag, {1: ("agg", DT + "SampleRateSpec", "Unspecified", ())}, facts)
    t.row(c0 == o["streaminfo"], tb.id, "code(Unspecified)", "Unspecified is coded %s, RFC says 0" % c0)
    # 0b1111 is never produced: every arm of tag() evaluates to <= 14
    adt = facts.adts[DT + "SampleRateSpec"]
    codes = []
    for var in adt["variants"]:
        val = ("agg", DT + "SampleRateSpec", var["name"], tuple(1 for _f in var["fields"]))
        codes.append(E.evalv(tag, {1: val}, facts))
    t.row(all(isinstance(c, int) and c not in o["forbidden"] and 0 <= c < 15 for c in codes) and len(set(codes)) == len(codes),
          tb.id, "codes-distinct-and-not-forbidden", "SampleRateSpec::tag codes are %s" % codes, {"codes": codes})
    t.rr.require_floor(20, "sample-rate table rows")
    return [t.rr]


def table_sample_size(facts, orc):
    t = R("TABLE/sample-size", "SampleSizeSpec::from_bits -> into_tag agrees with RFC 9639 table 17")
    fbits, fb = ret_of(facts, DT + "SampleSizeSpec::from_bits")
    tag, tb = ret_of(facts, DT + "SampleSizeSpec::into_tag")
    o = orc["sample_size_codes"]
    for bits in range(1, 33):
        v = E.evalv(fbits, {1: bits}, facts)
        var = v[3][0] if isinstance(v, tuple) and v[2] == "Some" else None
        c = E.evalv(tag, {1: var}, facts) if var is not None else None
        want = o["fixed"].get(str(bits))
        if want is not None:
            t.row(c == want, fb.id, "bits=%d" % bits, "sample size %d is coded %s (%s); RFC 9639 says %d"
                  % (bits, c, agg_name(var), want), {"bits": bits, "code": c}, fb.loc())
        else:
            t.row(isinstance(v, tuple) and v[2] == "None", fb.id, "bits=%d" % bits,
                  "sample size %d has no fixed code in RFC 9639 but from_bits gives %s" % (bits, agg_name(var)))
    c0 = E.evalv(tag, {1: ("agg", DT + "SampleSizeSpec", "Unspecified", ())}, facts)
    t.row(c0 == o["streaminfo"], tb.id, "code(Unspecified)", "Unspecified is coded %s, RFC says 0" % c0)
    t.rr.require_floor(33, "sample-size table rows")
    return [t.rr]


def table_channels(facts, orc):
    t = R("TABLE/channel-assignment", "channel-assignment codes and side-channel placement agree with RFC 9639 "
          "section 9.1.3")
    o = orc["channel_codes"]
    w = writer(facts, DT + "ChannelAssignment")
    ev, _rv, _ = E.analyse(facts, w)
    adt = facts.adts[DT + "ChannelAssignment"]
    names = [v["name"] for v in adt["variants"]]
    cases = [e for e in ev if e[0] == "case"]
    if len(cases) != 1:
        t.row(False, w.id, "shape", "ChannelAssignment::write is not a single match")
        return [t.rr]
    want = {"LeftSide": o["left_side"], "RightSide": o["side_right"], "MidSide": o["mid_side"]}
    seen = set()
    for lab, evs in cases[0][2]:
        ws = [e for e in flat_events(evs) if e[0] == "w"]
        var = names[lab] if isinstance(lab, int) and lab < len(names) else str(lab)
        seen.add(var)
        if len(ws) != 1 or E.evalc(ws[0][2]) != 4:
            t.row(False, w.id, "width(%s)" % var, "variant %s does not write exactly one 4-bit code" % var)
            continue
        val = ws[0][3]
        if var == "Independent":
            okv = E.canon(val) in ("(arg1@Independent.0 Sub 1)",)
            t.row(okv, w.id, "code(Independent)", "Independent(n) writes %s, RFC says n-1" % E.show(val),
                  {"variant": var, "value": E.show(val)}, ws[0][5])
        else:
            c = E.evalc(val)
            t.row(c == want.get(var), w.id, "code(%s)" % var, "%s writes code %s, RFC 9639 says %s"
                  % (var, c, want.get(var)), {"variant": var, "code": c}, ws[0][5])
    t.row(seen == set(names), w.id, "all-variants", "variants handled by the writer: %s of %s" % (sorted(seen), names))
    # side channel: index and the extra bit
    off, ob = ret_of(facts, DT + "ChannelAssignment::bits_per_sample_offset")
    sel, sb = ret_of(facts, DT + "ChannelAssignment::select_channels")
    side = {"LeftSide": o["side_channel_index"]["left_side"], "RightSide": o["side_channel_index"]["side_right"],
            "MidSide": o["side_channel_index"]["mid_side"]}
    for var in names:
        payload = (2,) if var == "Independent" else ()
        val = ("agg", DT + "ChannelAssignment", var, payload)
        offs = [E.evalv(off, {1: val, 2: ch}, facts) for ch in (0, 1)]
        wantoffs = [0, 0] if var == "Independent" else [int(side[var] == 0), int(side[var] == 1)]
        t.row(offs == wantoffs, ob.id, "extra-bit(%s)" % var,
              "%s gives sample-width offsets %s for channels 0/1; RFC 9639 (side channel has one more bit) says %s"
              % (var, offs, wantoffs), {"variant": var, "offsets": offs}, ob.loc())
        # select_channels(l=2, r=3, m=4, s=5)
        pick = E.evalv(sel, {1: val, 2: 102, 3: 103, 4: 104, 5: 105}, facts)
        got = pick[3] if isinstance(pick, tuple) and pick[0] == "agg" else None
        exp = {"Independent": (102, 103), "LeftSide": (102, 105), "RightSide": (105, 103), "MidSide": (104, 105)}[var] \
            if var in ("Independent", "LeftSide", "RightSide", "MidSide") else None
        t.row(got == exp, sb.id, "placement(%s)" % var,
              "%s places subframes %s (l=102 r=103 m=104 s=105); RFC 9639 order is %s" % (var, got, exp),
              {"variant": var, "placement": got}, sb.loc())
    t.rr.require_floor(12, "channel rows")
    return [t.rr]


def table_subframe_types(facts, orc):
    t = R("TABLE/subframe-type", "subframe header bytes agree with RFC 9639 table 19 and the declared order is the number "
          "of warm-up samples / coefficients written")
    o = orc["subframe_type_byte"]
    norm = E.Normalizer(facts)

    def first_byte(ty):
        w = writer(facts, DT + ty)
        ev, _rv, _ = E.analyse(facts, w)
        ws = [e for e in ev if e[0] != "mark"]
        if not ws or ws[0][0] != "w" or E.evalc(ws[0][2]) != 8:
            return w, ev, None
        return w, ev, ws[0]
    for ty, want in (("Constant", o["constant"]), ("Verbatim", o["verbatim"])):
        w, ev, fb = first_byte(ty)
        t.row(fb is not None and E.evalc(fb[3]) == want, w.id, "type(%s)" % ty,
              "%s subframe starts with byte %s, RFC 9639 says %#04x" % (ty, E.show(fb[3]) if fb else None, want),
              {"type": ty, "byte": want}, w.loc())
    for ty, spec in (("FixedLpc", o["fixed"]), ("Lpc", o["lpc"])):
        w, ev, fb = first_byte(ty)
        ok = False
        order = None
        if fb is not None:
            v = E.strip_casts(fb[3])
            if v[0] == "bin" and v[1] == "BitOr" and E.evalc(v[2]) == spec["base"]:
                sh = E.strip_casts(v[3])
                if sh[0] == "bin" and sh[1] == "Shl" and E.evalc(sh[3]) == spec["order_shift"]:
                    order = sh[2]
                    ok = True
        t.row(ok, w.id, "type(%s)" % ty, "%s subframe header byte is %s; RFC 9639 says %#04x | (order%+d) << 1"
              % (ty, E.show(fb[3]) if fb else None, spec["base"], spec["order_bias"]), {"type": ty}, w.loc())
        if not ok:
            continue
        # declared order (+bias inverted) equals the trip count of the warm-up loop (and of the coefficient loop)
        declared = E.nf_add(norm.nf(order), E.nf_const(-spec["order_bias"]))
        loops = [e for e in ev if e[0] == "loop"]
        trips = []
        for lp in loops:
            d = lp[1]
            if d[0] == "range":
                trips.append(E.nf_add(norm.nf(d[3]), E.nf_neg(norm.nf(d[2]))))
            else:
                trips.append(norm.len_nf(d[2]))
        need = 1 if ty == "FixedLpc" else 2
        t.row(len(trips) == need and all(E.nf_eq(tr, declared) for tr in trips), w.id, "order(%s)" % ty,
              "%s declares order %s but its warm-up / coefficient loops run %s times"
              % (ty, E.nf_show(declared), [E.nf_show(x) for x in trips]),
              {"type": ty, "declared_order": E.nf_show(declared), "loops": len(trips)}, w.loc())
    t.rr.require_floor(6, "subframe type rows")
    return [t.rr]


# ------------------------------------------------------------------------------------------------ layouts

def _seq(ev, sink="arg2"):
    """Top-level (width, value, op) of plain writes on one sink, with nested structures summarised."""
    out = []
    for e in ev:
        if e[0] in ("w", "wba", "comp", "extra", "align") and E.canon(e[1]) != sink:
            continue
        if e[0] == "w":
            out.append(("w", E.evalc(e[2]) if E.evalc(e[2]) is not None else E.show(e[2]), e[3], e[4], e[5], e[2]))
        elif e[0] == "wba":
            out.append(("bytes", e[3], e[2], e[4]))
        elif e[0] == "comp":
            out.append(("comp", e[2], e[3], e[4]))
        elif e[0] == "extra":
            out.append(("extra", e[2], e[3], e[4]))
        elif e[0] == "loop":
            inner = _seq(e[2], sink)
            if inner:
                out.append(("loop", e[1], inner))
        elif e[0] == "case":
            arms = [(l, _seq(x, sink)) for l, x in e[2]]
            if any(a for _l, a in arms):
                out.append(("case", e[1], arms))
        elif e[0] == "align":
            out.append(("align",))
    return out


def layout_streaminfo(facts, orc):
    t = R("LAYOUT/streaminfo", "STREAMINFO is written as 16/16/24/24/20/3/5/36/128 bits of the RFC's fields in order")
    w = writer(facts, DT + "StreamInfo")
    ev, _rv, _ = E.analyse(facts, w)
    seq = _seq(ev)
    o = orc["streaminfo"]
    widths = []
    vals = []
    for s in seq:
        if s[0] == "w":
            widths.append(s[1])
            vals.append(E.canon(s[2]))
        elif s[0] == "bytes":
            n = E.evalc(s[1])
            widths.append(8 * n if n is not None else E.show(s[1]))
            vals.append(E.canon(s[2]))
        else:
            widths.append(s[0])
            vals.append("?")
    t.row(widths == o["widths"], w.id, "widths", "STREAMINFO widths are %s; RFC 9639 says %s" % (widths, o["widths"]),
          {"widths": widths}, w.loc())
    want_vals = ["arg1.min_block_size", "arg1.max_block_size", "arg1.min_frame_size", "arg1.max_frame_size",
                 "arg1.sample_rate", "(arg1.channels Sub 1)", "(arg1.bits_per_sample Sub 1)", "arg1.total_samples",
                 "arg1.md5"]
    # field identity by role: the i-th value must mention the StreamInfo field whose accessor the RFC field names
    adt_fields = [f["name"] for f in facts.adts[DT + "StreamInfo"]["variants"][0]["fields"]]
    for i, (got, want) in enumerate(zip(vals, want_vals)):
        t.row(got == want, w.id, "field[%d]" % i, "STREAMINFO field %d (%s) is written from %s, expected %s"
              % (i, o["fields"][i], got, want), {"field": o["fields"][i], "value": got}, w.loc())
    t.row(len(vals) == len(want_vals) and all(f in adt_fields for f in
                                              ("min_block_size", "max_block_size", "min_frame_size", "max_frame_size",
                                               "sample_rate", "channels", "bits_per_sample", "total_samples", "md5")),
          w.id, "field-inventory", "StreamInfo fields: %s" % adt_fields)
    t.rr.require_floor(11, "STREAMINFO layout rows")
    return [t.rr]


def layout_metadata_and_stream(facts, orc):
    t = R("LAYOUT/stream", "fLaC marker, STREAMINFO block first, metadata, frames, nothing after the last frame; metadata "
          "block header = last-flag|type, 24-bit byte length")
    w = writer(facts, DT + "Stream")
    ev, _rv, _ = E.analyse(facts, w)
    seq = _seq(ev)
    kinds = [s[0] for s in seq]
    t.row(kinds == ["bytes", "comp", "loop", "loop"], w.id, "order", "Stream::write emits %s; expected marker, STREAMINFO "
          "block, metadata loop, frame loop and nothing else" % kinds, {"sequence": kinds}, w.loc())
    if kinds[:1] == ["bytes"]:
        mk = seq[0][2]
        got = [E.evalc(x) for x in mk[3]] if isinstance(mk, tuple) and mk[0] == "agg" else None
        if got is None and isinstance(mk, tuple) and mk[0] == "c" and isinstance(mk[2], str) and mk[2] in facts.bodies:
            # a named constant (`const STREAM_MARKER: [u8; 4] = [..]`): read the array its initialiser builds
            for _bi, _si, st_ in facts.bodies[mk[2]].iter_stmts():
                if st_["k"] == "assign" and st_["dst"]["l"] == 0 and not st_["dst"]["p"] and st_["rv"]["k"] == "agg" \
                        and st_["rv"].get("ak") == "array" and all(o_.get("k") == "const" for o_ in st_["rv"]["ops"]):
                    got = [o_.get("v") for o_ in st_["rv"]["ops"]]
        t.row(got == orc["marker"], w.id, "marker", "stream marker bytes are %s, RFC says %s (fLaC)" % (got, orc["marker"]),
              {"marker": got}, w.loc())
    if kinds == ["bytes", "comp", "loop", "loop"]:
        t.row(E.canon(seq[1][2]) == "arg1.stream_info" and seq[1][1] == DT + "MetadataBlock", w.id, "first-block",
              "the first metadata block written is %s" % E.canon(seq[1][2]))
        l2 = seq[3]
        inner = [x[0] for x in l2[2]]
        t.row(inner == ["comp"] and l2[2][0][1] == DT + "Frame" and l2[1][0] == "coll"
              and E.canon(l2[1][2]) == "arg1.frames", w.id, "frame-loop",
              "the last loop of Stream::write is not `for frame in self.frames { frame.write }`")
    # stream_info block is the first block and carries is_last consistent with the metadata list
    mb = writer(facts, DT + "MetadataBlock")
    ev2, _rv2, _ = E.analyse(facts, mb)
    seq2 = _seq(ev2)
    k2 = [s[0] for s in seq2]
    okh = k2 == ["w", "w", "comp"] and seq2[0][1] == 8 and seq2[1][1] == 24
    t.row(okh, mb.id, "metadata-header", "metadata block header is %s; RFC 9639 says 8 bits (flag|type), 24 bits length"
          % [(s[0], s[1]) for s in seq2], {"sequence": [(s[0], s[1]) for s in seq2 if s[0] == "w"]}, mb.loc())
    if okh:
        first = seq2[0][2]
        flag = None
        for x in E.walk(first) if hasattr(E, "walk") else []:
            pass
        s0 = E.show(first)
        t.row("128" in s0 and "is_last" in s0 and "typetag" in s0, mb.id, "last-flag",
              "first header byte is %s; expected typetag + (is_last ? 0x80 : 0)" % s0, {"byte": s0})
        ln = E.strip_casts(seq2[1][2])
        t.row(ln[0] == "bin" and ((ln[1] == "Div" and E.evalc(ln[3]) == 8) or (ln[1] == "Shr" and E.evalc(ln[3]) == 3))
              and "count_bits(arg1.data)" in E.canon(ln[2]),
              mb.id, "length-field", "24-bit length field is %s; expected data.count_bits() / 8" % E.show(seq2[1][2]))
    # is_last of the STREAMINFO block is maintained by add_metadata_block / constructors: who writes is_last
    writers = set()
    for b in facts.body_list:
        for _bi, _si, s in b.iter_stmts():
            if s["k"] == "assign" and any(p == ".is_last" for p in s["dst"]["p"]):
                writers.add(b.id)
    t.row(len(writers) >= 1, DT + "Stream", "is-last-maintained", "no function updates MetadataBlock.is_last",
          {"writers": sorted(writers)})
    t.rr.require_floor(8, "stream layout rows")
    return [t.rr]


def layout_frame_header(facts, orc):
    t = R("LAYOUT/frame-header", "frame header = sync|strategy, block-size|rate codes, channel code, size code|0, coded "
          "number, extra block size, extra rate, CRC-8 over exactly those bytes")
    w = writer(facts, DT + "FrameHeader")
    ev, _rv, _ = E.analyse(facts, w)
    sinks = E.sinks_in(ev)
    scratch = [s for s in sinks if s != "arg2"]
    if len(scratch) != 1:
        t.row(False, w.id, "shape", "FrameHeader::write uses %d scratch sinks (expected 1)" % len(scratch))
        return [t.rr]
    seq = _seq(ev, scratch[0])
    kinds = [s[0] for s in seq]
    # the coded number is written by one call per blocking strategy (a `case` event) or by one call on a value selected by
    # the strategy (a `bytes` event whose source is a case expression)
    okk = kinds in (["w", "w", "comp", "w", "case", "extra", "extra"], ["w", "w", "comp", "w", "bytes", "extra", "extra"])
    t.row(okk, w.id, "order", "header scratch sequence is %s" % kinds, {"sequence": kinds}, w.loc())
    if not okk:
        return [t.rr]
    sync, codes, chan, size, num, xb, xr = seq
    fs = orc["frame_sync"]
    sv = E.strip_casts(sync[2])
    oks = sync[1] == fs["width"] and sv[0] == "bin" and sv[1] == "Add" and E.evalc(sv[2]) == fs["value"] \
        and E.canon(sv[3]) == "arg1.variable_block_size"
    t.row(oks, w.id, "sync", "sync word is %s (%s bits); RFC 9639 says 0xFFF8 | blocking strategy in 16 bits"
          % (E.show(sync[2]), sync[1]), {"sync": E.show(sync[2])}, sync[4])
    cv = E.canon(codes[2])
    okc = codes[1] == 8 and re.search(r"BlockSizeSpec::tag\(arg1\.block_size_spec\) Shl 4\)", cv) is not None \
        and re.search(r"SampleRateSpec::tag\(arg1\.sample_rate_spec\)", cv) is not None and " BitOr " in cv
    t.row(okc, w.id, "codes-byte", "second header byte is %s; expected block_size_spec.tag() << 4 | sample_rate_spec.tag()"
          % E.show(codes[2]), {"byte": E.show(codes[2])}, codes[4])
    t.row(chan[1] == DT + "ChannelAssignment" and E.canon(chan[2]) == "arg1.channel_assignment", w.id, "channel-nibble",
          "third field is %s of %s" % (chan[1], E.canon(chan[2])))
    zv = E.canon(size[2])
    t.row(size[1] == 4 and re.search(r"into_tag\(arg1\.sample_size_spec\) Shl 1\)", zv) is not None, w.id, "size-nibble",
          "sample-size field is %s in %s bits; expected into_tag() << 1 in 4 bits (reserved bit 0)" % (E.show(size[2]), size[1]),
          {"nibble": E.show(size[2])}, size[4])
    # coded number: the fixed-blocking arm encodes the frame number, the variable arm the start sample
    okn = True
    if num[0] == "case":
        arms = dict(num[2])
        scrut = E.canon(num[1])
        per_label = {}
        for lab in (0, 1):
            a = arms.get(lab)
            if not a or [x[0] for x in a] != ["bytes"]:
                okn = False
                continue
            per_label[lab] = E.canon(E.strip_casts(a[0][2]))
    else:
        from .c11 import _leaves
        per_label = {}
        scrut = None
        for conds, leaf in _leaves(E.strip_casts(num[2])):
            if len(conds) != 1 or len(conds[0][1]) != 1:
                okn = False
                continue
            scrut = E.canon(conds[0][0])
            per_label[conds[0][1][0]] = E.canon(leaf)
    for lab, want in ((0, "arg1.frame_number"), (1, "arg1.start_sample_number")):
        cs = per_label.get(lab)
        if not (cs and cs.startswith("ok(component::bitrepr::encode_to_utf8like(") and want in cs):
            okn = False
    t.row(okn and scrut == "arg1.variable_block_size", w.id, "coded-number",
          "coded-number arms do not encode frame_number (fixed blocking) / start_sample_number (variable blocking)")
    t.row(xb[1] == DT + "BlockSizeSpec" and E.canon(xb[2]) == "arg1.block_size_spec" and xr[1] == DT + "SampleRateSpec"
          and E.canon(xr[2]) == "arg1.sample_rate_spec", w.id, "extra-fields",
          "extra fields are %s(%s), %s(%s); expected block size then sample rate" % (xb[1], E.canon(xb[2]), xr[1], E.canon(xr[2])))
    # dest: forward scratch bytes, then CRC-8 of the same scratch bytes
    dseq = _seq(ev, "arg2")
    dk = [s[0] for s in dseq]
    okd = dk == ["bytes", "w"] and dseq[1][1] == 8
    if okd:
        fwd = E.strip_casts(dseq[0][2])
        crc = E.strip_casts(dseq[1][2])
        okd = fwd[0] == "sinkbytes" and crc[0] == "call" and re.search(r"checksum$", crc[1]) is not None \
            and crc[2][0] == ("static", "component::bitrepr::HEADER_CRC") and E.strip_casts(crc[2][1])[0] == "sinkbytes"
        # no scratch write between the two observations
        marks = [i for i, e in enumerate(ev) if e[0] == "mark"]
        if okd and len(marks) == 2:
            between = [e for e in ev[marks[0]:marks[1]] if e[0] in ("w", "wba", "comp", "extra", "align", "reset")
                       and E.canon(e[1]) == scratch[0]]
            okd = not between
        elif okd and len(marks) == 1:
            # one observation of the scratch bytes used for both the forward and the checksum
            okd = fwd[1] == E.strip_casts(crc[2][1])[1]
        elif okd:
            okd = False
    t.row(okd, w.id, "crc8", "the header is not forwarded as scratch bytes followed by HEADER_CRC.checksum(scratch bytes) "
          "in 8 bits: %s" % [(s[0], s[1]) for s in dseq], {"dest": [(s[0], str(s[1])) for s in dseq]}, w.loc())
    first = [e for e in ev if e[0] != "mark"][0]
    t.row(first[0] == "reset" and E.canon(first[1]) == scratch[0], w.id, "scratch-cleared",
          "the header scratch sink is not cleared before use")
    t.rr.require_floor(9, "frame header rows")
    return [t.rr]


def order_frame(facts, orc):
    t = R("ORDER/frame", "frame = header, subframes, zero padding to a byte, then CRC-16 over exactly the forwarded bytes")
    w = writer(facts, DT + "Frame")
    ev, _rv, _ = E.analyse(facts, w)
    cases = [e for e in ev if e[0] == "case"]
    if len(cases) != 1:
        t.row(False, w.id, "shape", "Frame::write is not a two-armed branch on the precomputed bitstream")
        return [t.rr]
    arms = dict(cases[0][2])
    live = arms.get(0)
    pre = arms.get(1)
    if live is None or pre is None:
        t.row(False, w.id, "shape", "arms of Frame::write: %s" % list(arms))
        return [t.rr]
    sinks = [s for s in E.sinks_in(live) if s != "arg2"]
    if len(sinks) != 1:
        t.row(False, w.id, "scratch", "expected one frame scratch sink, found %s" % sinks)
        return [t.rr]
    sseq = _seq(live, sinks[0])
    sk = [s[0] for s in sseq]
    t.row(sk == ["comp", "loop", "align"] and sseq[0][1] == DT + "FrameHeader" and E.canon(sseq[0][2]) == "arg1.header"
          and [x[0] for x in sseq[1][2]] == ["comp"] and E.canon(sseq[1][1][2]) == "arg1.subframes",
          w.id, "body-order", "frame body is %s; expected header, every subframe, align_to_byte" % sk,
          {"sequence": sk}, w.loc())
    first = [e for e in live if e[0] != "mark"][0]
    t.row(first[0] == "reset" and E.canon(first[1]) == sinks[0], w.id, "scratch-cleared",
          "the frame scratch sink is not cleared before the header is written")
    dseq = _seq(live, "arg2")
    dk = [s[0] for s in dseq]
    okd = dk == ["bytes", "w"] and dseq[1][1] == 16
    detail = ""
    if okd:
        fwd = E.strip_casts(dseq[0][2])
        crc = E.strip_casts(dseq[1][2])
        okd = crc[0] == "call" and re.search(r"checksum$", crc[1]) is not None \
            and crc[2][0] == ("static", "component::bitrepr::FRAME_CRC") and E.canon(crc[2][1]) == E.canon(fwd)
        detail = "forwarded %s, checksum over %s" % (E.canon(fwd), E.canon(crc[2][1]) if crc[0] == "call" else "?")
        # the forwarded buffer has length scratch_len >> 3 observed after the alignment, and is filled from the scratch
        n = dseq[0][1]
        okn = isinstance(n, tuple) and n[0] == "bin" and n[1] == "Shr" and n[2][0] == "sinklen" and E.evalc(n[3]) == 3
        idx = {id(e): i for i, e in enumerate(live)}
        al = [i for i, e in enumerate(live) if e[0] == "align"]
        mk = [i for i, e in enumerate(live) if e[0] == "mark"]
        okn = okn and al and mk and al[-1] < mk[0]
        t.row(okn, w.id, "export-length", "the forwarded buffer is not resized to (scratch length after alignment) >> 3: %s"
              % E.show(n))
        exp = [bi for bi, tt in _closure_calls(facts, w) if (tt.get("fn") or {}).get("name") == "write_to_byte_slice"]
        t.row(len(exp) == 1, w.id, "export-call", "expected exactly one write_to_byte_slice export of the scratch sink")
    t.row(okd, w.id, "crc16", "frame footer is not FRAME_CRC.checksum(forwarded bytes) in 16 bits (%s)" % detail,
          {"dest": [(s[0], str(s[1])[:60]) for s in dseq]}, w.loc())
    pseq = _seq(pre, "arg2")
    t.row([s[0] for s in pseq] == ["bytes"] and "precomputed_bitstream" in E.canon(pseq[0][2]), w.id, "precomputed-arm",
          "the precomputed arm does not forward exactly the precomputed bytes")
    t.rr.require_floor(6, "frame order rows")
    return [t.rr]


def _closure_calls(facts, body):
    for b in [body] + facts.closures_of(body, recursive=True):
        for bi, t in b.calls():
            yield bi, t


def layout_lpc_residual(facts, orc):
    t = R("LAYOUT/lpc", "LPC subframe = type byte, warm-up, 4-bit precision-1, 5-bit shift, coefficients, residual; "
          "residual header 6 bits, 4-bit parameters")
    w = writer(facts, DT + "Lpc")
    ev, _rv, _ = E.analyse(facts, w)
    seq = _seq(ev)
    kinds = [s[0] for s in seq]
    t.row(kinds == ["w", "loop", "w", "w", "loop", "comp"], w.id, "order", "Lpc::write emits %s" % kinds,
          {"sequence": kinds}, w.loc())
    if kinds == ["w", "loop", "w", "w", "loop", "comp"]:
        o = orc["lpc_header"]
        pv = E.canon(seq[2][2])
        t.row(seq[2][1] == o["precision_minus_one_bits"] and pv == "(arg1.parameters.precision Sub 1)", w.id, "precision",
              "precision field is %s in %s bits; RFC 9639 says precision-1 in 4 bits" % (pv, seq[2][1]))
        t.row(seq[3][1] == o["shift_bits"] and seq[3][3] == "write_twoc" and E.canon(seq[3][2]) == "arg1.parameters.shift",
              w.id, "shift", "shift field is %s in %s bits via %s; RFC 9639 says signed 5 bits"
              % (E.canon(seq[3][2]), seq[3][1], seq[3][3]))
        wl = seq[1][2]
        cl = seq[4][2]
        t.row(len(wl) == 1 and wl[0][0] == "w" and wl[0][3] == "write_twoc" and E.canon(wl[0][5]) == "arg1.bits_per_sample",
              w.id, "warm-up-width",
              "warm-up samples are not written as bits_per_sample-wide two's complement")
        t.row(len(cl) == 1 and cl[0][0] == "w" and cl[0][3] == "write_twoc"
              and E.canon(cl[0][5]) == "arg1.parameters.precision", w.id, "coef-width",
              "coefficients are not written as precision-wide two's complement")
        t.row(seq[5][1] == DT + "Residual" and E.canon(seq[5][2]) == "arg1.residual", w.id, "residual-last",
              "the residual is not the last field")
    wf = writer(facts, DT + "FixedLpc")
    ev, _rv, _ = E.analyse(facts, wf)
    kinds = [s[0] for s in _seq(ev)]
    t.row(kinds == ["w", "loop", "comp"], wf.id, "fixed-order", "FixedLpc::write emits %s" % kinds)
    wr = writer(facts, DT + "Residual")
    ev, _rv, _ = E.analyse(facts, wr)
    seq = _seq(ev)
    o = orc["residual_header"]
    okr = len(seq) == 2 and seq[0][0] == "w" and seq[0][1] == o["method_plus_order_bits"] and seq[1][0] == "loop" \
        and seq[1][2] and seq[1][2][0][0] == "w" and seq[1][2][0][1] == o["rice_parameter_bits"]
    t.row(okr, wr.id, "residual-header", "residual header / parameter widths are not 6 / 4 bits")
    if okr:
        hv = E.strip_casts(seq[0][2])
        t.row(E.canon(hv) == "arg1.partition_order", wr.id, "method-bits-zero",
              "the 6-bit residual header is %s; the coding method bits are zero only if it is the bare partition order"
              % E.show(seq[0][2]))
    t.rr.require_floor(9, "lpc/residual layout rows")
    return [t.rr]


# ------------------------------------------------------------------------------------------------ predictor order

RES_NOINLINE = [r"coding::encode_residual", r"::from_parts$", r"find_partitioned_rice_parameter", r"estimate_entropy",
                r"^lpc::", r"quantize_parameters"]


def _seq_len(e):
    """Length of a warm-up sequence expression as an expression (None if unknown)."""
    e = E.strip_casts(e)
    if not isinstance(e, tuple):
        return None
    if e[0] == "okval":
        return _seq_len(e[1])
    if e[0] == "call" and re.search(r"from_slice$", e[1]) and e[2]:
        return _seq_len(e[2][0])
    if e[0] == "call" and re.search(r"::index$|Index<.*>>::index$", e[1]) and len(e[2]) == 2:
        r = e[2][1]
        if isinstance(r, tuple) and r[0] == "agg" and r[1] == "std::ops::Range":
            return E.mk_bin("Sub", r[3][1], r[3][0])
        if isinstance(r, tuple) and r[0] == "agg" and r[1] == "std::ops::RangeTo":
            return r[3][0]
    return None


def predictor_order(facts, orc):
    t = R("AGREE/predictor-order", "the number of warm-up samples a predictive subframe stores equals the warm-up length "
          "its residual was coded with (and, for LPC, the order of the stored parameters)")
    sites = 0
    producers = 0
    for b in facts.body_list:
        if not b.module.startswith("coding") and not b.id.startswith("coding::"):
            continue
        names = [(tt.get("fn") or {}).get("def", "") for _bi, tt in b.calls()]
        if not any(n.endswith("FixedLpc::from_parts") or n.endswith("Lpc::from_parts") or "encode_residual" in n
                   for n in names):
            continue
        try:
            _ev, rv, _ = E.analyse(facts, b, noinline=RES_NOINLINE)
        except E.Undecided as e:
            t.row(False, b.id, "undecided", "cannot summarise %s: %s" % (b.id, e))
            continue
        for e in E.walk_expr(rv):
            if e[0] == "call" and re.search(r"(FixedLpc|Lpc)::from_parts$", e[1]):
                is_lpc = not e[1].endswith("FixedLpc::from_parts")
                args = e[2]
                warm = args[0]
                res = args[2] if is_lpc else args[1]
                wl = _seq_len(warm)
                sites += 1
                if wl is None:
                    t.row(False, b.id, "warm-up-length", "cannot determine the length of the warm-up %s" % E.show(warm))
                    continue
                r = E.strip_casts(res)
                if r[0] == "call" and "encode_residual" in r[1]:
                    wr = r[2][2]
                    t.row(E.canon(wl) == E.canon(wr), b.id, "warm-up=residual-warm-up",
                          "%s stores %s warm-up samples but codes the residual with warm-up length %s"
                          % (b.id, E.show(wl), E.show(wr)), {"site": b.id, "warm_up": E.show(wl)}, b.loc())
                elif r[0] == "p" and r[2] and r[2][-1] == ".1":
                    base = ("p", r[1], tuple(r[2][:-1]) + (".0",))
                    t.row(E.canon(wl) == E.canon(base), b.id, "warm-up=pair.0",
                          "%s takes the residual from %s but %s warm-up samples" % (b.id, E.show(res), E.show(wl)),
                          {"site": b.id, "warm_up": E.show(wl), "residual": E.show(res)}, b.loc())
                elif r[0] == "proj" and r[2] and r[2][-1] == ".1":
                    # the (order, residual) pair is a value of this body (`let (order, residual) = chooser(..)?;`): the warm-up
                    # count must be the pair's own first component
                    base = ("proj", r[1], tuple(r[2][:-1]) + (".0",))
                    t.row(E.canon(wl) == E.canon(base), b.id, "warm-up=pair.0",
                          "%s takes the residual from the second component of a pair but %s warm-up samples, which is not "
                          "the pair's first component" % (b.id, E.show(wl)[:120]),
                          {"site": b.id, "warm_up": E.show(wl)[:120], "residual": "second component of the same pair"}, b.loc())
                else:
                    t.row(False, b.id, "residual-origin", "cannot trace the residual %s to its encoder" % E.show(res)[:200])
                if is_lpc:
                    q = args[1]
                    t.row(E.canon(wl) == E.canon(("proj", q, (".order",))),
                          b.id, "warm-up=parameters.order", "%s stores %s warm-up samples with parameters %s"
                          % (b.id, E.show(wl), E.show(q)[:120]), {"site": b.id})
            if e[0] == "agg" and e[1] == "tuple" and len(e[3]) == 2:
                r = E.strip_casts(e[3][1])
                if isinstance(r, tuple) and r[0] == "call" and "encode_residual" in r[1]:
                    producers += 1
                    t.row(E.canon(e[3][0]) == E.canon(r[2][2]), b.id, "pair-producer",
                          "%s pairs order %s with a residual coded with warm-up length %s"
                          % (b.id, E.show(e[3][0]), E.show(r[2][2])), {"site": b.id, "order": E.show(e[3][0])}, b.loc())
    # the chain down to the stored field
    for name, idx in (("coding::encode_residual", 2), ("coding::encode_residual_with_prc_parameter", 2)):
        rv, bb = ret_of_ni(facts, name)
        ok = isinstance(rv, tuple) and rv[0] == "call" and len(rv[2]) > 2 and rv[2][2] == ("p", 3, ())
        t.row(ok, bb.id, "chain", "%s does not hand its warm-up length on unchanged: %s" % (name, E.show(rv)[:200]))
    rv, bb = ret_of(facts, DT + "Residual::from_parts")
    fields = [f["name"] for f in facts.adts[DT + "Residual"]["variants"][0]["fields"]]
    ok = isinstance(rv, tuple) and rv[0] == "agg" and "warmup_length" in fields \
        and rv[3][fields.index("warmup_length")] == ("p", 3, ())
    t.row(ok, bb.id, "chain-store", "Residual::from_parts does not store its third argument as warmup_length")
    t.row(sites >= 2 and producers >= 2, "coding", "inventory", "found %d predictive-subframe construction sites and %d "
          "(order, residual) producers; expected at least 2 and 2" % (sites, producers))
    t.rr.require_floor(9, "predictor-order rows")
    return [t.rr]


def ret_of_ni(facts, suffix):
    b = body_by_suffix(facts, suffix)
    _ev, rv, _ = E.analyse(facts, b, noinline=RES_NOINLINE)
    return rv, b


# ------------------------------------------------------------------------------------------------ CRC / construction

def crc_generators(facts, orc):
    t = R("CONST/crc", "CRC-8 / CRC-16 generators are the RFC's and the checksum statics are built from them")
    for name, key, static in (("component::bitrepr::CRC_8_FLAC", "crc8", "component::bitrepr::HEADER_CRC"),
                              ("component::bitrepr::CRC_16_FLAC", "crc16", "component::bitrepr::FRAME_CRC")):
        c = facts.consts.get(name)
        fields = (c or {}).get("fields", {})
        want = orc[key]
        t.row(all(fields.get(k) == v for k, v in want.items()), name, "generator(%s)" % key,
              "%s evaluates to %s; RFC 9639 says %s" % (name, fields, want), {"const": name, "fields": fields})
        sb = facts.bodies.get(static)
        oks = False
        if sb is not None:
            for _bi, tt in sb.calls():
                if (tt.get("fn") or {}).get("name") == "new" and "crc::" in (tt["fn"].get("full") or ""):
                    for o_ in sb.origins(tt["args"][0]):
                        if o_[0] == "const" and (o_[1].get("promoted") or o_[1].get("cdef")):
                            pid = o_[1].get("s") or ""
                            pb = facts.bodies.get(pid)
                            if o_[1].get("cdef") == name:
                                oks = True
                            if pb is not None:
                                for _b2, _s2, s in pb.iter_stmts():
                                    if s["k"] == "assign" and s["rv"]["k"] == "use" and s["rv"]["op"].get("cdef") == name:
                                        oks = True
        t.row(oks, static, "static-init(%s)" % key, "%s is not initialised with Crc::new(&%s)" % (static, name),
              {"static": static})
    t.rr.require_floor(4, "crc rows")
    return [t.rr]


def header_construction(facts, orc):
    t = R("CONSTRUCT/header", "frame headers on the encode path come from from_size / from_bits / from_freq of the block's "
          "own values, reserved codes are never constructed, the fixed-blocking number is the caller's frame number")
    b = body_by_suffix(facts, "coding::encode_frame_impl")
    _ev, rv, _ = E.analyse(facts, b, noinline=[r"Spec::from_(size|bits|freq)$"])
    hdr = None
    if isinstance(rv, tuple) and rv[0] == "agg" and rv[1] == DT + "Frame":
        hdr = rv[3][0]
    if not (isinstance(hdr, tuple) and hdr[0] == "agg" and hdr[1] == DT + "FrameHeader"):
        t.row(False, b.id, "shape", "encode_frame_impl does not return a Frame built around a fresh FrameHeader")
        return [t.rr]
    names = [f["name"] for f in facts.adts[DT + "FrameHeader"]["variants"][0]["fields"]]
    hv = dict(zip(names, hdr[3]))
    bs = E.canon(hv.get("block_size_spec"))
    t.row(re.match(r"^component::datatype::BlockSizeSpec::from_size\(arg2\.filled_size\)$", bs) is not None, b.id,
          "block-size-source", "block_size_spec = %s; expected from_size(framebuf.filled_size())" % bs, {"value": bs})
    ss = E.canon(hv.get("sample_size_spec"))
    t.row("SampleSizeSpec::from_bits(arg4.bits_per_sample)" in ss and ss.endswith("SampleSizeSpec::Unspecified{})"), b.id,
          "sample-size-source", "sample_size_spec = %s; expected from_bits(stream_info.bits_per_sample) or Unspecified" % ss)
    sr = E.canon(hv.get("sample_rate_spec"))
    t.row("SampleRateSpec::from_freq(arg4.sample_rate)" in sr and sr.endswith("SampleRateSpec::Unspecified{})"), b.id,
          "sample-rate-source", "sample_rate_spec = %s; expected from_freq(stream_info.sample_rate) or Unspecified" % sr)
    t.row(E.canon(hv.get("channel_assignment")) == "arg5", b.id, "channel-source",
          "channel_assignment = %s; expected the caller's assignment" % E.canon(hv.get("channel_assignment")))
    # reserved variants are never constructed outside derives / parser
    for adt, var in ((DT + "BlockSizeSpec", "Reserved"), (DT + "SampleSizeSpec", "Reserved")):
        sites = []
        for bb in facts.body_list:
            if bb.raw.get("impl_trait") and not bb.raw.get("impl_trait", "").startswith("component::"):
                continue
            if bb.module.startswith("component::parser") or bb.id.endswith("::from_tag"):
                continue
            for _bi, _si, s in bb.iter_stmts():
                if s["k"] == "assign" and s["rv"]["k"] == "agg" and s["rv"].get("adt") == adt \
                        and s["rv"].get("variant") == var:
                    sites.append(bb.id)
        t.row(not sites, adt, "no-%s" % var, "%s::%s is constructed in %s" % (adt, var, sites), {"adt": adt})
    # the frame entry point selects fixed blocking with the caller's number after encoding
    rv2, fb = ret_of(facts, "coding::encode_fixed_size_frame_impl")
    calls = [(bi, tt) for bi, tt in fb.calls() if (tt.get("fn") or {}).get("name") == "set_frame_offset"]
    enc = [(bi, tt) for bi, tt in fb.calls() if (tt.get("fn") or {}).get("def", "").endswith("coding::encode_frame")]
    okf = len(calls) == 1 and len(enc) == 1 and fb.dominates(enc[0][0], calls[0][0])
    if okf:
        ex = E.ExprOf(fb, calls[0][1]["args"][1]) if hasattr(E, "ExprOf") else None
        from .lib_expr import expr as lexpr, show as lshow
        a = lexpr(fb, calls[0][1]["args"][1])
        okf = a[0] == "agg" and a[2] == "Frame" and lshow(a[3][0]).replace(" ", "") in ("(arg3asu32)",)
        # every Ok return passes the call
        from .lib_mpt import mpt
        oks = [bi for bi, si, s in fb.iter_stmts() if s["k"] == "assign" and s["dst"]["l"] == 0 and not s["dst"]["p"]
               and s["rv"]["k"] == "agg" and s["rv"].get("variant") == "Ok"]
        okp, _path = mpt(fb, [calls[0][0]], 0, oks)
        okf = okf and okp and bool(oks)
    t.row(okf, fb.id, "fixed-blocking-number", "the frame entry point does not finish with "
          "set_frame_offset(FrameOffset::Frame(frame_number as u32)) after encode_frame on every Ok path")
    # set_frame_offset(Frame(n)) clears the variable-blocking flag and stores n
    sn = facts.bodies.get(DT + "FrameHeader::set_frame_number")
    oksn = False
    if sn is not None:
        st = {}
        for _bi, _si, s in sn.iter_stmts():
            if s["k"] == "assign" and s["dst"]["l"] == 1 and s["dst"]["p"]:
                f = [p for p in s["dst"]["p"] if p.startswith(".")][0]
                st[f] = s["rv"]
        oksn = st.get(".variable_block_size", {}).get("k") == "use" and st[".variable_block_size"]["op"].get("v") == 0 \
            and st.get(".frame_number", {}).get("k") == "use" \
            and [o[:2] for o in sn.origins(st[".frame_number"]["op"])] == [("param", 2)]
    t.row(oksn, DT + "FrameHeader::set_frame_number", "fixed-flag", "set_frame_number does not clear variable_block_size "
          "and store its argument")
    so, sob = ret_of(facts, DT + "FrameHeader::set_frame_offset")
    disp = [(tt.get("fn") or {}).get("name") for _bi, tt in sob.calls()]
    t.row(sorted(disp) == ["set_frame_number", "set_start_sample_number"], sob.id, "offset-dispatch",
          "set_frame_offset dispatches to %s" % disp)
    t.rr.require_floor(9, "header construction rows")
    return [t.rr]


def partition_floor(facts, orc):
    """AGREE/partition-length: RFC 9639 section 9.2.7 - the block size is divisible by the number of partitions and
    (block size >> partition order) is *larger* than the predictor order (the first partition holds at least one residual).
    The encoder has one chooser of the partition order; its extracted summary is evaluated on a grid."""
    t = R("AGREE/partition-length", "the partition order chosen for a residual leaves (block size >> order) > warm-up length "
          "and divides the block size, for every warm-up length the predictors can have")
    from .lib_expr import ExprCtx
    fin, fb_ = ret_of(facts, "rice::finest_partition_order")
    callers = []
    for b in facts.body_list:
        for bi, tt in b.calls():
            if ((tt.get("fn") or {}).get("def") or "").endswith("rice::finest_partition_order"):
                callers.append((b, bi, tt))
    maxw = max([facts.const_value(c) or 0 for c in ("constant::qlpc::MAX_ORDER", "constant::fixed::MAX_LPC_ORDER")] + [0])
    t.row(maxw >= 1, "constant", "max-order", "maximum predictor orders not found among the crate's constants")
    # blocks shorter than this are never predicted (no residual is built for them)
    lo = facts.const_value("constant::MIN_BLOCK_SIZE_FOR_PREDICTION")
    guard = False
    for b in facts.find_bodies(r"^coding::encode_subframe$"):
        for _bi, _si, st in b.iter_stmts():
            if st["k"] == "assign" and st["rv"]["k"] == "bin" and st["rv"]["op"] in ("Lt", "Ge") and \
                    any((o.get("cdef") or "").endswith("MIN_BLOCK_SIZE_FOR_PREDICTION") for o in (st["rv"]["a"], st["rv"]["b"])
                        if o.get("k") == "const"):
                guard = True
    if not (isinstance(lo, int) and guard):
        lo = 1
    def ev(e, env):
        if e[0] == "c":
            return e[1] if isinstance(e[1], int) else None
        if e[0] in ("p", "l"):
            return env.get(e[0:2])
        if e[0] == "call" and re.search(r"(^|::)(min|max)(::<\w+>)?$", e[1]) and len(e[2]) == 2:
            vs = [ev(x, env) for x in e[2]]
            if any(v is None for v in vs):
                return None
            return max(vs) if "max" in e[1].rsplit("::", 2)[-1] or e[1].endswith("max") or "::max::" in e[1] else min(vs)
        if e[0] == "bin" and e[1] in ("Add", "Sub", "Mul"):
            a, b2 = ev(e[2], env), ev(e[3], env)
            if a is None or b2 is None:
                return None
            return {"Add": a + b2, "Sub": a - b2, "Mul": a * b2}[e[1]]
        if e[0] == "cast":
            return ev(e[2], env)
        return None
    sizes = set([64, 96, 128, 192, 256, 384, 512, 576, 1024, 1152, 2048, 2304, 4096, 4608, 8192, 16384, 32768, 65535, 65534,
                 65280, 49152, 40960])
    for w in range(1, maxw + 1):
        for k in range(0, 16):
            sizes.add(w << k)
            sizes.add((w + 1) << k)
    sizes = sorted(x for x in sizes if lo <= x <= 65535)
    for (b, bi, tt) in callers:
        ex = ExprCtx(b)
        e2 = ex.expr(tt["args"][1])
        e1 = ex.expr(tt["args"][0])
        # the warm-up length is the parameter the second argument depends on; the size argument must be the signal length
        params = sorted(set(x[0:2] for x in E.walk_expr(e2) if isinstance(x, tuple) and x and x[0] in ("p", "l")))
        ok_shape = len(params) == 1 and e1[0] == "len"
        t.row(ok_shape, b.id, "chooser-arguments", "finest_partition_order is called with (%s, %s): expected (length of the "
              "signal, a bound depending on the warm-up length only) - undecided" % (E.show(e1)[:60], E.show(e2)[:80]),
              {"size": E.show(e1)[:60], "bound": E.show(e2)[:80]}, b.loc(bi, "term"))
        if not ok_shape:
            continue
        bad = None
        n = 0
        for w in range(0, maxw + 1):
            m = ev(e2, {params[0]: w})
            if not isinstance(m, int) or m < 1:
                bad = (w, None, None, m)
                break
            for size in sizes:
                if size < w:
                    continue
                o = E.evalv(fin, {1: size, 2: m}, facts)
                n += 1
                if not isinstance(o, int) or o < 0 or o > 15 or size % (1 << o) != 0 or not ((size >> o) > w or (w == 0 and (size >> o) >= 1)):
                    bad = (w, size, o, m)
                    break
            if bad:
                break
        t.row(bad is None, b.id, "partition-longer-than-warm-up", "with warm-up length %s and block size %s the chooser is asked "
              "for partitions of at least %s samples and picks order %s: (block size >> order) = %s is not larger than the "
              "predictor order (or does not divide the block), so the first partition would hold no residual - RFC 9639 "
              "section 9.2.7 forbids that stream" % (bad[0], bad[1], bad[3], bad[2],
                                                   (bad[1] >> bad[2]) if bad[1] is not None and isinstance(bad[2], int) and 0 <= bad[2] < 64 else "?")
              if bad else "", {"grid_points": n, "warm_up_lengths": "0..=%d" % maxw, "block_sizes": len(sizes),
                               "shortest_predicted_block": lo}, b.loc(bi, "term"))
    t.rr.require_floor(3, "partition-length rows")
    return [t.rr]


def last_flag(facts, orc=None):
    """LASTFLAG/maintained: the is-last flag of the metadata chain (STREAMINFO block, then `Stream.metadata`) is an invariant
    of the pair (stream_info.is_last, metadata[*].is_last): exactly the final block carries it.  Every body that can change
    the metadata vector (a mutable borrow of the field, or an assignment to it) must maintain the flags in the same body;
    an accessor that hands out `&mut Vec<MetadataBlock>` lets a caller (the parser) install blocks behind the invariant."""
    t = R("LASTFLAG/maintained", "whoever can change Stream's metadata vector also maintains the is-last flags")
    n = 0
    for b in facts.body_list:
        touches = []
        for bi, si, st in b.iter_stmts():
            if st["k"] != "assign":
                continue
            rv = st["rv"]
            pl = rv.get("pl") if rv["k"] in ("ref", "rawptr") and rv.get("mut") else None
            if pl is not None and ".metadata" in pl["p"] and "component::datatype::Stream" in (b.local_ty(pl["l"]) or ""):
                touches.append((bi, si, "mutable borrow"))
            d = st["dst"]
            if d["p"] and d["p"][-1] == ".metadata" and "component::datatype::Stream" in (b.local_ty(d["l"]) or ""):
                touches.append((bi, si, "assignment"))
        if not touches:
            continue
        n += 1
        keeps = any(st["k"] == "assign" and st["dst"]["p"] and st["dst"]["p"][-1] == ".is_last" for _bi, _si, st in b.iter_stmts())
        bi, si, how = touches[0]
        t.row(keeps, b.id, "metadata-changed-without-flag-update", "%s takes a %s of Stream's metadata vector (%s) and never stores "
              "an is_last flag: blocks installed through it leave the STREAMINFO block (or an earlier block) marked as the last "
              "metadata block, so the stream is written with the wrong last-metadata-block flag (RFC 9639 section 8.1) and does "
              "not re-serialise to the bytes it was parsed from" % (b.id, how, b.loc(bi, si)),
              {"function": b.id, "access": how}, b.loc(bi, si))
    t.rr.require_floor(1, "bodies that change the metadata vector")
    return [t.rr]


def rice_lanes(facts, orc=None):
    """RANGE/rice-parameter-lanes: the 4-bit Rice parameter field must never carry 0b1111 (the escape code).  The cost table
    has one lane per 4-bit value; the parameter search may only look at lanes <= max_p (and max_p <= 14 is C07's RANGE), i.e.
    on every path the table that reaches the minimum reduction has passed the `lane <= max_p` selection."""
    t = R("RANGE/rice-parameter-lanes", "the Rice parameter search only considers cost-table lanes <= max_p on every path")
    from .lib_expr import ExprCtx, show as lshow
    def _mentions_table(b):
        for _b, _s, st in b.iter_stmts():
            if st["k"] != "assign":
                continue
            rv = st["rv"]
            pls = [rv.get("pl")] + [o.get("pl") for o in [rv.get(k) for k in ("op", "a", "b")] if isinstance(o, dict)]
            if any(pl and ".p_to_bits" in pl.get("p", []) for pl in pls):
                return True
        return False
    cands = [b for b in facts.body_list if b.id.startswith("rice::") and _mentions_table(b) and
             any((tt.get("fn") or {}).get("name") in ("reduce_min", "min", "min_by_key", "position_min") for _bi, tt in b.calls())]
    if not cands:
        t.row(False, "rice", "anchor-missing", "no function of the rice module reduces the cost table to its minimum (undecided)")
    for b in cands:
        for bi, tt in b.calls():
            if (tt.get("fn") or {}).get("name") not in ("reduce_min", "min", "min_by_key", "position_min"):
                continue
            e = ExprCtx(b, at=bi).expr(tt["args"][0])

            def bare(x, under):
                """Occurrences of the raw table not under a lane selection."""
                if not isinstance(x, tuple) or not x:
                    return []
                if x[0] == "p" and ".p_to_bits" in x[2]:
                    return [] if under else [x]
                out = []
                if x[0] == "call":
                    nm = x[1]
                    sel = bool(re.search(r"::select$|Mask::<.*>::select$", nm.split("::<")[-1] if False else nm)) and len(x[2]) >= 2
                    if sel:
                        mask = x[2][0]
                        from .lib_expr import contains
                        ok_mask = contains(mask, lambda y: isinstance(y, tuple) and y and y[0] == "call" and
                                           re.search(r"simd_le$|simd_lt$", y[1])) and \
                            contains(mask, lambda y: isinstance(y, tuple) and y and y[0] == "p" and y[1] == 2)
                        for a in x[2][1:]:
                            out += bare(a, under or ok_mask)
                        return out
                    for a in x[2]:
                        out += bare(a, under)
                    return out
                for a in x[1:]:
                    if isinstance(a, tuple):
                        if a and isinstance(a[0], str):
                            out += bare(a, under)
                        else:
                            for z in a:
                                out += bare(z, under)
                return out
            raw = bare(e, False)
            from .lib_expr import contains
            uses_table = contains(e, lambda y: isinstance(y, tuple) and y and y[0] == "p" and ".p_to_bits" in y[2])
            t.row(uses_table and not raw, b.id, "lanes-selected", "the table reduced to its minimum at %s is %s: on some path the "
                  "cost table reaches the reduction without the `lane <= max_p` selection, so lane 15 competes and the 4-bit "
                  "parameter field can carry 0b1111, which RFC 9639 reserves as the escape code" % (b.loc(bi, "term"), lshow(e)[:160]),
                  {"function": b.id, "reduced": lshow(e)[:160]}, b.loc(bi, "term"))
    t.rr.require_floor(1, "cost-table reductions")
    return [t.rr]


def run(facts, tier, ctx):
    orc = oracle()
    out = []
    for fn in (table_block_size, table_sample_rate, table_sample_size, table_channels, table_subframe_types,
               layout_streaminfo, layout_metadata_and_stream, layout_frame_header, order_frame, layout_lpc_residual,
               crc_generators, header_construction, predictor_order, partition_floor, last_flag, rice_lanes):
        try:
            out += fn(facts, orc)
        except E.Undecided as e:
            rr = RuleResult("UNDECIDED/" + fn.__name__, "the effect engine could not structure a body")
            rr.fail(Finding(rr.rule, fn.__name__, "undecided", 0, "", "fail closed: %s" % e))
            out.append(rr)
        except E.FindingSignal as e:
            rr = RuleResult("LAYOUT/" + fn.__name__, "the effect engine found an inconsistency while structuring a body")
            rr.fail(Finding(rr.rule, fn.__name__, getattr(e, "kind", "inconsistent"), 0, "", str(e)))
            out.append(rr)
    return out
