"""MPT — must-pass-through on the non-cleanup CFG, with wrapper summaries and the for-each idiom."""
from .core import Finding


def call_blocks(body, pred):
    """Blocks of `body` whose terminator is a call satisfying pred(term)."""
    return [bi for bi, t in body.calls() if pred(t)]


def callee_def(t):
    fn = t.get("fn")
    return fn["def"] if fn else None


def mpt(body, through, start=0, exits=None):
    """Is every path from `start` to each exit forced through a block in `through`?
    Returns (ok, offending_path|None)."""
    exits = exits if exits is not None else body.returns()
    through = set(through)
    p = body.find_path(start, set(exits), removed=through)
    if p is None:
        return True, None
    return False, p


def mpt_after(body, bb, through, exits=None):
    """Same, but starting after block bb has executed (bb's successors)."""
    exits = exits if exits is not None else body.returns()
    through = set(through)
    for s in body.succ[bb]:
        p = body.find_path(s, set(exits), removed=through)
        if p is not None:
            return False, [bb] + p
    return True, None


def path_str(body, path):
    out = []
    for b in path:
        t = body.term(b)
        d = ""
        if t["k"] == "call" and t.get("fn"):
            d = " (%s :%s)" % (t["fn"]["name"], t.get("line"))
        elif t["k"] == "switch":
            d = " (switch :%s)" % t.get("line")
        elif t["k"] == "ret":
            d = " (return)"
        out.append("bb%d%s" % (b, d))
    return " -> ".join(out)


def performs(facts, body, action_pred, depth=3, _memo=None, closures=True):
    """Blocks of `body` that perform the action on every execution of the block:
       - a direct call satisfying action_pred(term)
       - a call to a local function all of whose exits are must-pass-through the action (wrapper rule)
       - a call passing closures, when every closure argument that can return performs the action on all
         its paths (combinators such as map_or_else / for_each / with)
       - the `into_iter` header of a `for` loop whose body performs the action (for-each idiom)
    """
    if _memo is None:
        _memo = {}
    out = set()
    for bi, t in body.calls():
        if action_pred(t):
            out.add(bi)
            continue
        if depth <= 0:
            continue
        ok = False
        for cid in facts.callee_ids(t):
            cb = facts.bodies[cid]
            if always_performs(facts, cb, action_pred, depth - 1, _memo):
                ok = True
        if not ok and closures:
            cl = []
            for a in t["args"]:
                from .lib_errdisc import closure_arg_body
                c = closure_arg_body(facts, body, a)
                if c is not None:
                    cl.append(c)
            if cl:
                rel = [c for c in cl if c.returns()]
                if rel and all(always_performs(facts, c, action_pred, depth - 1, _memo) for c in rel):
                    ok = True
        if ok:
            out.add(bi)
    # for-each idiom
    extra = set()
    for bi in list(out):
        if bi in body.reachable_after(bi):
            # bi lies on a cycle: credit the dominating into_iter call of a for loop
            for hb, t in body.calls():
                fn = t.get("fn")
                if fn and fn["name"] == "into_iter" and "desugar:ForLoop" in t.get("mac", []) \
                        and body.dominates(hb, bi):
                    # the loop body must perform the action on every iteration: from the `next` Some-edge
                    # back to the header every path passes an action block
                    extra.add(("loop", hb, bi))
    for (_k, hb, bi) in extra:
        # find the `next` call block of this loop (dominated by hb, dominates bi, ForLoop desugar)
        nxt = None
        for nb, t in body.calls():
            fn = t.get("fn")
            if fn and fn["name"] == "next" and "desugar:ForLoop" in t.get("mac", []) and body.dominates(hb, nb) \
                    and body.dominates(nb, bi):
                if nxt is None or body.dominates(nxt, nb):
                    nxt = nb
        if nxt is None:
            continue
        # all paths nxt -> ... -> nxt (one iteration) pass an action block, except the None exit.
        # Approximation that is exact for the loop shape MIR building produces: remove action blocks; the
        # header `nxt` must not be reachable again from the Some-successor.
        body_ok = True
        after = body.reachable_after(nxt, removed=out)
        # the Some edge: successors of the switch following nxt that lead back to nxt in the full graph
        if nxt in after:
            body_ok = False
        if body_ok:
            out.add(hb)
    return out


def always_performs(facts, body, action_pred, depth, _memo):
    key = (body.id, id(action_pred))
    if key in _memo:
        return _memo[key]
    _memo[key] = False  # cycle guard
    rets = body.returns()
    if not rets:
        _memo[key] = False
        return False
    blocks = performs(facts, body, action_pred, depth, _memo)
    ok, _p = mpt(body, blocks, 0, rets)
    _memo[key] = ok
    return ok
