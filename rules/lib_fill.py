"""Shared SIBLING / FORWARD / TABLE rules on the `Fill` implementations (used by C14 and C03)."""
import re

from .core import Finding, RuleResult, FactError
from .lib_expr import ExprCtx, show, walk, strip_casts
from .lib_mpt import mpt, path_str

FILL = "source::Fill"


def P(n, *proj):
    return ("p", n, tuple(proj))


def fill_impl(facts, self_ty, method):
    for b in facts.body_list:
        r = b.raw
        if r.get("impl_trait") == FILL and r.get("impl_self") == self_ty and r.get("name") == method:
            return b
    raise FactError("impl Fill for %s: method %s not found" % (self_ty, method))


def calls_named(body, name):
    return [(bi, t) for bi, t in body.calls() if (t.get("fn") or {}).get("name") == name]


def calls_def(body, suffix):
    return [(bi, t) for bi, t in body.calls()
            if ((t.get("fn") or {}).get("res") or (t.get("fn") or {}).get("def") or "").endswith(suffix)]


def ok_returns(body):
    """Blocks that assign Result::Ok to the return place."""
    out = []
    for bi, si, s in body.iter_stmts():
        if s["k"] == "assign" and s["dst"]["l"] == 0 and not s["dst"]["p"] and s["rv"]["k"] == "agg" \
                and s["rv"].get("variant") == "Ok":
            out.append(bi)
    return out


def field_stores(body, base=1):
    """[(bb, si, field projection tuple, expr)] for assignments into places rooted at local `base`."""
    c = ExprCtx(body)
    out = []
    for bi, si, s in body.iter_stmts():
        if s["k"] != "assign" or s["dst"]["l"] != base or not s["dst"]["p"]:
            continue
        rv = s["rv"]
        if rv["k"] == "bin":
            e = ("bin", rv["op"].replace("WithOverflow", ""), c.expr(rv["a"]), c.expr(rv["b"]))
        elif rv["k"] == "use":
            e = c.expr(rv["op"])
        elif rv["k"] == "cast":
            e = ("cast", rv.get("to"), c.expr(rv["op"]))
        else:
            e = ("?", rv["k"])
        out.append((bi, si, tuple(x for x in s["dst"]["p"] if x != "*"), e))
    return out


def is_call(e, suffix, nargs=None):
    return isinstance(e, tuple) and e[0] == "call" and e[1].endswith(suffix) and (nargs is None or len(e[2]) == nargs)


def fail(rr, rule, func, detail, where, msg):
    rr.fail(Finding(rule, func, detail, 0, where, msg))


def check(rr, cond, rule, body, detail, msg, sample=None):
    if cond:
        rr.ok(dict({"function": body.id, "clause": detail, "verdict": "ok"}, **(sample or {})))
    else:
        rr.fail(Finding(rule, body.id, detail, 0, body.loc(), msg))
    return cond


# ------------------------------------------------------------------------------ FrameBuf

def framebuf_siblings(facts):
    rr = RuleResult("SIBLING/framebuf-fill", "FrameBuf::fill_interleaved and fill_le_bytes de-interleave the same way "
                    "and agree on filled_size")
    FB = "source::FrameBuf"
    fi = fill_impl(facts, FB, "fill_interleaved")
    fb = fill_impl(facts, FB, "fill_le_bytes")
    shapes = {}
    for body, kind in ((fi, "ints"), (fb, "bytes")):
        c = ExprCtx(body)
        dcalls = calls_def(body, "arrayutils::deinterleave")
        if not check(rr, len(dcalls) == 1, rr.rule, body, "one-deinterleave-call",
                     "%s calls deinterleave %d times (expected exactly once)" % (body.id, len(dcalls))):
            continue
        dbi, dt = dcalls[0]
        args = [c.expr(a) for a in dt["args"]]
        oks = ok_returns(body)
        okp, path = mpt(body, [dbi], 0, oks)
        check(rr, okp and oks, rr.rule, body, "deinterleave-on-every-ok-path",
              "an Ok return of %s is reachable without de-interleaving the block: %s"
              % (body.id, path_str(body, path) if path else "no Ok return found"))
        check(rr, is_call(args[1], "source::FrameBuf::channels") and args[1][2] == (P(1),), rr.rule, body,
              "deinterleave-channels=self.channels()", "channel count passed to deinterleave is %s" % show(args[1]))
        check(rr, is_call(args[2], "source::FrameBuf::size") and args[2][2] == (P(1),), rr.rule, body,
              "deinterleave-stride=self.size()", "stride passed to deinterleave is %s" % show(args[2]))
        check(rr, args[3] == P(1, ".samples"), rr.rule, body, "deinterleave-dest=self.samples",
              "destination passed to deinterleave is %s" % show(args[3]))
        # number of i32 samples handed over
        if kind == "ints":
            check(rr, args[0] == P(2), rr.rule, body, "deinterleave-input=argument",
                  "input passed to deinterleave is %s, not the `interleaved` argument" % show(args[0]))
            count = ("len", P(2))
        else:
            check(rr, args[0] == P(1, ".readbuf"), rr.rule, body, "deinterleave-input=self.readbuf",
                  "input passed to deinterleave is %s, not the conversion buffer" % show(args[0]))
            conv = calls_def(body, "arrayutils::le_bytes_to_i32s")
            rs = [(bi, t) for bi, t in calls_named(body, "resize") if c.expr(t["args"][0]) == P(1, ".readbuf")]
            if check(rr, len(conv) == 1 and len(rs) == 1, rr.rule, body, "one-conversion-into-resized-readbuf",
                     "expected one le_bytes_to_i32s call and one readbuf.resize, found %d / %d" % (len(conv), len(rs))):
                cbi, ct = conv[0]
                rbi, rt = rs[0]
                cargs = [c.expr(a) for a in ct["args"]]
                check(rr, cargs == [P(2), P(1, ".readbuf"), P(3)], rr.rule, body,
                      "conversion-args=(bytes, readbuf, bytes_per_sample)",
                      "le_bytes_to_i32s is called with (%s)" % ", ".join(show(a) for a in cargs))
                n = c.expr(rt["args"][1])
                check(rr, n == ("bin", "Div", ("len", P(2)), P(3)), rr.rule, body,
                      "readbuf-length=len(bytes)/bytes_per_sample", "readbuf is resized to %s" % show(n))
                check(rr, body.dominates(rbi, cbi) and body.dominates(cbi, dbi), rr.rule, body,
                      "resize->convert->deinterleave order",
                      "resize (bb%d), conversion (bb%d) and deinterleave (bb%d) are not in dominance order"
                      % (rbi, cbi, dbi))
                count = n
            else:
                count = None
        st = [s for s in field_stores(body) if s[2] == (".filled_size",)]
        if check(rr, len(st) == 1, rr.rule, body, "one-filled_size-store",
                 "%s assigns filled_size %d times" % (body.id, len(st))):
            (sbi, ssi, _f, e) = st[0]
            want = ("bin", "Div", count, ("call", "source::FrameBuf::channels", (P(1),), ()))
            check(rr, count is not None and e == want, rr.rule, body, "filled_size=samples/channels",
                  "filled_size is set to %s; expected (samples handed to deinterleave)/self.channels() = %s"
                  % (show(e), show(want) if count else "?"), {"filled_size": show(e)})
            okp, path = mpt(body, [sbi], 0, oks)
            check(rr, okp, rr.rule, body, "filled_size-on-every-ok-path",
                  "an Ok return is reachable without updating filled_size: %s" % (path_str(body, path) if path else ""))
        shapes[kind] = True
    rr.require_floor(22, "clauses over the two FrameBuf fills")
    return [rr]


# ------------------------------------------------------------------------------ Context

def div_chain(e):
    """(root, [divisors]) for nested Div expressions."""
    divs = []
    while isinstance(e, tuple) and e[0] == "bin" and e[1] == "Div":
        divs.append(e[3])
        e = e[2]
    return e, divs


def _to_lexpr(e):
    """lib_effect value -> the lib_expr shape the clauses below compare with (p/len/bin/c/cast)."""
    from . import lib_effect as E
    e = E.strip_casts(e)
    if not isinstance(e, tuple) or not e:
        return e
    if e[0] == "ovf":
        return _to_lexpr(e[1])
    if e[0] == "p":
        return ("p", e[1], tuple(e[2]))
    if e[0] == "len":
        return ("len", _to_lexpr(e[1]))
    if e[0] == "bin":
        return ("bin", e[1], _to_lexpr(e[2]), _to_lexpr(e[3]))
    if e[0] == "c":
        return ("c", e[1], e[2])
    return e


def context_siblings(facts):
    rr = RuleResult("SIBLING/context-fill", "Context::fill_interleaved and fill_le_bytes update the same state the same "
                    "way and hash the little-endian bytes of the byte-rounded width")
    CT = "source::Context"
    fi = fill_impl(facts, CT, "fill_interleaved")
    fb = fill_impl(facts, CT, "fill_le_bytes")
    empties = {}
    for body, kind in ((fi, "ints"), (fb, "bytes")):
        c = ExprCtx(body)
        # field updates are read off the effect interpreter (private `&mut self` helpers inlined, early return or if/else)
        from . import lib_effect as E
        from .c11 import _leaves
        ectx = E.Ctx(body.facts if hasattr(body, "facts") else facts)
        ectx.track_fields = True
        ectx.open_loops = True
        itp = E.Interp(ectx, body)
        try:
            itp.run()
            fvals = {k[1]: v for k, v in itp.fields.items() if k[0] == "arg1"}
        except E.Undecided as e:
            fvals = None
            check(rr, False, rr.rule, body, "undecided", "cannot summarise %s: %s" % (body.id, e))
        stores = []
        guarded_by_empty = None
        if fvals is not None:
            fields = sorted(fvals)
            check(rr, fields == [(".frame_count",), (".sample_count",)], rr.rule, body, "writes={sample_count,frame_count}",
                  "%s writes the fields %s (expected exactly sample_count and frame_count)" % (body.id, fields))
            guarded_by_empty = True
            for f, v in sorted(fvals.items()):
                changed = []
                unchanged_on_empty = False
                for conds, leaf in _leaves(v):
                    old = ("p", 1, f)
                    emp = [lab for cnd, lab in conds if "is_empty(arg2)" in E.canon(cnd) or E.canon(cnd) in ("(0 Eq len(arg2))", "(len(arg2) Eq 0)")]
                    if E.strip_casts(leaf) == old:
                        if emp:
                            unchanged_on_empty = True
                        continue
                    changed.append(leaf)
                if not unchanged_on_empty:
                    guarded_by_empty = False
                for leaf in changed:
                    stores.append((0, 0, f, _to_lexpr(E.strip_casts(leaf))))
        ups = [(bi, t) for bi, t in calls_named(body, "update")]
        if check(rr, len(ups) == 1, rr.rule, body, "one-md5-update", "%d digest update calls" % len(ups)):
            ubi, ut = ups[0]
            recv = c.expr(ut["args"][0])
            data = c.expr(ut["args"][1])
            check(rr, recv == P(1, ".md5"), rr.rule, body, "update-receiver=self.md5",
                  "digest update is applied to %s" % show(recv))
            if kind == "bytes":
                check(rr, data == P(2), rr.rule, body, "hashes-the-packed-bytes-unchanged",
                      "digest input is %s, not the `bytes` argument" % show(data))
            else:
                # index(to_le_bytes(<elem of arg2>), Range{0, self.bytes_per_sample})
                ok = is_call(data, "::index", 2) and data[2][1] == (
                    "agg", "std::ops::Range", "Range", (("c", 0, None), P(1, ".bytes_per_sample")))
                src = data[2][0] if ok else None
                ok = ok and is_call(src, "::to_le_bytes", 1)
                elem = src[2][0] if ok else None
                ok = ok and any(x == P(2) for x in walk(elem)) and any(
                    is_call(x, "::next") for x in walk(elem))
                check(rr, ok, rr.rule, body, "hashes-le-bytes[0..bytes_per_sample]-of-every-sample",
                      "digest input is %s; expected v.to_le_bytes()[0..self.bytes_per_sample] for each v of the "
                      "argument" % show(data), {"digest_input": show(data)})
                # the update sits in a loop over the argument: it lies on a cycle
                check(rr, ubi in body.reachable_after(ubi), rr.rule, body, "update-inside-loop-over-samples",
                      "the digest update is not inside a loop")
        for (sbi, ssi, f, e) in stores:
            if f == (".frame_count",):
                check(rr, e == ("bin", "Add", P(1, ".frame_count"), ("c", 1, None)), rr.rule, body, "frame_count+=1",
                      "frame_count is set to %s" % show(e))
            if f == (".sample_count",):
                ok = isinstance(e, tuple) and e[0] == "bin" and e[1] == "Add" and e[2] == P(1, ".sample_count")
                root, divs = div_chain(e[3]) if ok else (None, [])
                want = [P(1, ".channels")] if kind == "ints" else None
                if kind == "ints":
                    ok = ok and root == ("len", P(2)) and divs == [P(1, ".channels")]
                else:
                    ok = ok and root == ("len", P(2)) and len(divs) == 2 and P(1, ".channels") in divs and \
                        any(d in (P(3), P(1, ".bytes_per_sample")) for d in divs if d != P(1, ".channels"))
                check(rr, ok, rr.rule, body, "sample_count+=len/channels" + ("/bytes_per_sample" if kind == "bytes" else ""),
                      "sample_count is set to %s" % show(e), {"sample_count": show(e)})
        # empty-block handling: on an empty argument both fields keep their values
        empties[kind] = bool(guarded_by_empty) and bool(stores)
    check(rr, empties.get("ints") == empties.get("bytes"), rr.rule, fi, "same-empty-block-handling",
          "fill_interleaved %s empty blocks but fill_le_bytes %s them: frame numbering differs between the delivery "
          "paths" % ("skips" if empties.get("ints") else "counts", "skips" if empties.get("bytes") else "counts"))
    rr.require_floor(14, "clauses over the two Context fills")
    return [rr]


# ------------------------------------------------------------------------------ ParContext

def parcontext_siblings(facts):
    rr = RuleResult("SIBLING/parcontext-fill", "ParContext's fills enqueue one block per call, converted with the "
                    "context's own byte width, and the hashing thread applies Context::fill_le_bytes with that width")
    PC = "par::ParContext"
    fi = fill_impl(facts, PC, "fill_interleaved")
    fb = fill_impl(facts, PC, "fill_le_bytes")
    for body, kind in ((fi, "ints"), (fb, "bytes")):
        c = ExprCtx(body)
        enq = calls_def(body, "par::ParContext::enqueue_buffer")
        oks = ok_returns(body)
        if not check(rr, len(enq) == 1 and c.expr(enq[0][1]["args"][0]) == P(1), rr.rule, body, "one-enqueue",
                     "%d enqueue_buffer(self) calls" % len(enq)):
            continue
        ebi = enq[0][0]
        okp, path = mpt(body, [ebi], 0, oks)
        check(rr, okp and oks, rr.rule, body, "enqueue-on-every-ok-path",
              "an Ok return is reachable without enqueuing the block for hashing: %s" % (path_str(body, path) if path else ""))
        if kind == "ints":
            conv = calls_def(body, "arrayutils::i32s_to_le_bytes")
            rs = [(bi, t) for bi, t in calls_named(body, "resize") if c.expr(t["args"][0]) == P(1, ".bytebuf")]
            if check(rr, len(conv) == 1 and len(rs) == 1, rr.rule, body, "resize+convert", "expected one "
                     "bytebuf.resize and one i32s_to_le_bytes, found %d / %d" % (len(rs), len(conv))):
                cargs = [c.expr(a) for a in conv[0][1]["args"]]
                check(rr, cargs == [P(2), P(1, ".bytebuf"), P(1, ".bytes_per_sample")], rr.rule, body,
                      "convert-args=(samples, bytebuf, self.bytes_per_sample)",
                      "i32s_to_le_bytes is called with (%s)" % ", ".join(show(a) for a in cargs))
                n = c.expr(rs[0][1]["args"][1])
                check(rr, n in (("bin", "Mul", ("len", P(2)), P(1, ".bytes_per_sample")),
                                ("bin", "Mul", P(1, ".bytes_per_sample"), ("len", P(2)))), rr.rule, body,
                      "bytebuf-length=len*bytes_per_sample", "bytebuf is resized to %s" % show(n))
                check(rr, body.dominates(rs[0][0], conv[0][0]) and body.dominates(conv[0][0], ebi), rr.rule, body,
                      "resize->convert->enqueue order", "resize / convert / enqueue not in dominance order")
        else:
            cl = [(bi, t) for bi, t in calls_named(body, "clear") if c.expr(t["args"][0]) == P(1, ".bytebuf")]
            ex = [(bi, t) for bi, t in calls_named(body, "extend_from_slice")
                  if c.expr(t["args"][0]) == P(1, ".bytebuf")]
            if check(rr, len(cl) == 1 and len(ex) == 1, rr.rule, body, "clear+extend",
                     "expected bytebuf.clear() and bytebuf.extend_from_slice(bytes), found %d / %d" % (len(cl), len(ex))):
                check(rr, c.expr(ex[0][1]["args"][1]) == P(2), rr.rule, body, "copies-the-bytes-unchanged",
                      "bytebuf is extended with %s" % show(c.expr(ex[0][1]["args"][1])))
                check(rr, body.dominates(cl[0][0], ex[0][0]) and body.dominates(ex[0][0], ebi), rr.rule, body,
                      "clear->extend->enqueue order", "clear / extend / enqueue not in dominance order")
    # enqueue_buffer sends (a clone of) self.bytebuf
    eb = facts.body("par::ParContext::enqueue_buffer")
    c = ExprCtx(eb)
    sends = calls_def(eb, "Sender::<T>::send")
    def _is_copy_of_bytebuf(e):
        # self.bytebuf.clone() (a pass-through for the expression builder), .to_vec(), .to_owned(), Vec::from(..)
        if e == P(1, ".bytebuf"):
            return True
        return isinstance(e, tuple) and e and e[0] == "call" and re.search(r"::(to_vec|to_owned|from|clone|into)$", e[1] or "") \
            and len(e[2]) == 1 and _is_copy_of_bytebuf(e[2][0])
    check(rr, len(sends) == 1 and _is_copy_of_bytebuf(c.expr(sends[0][1]["args"][1])), rr.rule, eb,
          "enqueue-sends-bytebuf", "enqueue_buffer sends %s" % [show(c.expr(t["args"][1])) for _b, t in sends])
    # constructor + hashing thread
    new = facts.body("par::ParContext::new")
    c = ExprCtx(new)
    agg = [s["rv"] for _b, _s, s in new.iter_stmts() if s["k"] == "assign" and s["dst"]["l"] == 0
           and s["rv"]["k"] == "agg" and s["rv"].get("adt") == PC]
    bps_call = ("call", "source::Context::bytes_per_sample", (P(1),), ())
    if check(rr, len(agg) == 1, rr.rule, new, "one-constructor-aggregate", "%d aggregates" % len(agg)):
        fields = [f["name"] for f in facts.adts[PC]["variants"][0]["fields"]]
        vals = dict(zip(fields, [c.expr(o) for o in agg[0]["ops"]]))
        check(rr, vals.get("bytes_per_sample") == bps_call, rr.rule, new, "bytes_per_sample=inner.bytes_per_sample()",
              "ParContext.bytes_per_sample is initialised with %s" % show(vals.get("bytes_per_sample")))
    hcl = [b for b in facts.closures_of(new) if calls_def(b, "as source::Fill>::fill_le_bytes")]
    if check(rr, len(hcl) == 1, rr.rule, new, "hashing-thread-closure", "%d closures apply fill_le_bytes" % len(hcl)):
        h = hcl[0]
        hc = ExprCtx(h)
        bi, t = calls_def(h, "as source::Fill>::fill_le_bytes")[0]
        fn = t["fn"]
        check(rr, (fn.get("res") or "") == "<source::Context as source::Fill>::fill_le_bytes", rr.rule, h,
              "applies-Context::fill_le_bytes", "hashing thread applies %s" % fn.get("res"))
        a = [hc.expr(x) for x in t["args"]]
        data_ok = any(is_call(x, "Receiver::<T>::recv") for x in walk(a[1]))
        check(rr, data_ok, rr.rule, h, "hashes-the-received-block", "fill_le_bytes data argument is %s" % show(a[1]))
        # captured byte width: which capture index, and what the parent stored there
        cap = a[2]
        ok = False
        if cap[0] == "p" and cap[1] == 1 and len(cap[2]) == 1 and re.match(r"^\.\d+$", cap[2][0]):
            idx = int(cap[2][0][1:])
            for _b, _s, s in new.iter_stmts():
                if s["k"] == "assign" and s["rv"]["k"] == "agg" and s["rv"].get("closure") == h.id:
                    ok = c.expr(s["rv"]["ops"][idx]) == bps_call
        check(rr, ok, rr.rule, h, "thread-byte-width=inner.bytes_per_sample()",
              "the byte width the hashing thread passes is %s" % show(cap))
    rr.require_floor(18, "clauses over the ParContext fills, constructor and hashing thread")
    return [rr]


# ------------------------------------------------------------------------------ FORWARD

def forward_impls(facts):
    rr = RuleResult("FORWARD", "wrapper impls of Fill forward both methods, with the same arguments, to every "
                    "component and propagate each result")
    found = 0
    for b in facts.body_list:
        r = b.raw
        if r.get("impl_trait") != FILL or r.get("name") not in ("fill_interleaved", "fill_le_bytes"):
            continue
        st = r.get("impl_self") or ""
        if st == "(T, U)":
            comps = [P(1, ".0"), P(1, ".1")]
        elif st == "&mut T":
            comps = [P(1)]
        else:
            continue
        found += 1
        # read off the effect interpreter: the calls made (closures of and_then / match arms included), their arguments,
        # and which of them must have returned Ok for the wrapper to return Ok
        from . import lib_effect as E
        from .c11 import _leaves
        ectx = E.Ctx(facts)
        ectx.open_loops = True
        ectx.collect_asserts = True
        ectx.log_calls = r"source::Fill::(fill_interleaved|fill_le_bytes)$|Fill>::(fill_interleaved|fill_le_bytes)$"
        itp = E.Interp(ectx, b)
        try:
            itp.run()
        except E.Undecided as e:
            check(rr, False, rr.rule, b, "undecided", "cannot summarise %s: %s" % (b.id, e))
            continue
        logged = []
        for cl_ in ectx.calls:
            if cl_[3] != b.id and not cl_[3].startswith(b.id + "::{closure"):
                continue
            key = (cl_[0], tuple(E.canon(a) for a in cl_[1]))
            if key not in [k for k, _c in logged]:
                logged.append((key, cl_))
        want_rest = ["arg%d" % i for i in range(2, b.argc + 1)]
        comp_names = [show(x) for x in comps]
        ckeys = ["arg1" + "".join(x[2]) if isinstance(x, tuple) and x[0] == "p" else str(x) for x in comps]
        same_method = [(k, c_) for k, c_ in logged if k[0].endswith("::" + r["name"])]
        for comp, ck in zip(comps, ckeys):
            hits = [k for k, _c in same_method if k[1] and k[1][0] == ck]
            check(rr, len(hits) == 1 and list(hits[0][1][1:]) == want_rest, rr.rule, b,
                  "forwards-%s-to-%s" % (r["name"], show(comp)),
                  "%s forwards to component %s %d time(s) with arguments %s" %
                  (b.id, show(comp), len(hits), [list(h[1][1:]) for h in hits]))
        others = [k[0] for k, _c in logged if not k[0].endswith("::" + r["name"])]
        check(rr, not others, rr.rule, b, "no-cross-method-forwarding", "%s also calls %s" % (b.id, others))
        # results: whenever the wrapper returns Ok, every forwarded call returned Ok
        call_keys = [E.canon(("call", c_[0], c_[1], ())) for _k, c_ in same_method]

        def required_ok(rv, conds):
            need = set()
            for f_ in itp.assume:
                if f_[0] == "okcall":
                    need.add(E.canon(("call", f_[1], f_[2], ())))
                if f_[0] == "cond" and f_[2] == 0:
                    c1 = E.strip_casts(f_[1])
                    if isinstance(c1, tuple) and c1 and c1[0] == "discr":
                        need.add(E.canon(c1[1]))
            for cnd, labs in conds:
                c0 = E.strip_casts(cnd)
                if isinstance(c0, tuple) and c0 and c0[0] == "discr" and labs == (0,):
                    need.add(E.canon(c0[1]))
                if isinstance(c0, tuple) and c0 and c0[0] == "discr" and isinstance(c0[1], tuple) and c0[1][0] == "branch" and labs == (0,):
                    need.add(E.canon(c0[1][1]))
            r0 = E.strip_casts(rv)
            stack = [r0]
            while stack:
                x = stack.pop()
                if isinstance(x, tuple) and x and x[0] == "allok":
                    stack.extend(x[1])
                elif isinstance(x, tuple) and x and x[0] == "okif":
                    stack.append(x[1])
                elif isinstance(x, tuple) and x and x[0] == "call":
                    need.add(E.canon(x))
            return need
        okp = True
        missing = []
        for conds, leaf in _leaves(itp.retval):
            l0 = E.strip_casts(leaf)
            if isinstance(l0, tuple) and l0 and l0[0] == "agg" and l0[2] == "Err":
                continue
            need = required_ok(leaf, conds)
            for i, ck in enumerate(call_keys):
                if not any(ck == n or ck in n for n in need):
                    okp = False
                    missing.append(i)
        for i, (_k, c_) in enumerate(same_method):
            check(rr, i not in missing, rr.rule, b, "result-propagated#%d" % i,
                  "the Result of the forwarded call at %s is not propagated: the wrapper can return Ok although that call "
                  "failed" % c_[2])
    if found < 4:
        raise FactError("wrapper impls of Fill found: %d (expected (T,U) and &mut T, two methods each)" % found)
    rr.require_floor(16, "forwarding clauses")
    return [rr]


# ------------------------------------------------------------------------------ TABLE

def eq_dispatch(body, param):
    """{constant: (call term, bb)} for `if param == k { callee(..) }` chains."""
    c = ExprCtx(body)
    tab = {}
    for bi in sorted(body.live):
        t = body.term(bi)
        if t["k"] != "switch":
            continue
        e = c.expr(t["d"])
        if e == P(param):
            # `match param { 1 => f1(..), 2 => f2(..), .. }`
            for v, tgt in t["vals"]:
                call = _first_local_call(body, tgt)
                if call and isinstance(v, int):
                    tab[v] = call
            continue
        if not (isinstance(e, tuple) and e[0] == "bin" and e[1] == "Eq"):
            continue
        a, b_ = e[2], e[3]
        if b_ == P(param) and a[0] == "c":
            a, b_ = b_, a
        if a != P(param) or b_[0] != "c":
            continue
        k = b_[1]
        false_t = [x for v, x in t["vals"] if v == 0]
        true_t = t["else"] if false_t else None
        if true_t is None:
            continue
        call = _first_local_call(body, true_t)
        if call:
            tab[k] = call
    return tab


def _first_local_call(body, start):
    """first call of a crate function reachable from `start` before any further branching"""
    cur = start
    seen = set()
    while cur not in seen:
        seen.add(cur)
        tt = body.term(cur)
        if tt["k"] == "call" and (tt.get("fn") or {}).get("local"):
            return (tt, cur)
        if tt["k"] == "goto":
            cur = tt["t"]
            continue
        if tt["k"] == "call" and "t" in tt:
            cur = tt["t"]
            continue
        break
    return None


def width_tables(facts):
    rr = RuleResult("TABLE/width+channel-dispatch", "byte-width and channel-count dispatch tables agree with the "
                    "dispatched bodies")
    # ---- le_bytes_to_i32s
    b = facts.body("arrayutils::le_bytes_to_i32s")
    tab = eq_dispatch(b, 3)
    widths = sorted(tab)
    check(rr, widths == [1, 2, 3, 4], rr.rule, b, "widths-1..=4-dispatched", "dispatched byte widths: %s" % widths)
    for k in widths:
        t, bi = tab[k]
        g = t["fn"].get("gargs") or []
        check(rr, t["fn"]["def"].endswith("le_bytes_to_i32s_impl") and g == [str(k)], rr.rule, b,
              "width-%s->impl::<%s>" % (k, k), "byte width %s is converted by %s::<%s>" % (k, t["fn"]["def"], g),
              {"width": k, "callee": t["fn"]["def"], "const_arg": g})
        c = ExprCtx(b)
        a = [c.expr(x) for x in t["args"]]
        check(rr, a == [P(1), P(2)], rr.rule, b, "width-%s-args" % k, "arguments %s" % [show(x) for x in a])
    # ---- the generic instance
    imp = facts.body("arrayutils::le_bytes_to_i32s_impl")
    c = ExprCtx(imp)
    pad = ("bin", "Sub", ("c", 4, None), ("c", "BPS", None))
    shifts = []
    for bi, si, s in imp.iter_stmts():
        if s["k"] == "assign" and s["rv"]["k"] == "bin" and s["rv"]["op"] in ("Shr", "ShrUnchecked"):
            shifts.append((c.expr(s["rv"]["a"]), c.expr(s["rv"]["b"])))
    if check(rr, len(shifts) == 1, rr.rule, imp, "one-sign-extending-shift", "%d right shifts" % len(shifts)):
        val, amt = shifts[0]
        amt = strip_casts(amt)
        check(rr, amt == ("bin", "Mul", pad, ("c", 8, None)), rr.rule, imp, "shift=(4-BPS)*8",
              "shift amount is %s" % show(amt), {"shift": show(amt)})
        check(rr, is_call(val, "::from_le_bytes", 1), rr.rule, imp, "little-endian-constructor",
              "the shifted value is %s" % show(val)[:120])
        check(rr, (imp.local_ty(0) or "") == "()" and any("i32" in (t["fn"].get("res") or t["fn"].get("def") or "") or
              "i32" in str(t["fn"].get("self_ty")) for _bi, t in calls_named(imp, "from_le_bytes")), rr.rule, imp,
              "signed-32-bit-constructor", "from_le_bytes is not i32::from_le_bytes")
    cl = facts.closures_of(imp)
    placed = False
    for cb in cl:
        cc = ExprCtx(cb)
        for bi in sorted(cb.live):
            t = cb.term(bi)
            if t["k"] == "switch":
                e = cc.expr(t["d"])
                if isinstance(e, tuple) and e[0] == "bin" and e[1] == "Lt" and e[3] == pad:
                    placed = True
    check(rr, placed, rr.rule, imp, "bytes-placed-from-offset-4-BPS",
          "no `i < 4 - BPS` placement test found in the byte-gathering closure")
    step = [1 for bi, si, s in imp.iter_stmts() if s["k"] == "assign" and s["rv"]["k"] == "bin"
            and s["rv"]["op"].startswith("Add") and c.expr(s["rv"]["b"]) == ("c", "BPS", None)]
    check(rr, bool(step), rr.rule, imp, "input-advances-by-BPS", "no `t += BPS` found")
    # ---- i32s_to_le_bytes
    ib = facts.bodies.get("arrayutils::i32s_to_le_bytes")
    if ib is not None:
        c = ExprCtx(ib)
        rng = [c.expr(t["args"][0]) for bi, t in calls_named(ib, "into_iter")]
        check(rr, ("agg", "std::ops::Range", "Range", (("c", 0, None), P(3))) in rng, rr.rule, ib,
              "emits-bytes-0..bytes_per_sample", "loop ranges: %s" % [show(x) for x in rng])
        check(rr, bool(calls_named(ib, "to_le_bytes")) and not calls_named(ib, "to_be_bytes"), rr.rule, ib,
              "little-endian-bytes", "i32s_to_le_bytes does not use to_le_bytes")
    # ---- deinterleave
    d = facts.body("arrayutils::deinterleave")
    tab = eq_dispatch(d, 2)
    chans = sorted(tab)
    check(rr, chans == list(range(1, 9)), rr.rule, d, "channels-1..=8-dispatched", "dispatched channel counts: %s" % chans)
    for k in chans:
        t, bi = tab[k]
        cid = t["fn"].get("res") or t["fn"]["def"]
        cb = facts.bodies.get(cid)
        if cb is None:
            check(rr, False, rr.rule, d, "channels-%s-callee" % k, "callee %s has no body" % cid)
            continue
        c = ExprCtx(d)
        a = [c.expr(x) for x in t["args"]]
        check(rr, a == [P(1), P(3), P(4)], rr.rule, d, "channels-%s-args" % k,
              "channel count %s: arguments %s" % (k, [show(x) for x in a]))
        cc = ExprCtx(cb)
        divs = set()
        for _bi, _si, s in cb.iter_stmts():
            if s["k"] == "assign" and s["rv"]["k"] == "bin" and s["rv"]["op"] == "Div":
                dv = cc.expr(s["rv"]["b"])
                if dv[0] == "c":
                    divs.add(dv[1])
        if k == 1:
            check(rr, not divs, rr.rule, d, "channels-1-plain-copy", "mono body divides by %s" % sorted(divs))
        else:
            check(rr, divs == {k}, rr.rule, d, "channels-%s->body-dividing-by-%s" % (k, k),
                  "channel count %s is handled by %s, which divides the lengths by %s" % (k, cid, sorted(divs)),
                  {"channels": k, "callee": cid})
    rr.require_floor(34, "dispatch rows and instance clauses")
    return [rr]


def feeder_body(facts):
    """The par feeder by role: the function of module `par` whose body calls Source::read_samples."""
    out = [b for b in facts.body_list if b.module == "par" and b.kind == "Fn" and any(
        re.search(r"Source>::read_samples", (t.get("fn") or {}).get("full") or "") for _bi, t in b.calls())]
    if len(out) != 1:
        raise FactError("par feeder (caller of read_samples) not found uniquely: %s" % [b.id for b in out])
    return out[0]
