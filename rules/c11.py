"""C11 — bit sinks behave as an ideal MSB-first bit string (narrow structural clauses)."""
import re

from .core import Finding, RuleResult, FactError, op_local
from .lib_cast import dominating_bounds, idents
from . import witness

PROPERTY = "C11"
TECHNIQUE = ("SHIFTGUARD (zero-width guard dominating width-complement shifts, interprocedural for private helpers) + "
             "CALLSET on the trait's default methods + SIBLING on the write_bytes_aligned overrides + FILLSTATE + "
             "GROWTH/ceil + LENGTH (field-effect summary of self.bitlength per operation) + PADFORMULA + WIDTH/const + "
             "compile-fail witnesses for the sealed operand traits")
EXPLANATION = (
    "Narrow claim. Decided: (SHIFTGUARD) in the write_msbs / write_lsbs / write_zeros bodies of every BitSink impl and "
    "in the private helpers they call, every shift whose amount is `BITS - n` for a width parameter n (the expression "
    "that overflows exactly for n = 0, which the statement includes: 'any n from 0') is dominated by a guard that "
    "excludes n = 0, or is a wrapping/checked shift; for a private helper the guard may sit at every call site; "
    "(CALLSET) the default methods of the BitSink trait call, on self, only methods of the trait, and reduce to the "
    "required ones, so a user sink that implements only the required operations sees every bit through them; "
    "(SIBLING) every override of write_bytes_aligned begins with align_to_byte; (TYPESTATE) user types cannot be "
    "written and the operand traits cannot be implemented outside the crate (three witnesses with twins); (LENGTH) "
    "the 'same length' clause: the effect interpreter summarises the final value of self.bitlength for each of the "
    "twelve BitSink methods of MemSink<u8>/MemSink<u64> (helpers inlined, loops summed, generic operand width "
    "resolved), and every leaf of the case tree must equal the initial length plus the ideal count (operand width, "
    "n, zero-run length, byte padding, padding + 8*len); (PADFORMULA) the fill readers return (-bitlength) mod "
    "word/byte width; (WIDTH/const) the sealed operand trait's BITS/BYTES/BITS_LOG2 evaluate to the type's width "
    "for every implementor. NOT "
    "decided: bit-exactness of the shift/carry arithmetic over offsets x widths (numerical).")
NOT_DECIDED = "bit-exact behaviour of the sinks (shift/carry arithmetic); zero-width two's-complement fields"
ASSUMPTIONS = []

SHIFT_TRAITS = {"std::ops::Shl": "shl", "std::ops::Shr": "shr", "std::ops::ShlAssign": "shl_assign",
                "std::ops::ShrAssign": "shr_assign"}


def width_complement_param(body, op):
    """If op is (a copy of) `X - n` with n derived from exactly one parameter, return that parameter (l, proj)."""
    for o in body.origins(op):
        rv = None
        if o[0] == "rv":
            rv = o[3]
        elif o[0] == "cast":
            continue
        if rv is None or rv["k"] != "bin" or not rv["op"].startswith("Sub"):
            return None
        ids = idents(body.origins(rv["b"]))
        ps = [i for i in ids if i[0] == "param"]
        if len(ids) == 1 and ps:
            # the minuend must be a width constant (BITS / 64 / 32 ..), i.e. not data
            a = rv["a"]
            if a.get("k") == "const":
                return (ps[0][1], ps[0][2])
    return None


def shift_sites(body):
    """[(bb, amount_operand, text)] for non-wrapping shifts in a body."""
    out = []
    for bi, t in body.calls():
        fn = t.get("fn") or {}
        if fn.get("trait") in SHIFT_TRAITS and len(t["args"]) == 2:
            out.append((bi, t["args"][1], "%s %s" % (fn["name"], body.loc(bi, "term"))))
    for bi, si, s in body.iter_stmts():
        if s["k"] == "assign" and s["rv"]["k"] == "bin" and s["rv"]["op"] in ("Shl", "Shr"):
            out.append((bi, s["rv"]["b"], "%s %s" % (s["rv"]["op"], body.loc(bi, si))))
    return out


def _replace(e, old, new):
    if e == old:
        return new
    if not isinstance(e, tuple) or not e:
        return e
    return tuple(_replace(x, old, new) if isinstance(x, tuple) else x for x in e)


def _strip_all(e):
    """Remove casts and overflow wrappers everywhere in an expression (for row evaluation)."""
    if not isinstance(e, tuple) or not e:
        return e
    if e[0] == "cast":
        return _strip_all(e[2])
    if e[0] == "ovf":
        return _strip_all(e[1])
    return tuple(_strip_all(x) if isinstance(x, tuple) else x for x in e)


def run(facts, tier, ctx):
    out = []
    impls = facts.impls_of_trait("bitsink::BitSink")
    if len(impls) < 2:
        raise FactError("BitSink impls: %d" % len(impls))
    trait = facts.traits["bitsink::BitSink"]
    required = set(i["name"] for i in trait["items"] if not i["has_default"] and i["kind"].startswith("Fn"))
    defaults = set(i["name"] for i in trait["items"] if i["has_default"] and i["kind"].startswith("Fn"))

    # ----------------------------------------------------------- SHIFTGUARD
    sg = RuleResult("SHIFTGUARD", "width-complement shifts (`BITS - n`) are dominated by a guard excluding n = 0")
    roots = []
    for imp in impls:
        for name in ("write_msbs", "write_lsbs", "write_zeros"):
            b = facts.impl_method(imp, name)
            if b is not None:
                roots.append(b)
    # private helpers: inherent methods of the sink types reachable from the roots
    universe = {}
    for b in roots:
        universe[b.id] = b
    work = list(roots)
    while work:
        b = work.pop()
        for c in facts.callee_bodies(b, trait_fanout=False):
            if c.id not in universe and (c.raw.get("impl_self") or "").startswith("bitsink::MemSink") \
                    and not c.raw.get("impl_trait"):
                universe[c.id] = c
                work.append(c)

    def guarded_at_call_sites(helper, param):
        """All call sites of a private helper pass an argument for `param` that is guarded >= 1 there."""
        sites = 0
        for b in facts.body_list:
            for bi, t in b.calls():
                if (t.get("fn") or {}).get("def") != helper.id:
                    continue
                sites += 1
                arg = t["args"][param[0] - 1]
                # a non-zero constant width (the operand type's BITS, or a literal) needs no guard
                cons = [o[1] for o in b.origins(arg) if o[0] == "const"]
                if cons and len(cons) == len(b.origins(arg)) and all(
                        (isinstance(c_.get("sv", c_.get("v")), int) and c_.get("sv", c_.get("v")) >= 1)
                        or re.search(r"seal_(signed_)?bits::Sealed::BITS$", str(c_.get("cdef") or "")) for c_ in cons):
                    continue
                ids = idents(b.origins(arg))
                if len(ids) != 1:
                    return False, "%s passes a computed width" % b.loc(bi, "term")
                (k, l, pj) = list(ids)[0][:3] if list(ids)[0][0] in ("param", "local") else (None, None, None)
                if k != "param":
                    return False, "%s passes a non-parameter width" % b.loc(bi, "term")
                iv = dominating_bounds(facts, b, (bi, "term"), (l, pj))
                if iv.get("min", 0) < 1:
                    return False, "call at %s is not guarded by n != 0" % b.loc(bi, "term")
        return sites > 0, "no call sites"

    for b in universe.values():
        ords = {}
        for (bi, amt, text) in shift_sites(b):
            p = width_complement_param(b, amt)
            if p is None:
                continue
            pname = b.local_name(p[0]) or "_%d" % p[0]
            k = "shift-by-BITS-minus-%s" % pname
            ords[k] = ords.get(k, 0) + 1
            iv = dominating_bounds(facts, b, (bi, "term"), p)
            sample = {"function": b.id, "site": text, "width_param": pname, "bounds": iv}
            if iv.get("min", 0) >= 1:
                sg.ok(dict(sample, verdict="ok", why="dominated by a guard excluding 0"))
                continue
            if not b.raw.get("impl_trait") and b.raw.get("vis") != "pub":
                okc, why = guarded_at_call_sites(b, p)
                if okc:
                    sg.ok(dict(sample, verdict="ok", why="private helper: every call site is guarded"))
                    continue
                extra = "; private helper but " + why
            else:
                extra = ""
            sg.fail(Finding("SHIFTGUARD", b.id, k, ords[k], text.split(" ")[-1],
                            "`%s` shifts by BITS - %s without a dominating guard for %s == 0: a zero-width write (which "
                            "the sink API allows) shifts by the full width - a panic in debug builds and stray bits "
                            "in release builds%s" % (text, pname, pname, extra)), dict(sample, verdict="FAIL"))
    sg.require_floor(2, "width-complement shifts in sink implementations")
    out.append(sg)

    # -------------------------------------------------------------- CALLSET
    cs = RuleResult("CALLSET", "default methods of BitSink touch self only through methods of the trait and reduce to "
                    "the required ones")
    def_bodies = {}
    for b in facts.body_list:
        if b.raw.get("in_trait") == "bitsink::BitSink" and b.kind == "AssocFn":
            def_bodies[b.raw["name"]] = b
    if set(def_bodies) != defaults:
        raise FactError("default method bodies %s != trait defaults %s" % (sorted(def_bodies), sorted(defaults)))
    uses = {}
    for name, b in def_bodies.items():
        called = set()
        for bi, t in b.calls():
            fn = t.get("fn") or {}
            recv_self = t["args"] and any(o[0] == "param" and o[1] == 1 for o in b.origins(t["args"][0]))
            if not recv_self:
                continue
            if fn.get("trait") == "bitsink::BitSink":
                called.add(fn["name"])
                cs.ok({"default_method": name, "calls": fn["name"], "site": b.loc(bi, "term"), "verdict": "ok"})
            elif fn.get("trait") in ("std::ops::Deref", "std::ops::DerefMut") or fn.get("name") in ("deref_mut",):
                continue
            else:
                cs.fail(Finding("CALLSET", b.id, "self-used-outside-trait:%s" % fn.get("def"), 0, b.loc(bi, "term"),
                                "default method %s passes self to %s, which is not a method of the sink trait"
                                % (name, fn.get("def"))))
        uses[name] = called
    # reduction to required methods (no default method depends only on itself / a cycle of defaults)
    for name in sorted(defaults):
        seen = set()
        stack = [name]
        req = set()
        while stack:
            n = stack.pop()
            if n in seen:
                continue
            seen.add(n)
            for c in uses.get(n, ()):
                if c in required:
                    req.add(c)
                elif c in defaults:
                    stack.append(c)
        if req:
            cs.ok({"default_method": name, "reduces_to": sorted(req), "verdict": "ok"})
        else:
            cs.fail(Finding("CALLSET", def_bodies[name].id, "does-not-reduce-to-required", 0, def_bodies[name].loc(),
                            "default method %s never reaches a required method of the trait" % name))
    cs.require_floor(5, "self-calls in default methods")
    out.append(cs)

    # -------------------------------------------------------------- SIBLING
    sb = RuleResult("SIBLING", "every override of write_bytes_aligned starts with align_to_byte")
    for imp in impls:
        b = facts.impl_method(imp, "write_bytes_aligned")
        if b is None:
            sb.ok({"impl": imp["self"], "verdict": "ok", "why": "uses the default method"}, trivial=True)
            continue
        al = [bi for bi, t in b.calls() if (t.get("fn") or {}).get("name") == "align_to_byte"]
        # everything that mutates self (other calls with &mut self, field stores) must be dominated by it
        ok = bool(al)
        for bi, t in b.calls():
            fn = t.get("fn") or {}
            if fn.get("name") == "align_to_byte":
                continue
            if t["args"] and any(o[0] == "param" and o[1] == 1 for o in b.origins(t["args"][0])) \
                    and (t.get("argtys") or [""])[0].startswith("&mut"):
                if not any(b.dominates(a, bi) for a in al):
                    ok = False
        for bi, si, s in b.iter_stmts():
            if s["k"] == "assign" and s["dst"]["p"] and s["dst"]["l"] == 1:
                if not any(b.dominates(a, bi) and a != bi for a in al):
                    ok = False
        # ... and no return may skip it (the default method pads even for an empty slice and reports the pad count)
        if ok:
            from .lib_mpt import mpt as _mpt, path_str as _ps
            okp, path = _mpt(b, al, 0, b.returns())
            if not okp:
                sb.fail(Finding("SIBLING", b.id, "write_bytes_aligned-return-without-align", 0, b.loc(),
                                "%s can return without calling align_to_byte (%s); the default method and the sibling "
                                "override always pad to the byte boundary first" % (b.id, _ps(b, path))))
                continue
        if ok:
            sb.ok({"impl": imp["self"], "site": b.loc(), "verdict": "ok"})
        else:
            sb.fail(Finding("SIBLING", b.id, "write_bytes_aligned-without-leading-align", 0, b.loc(),
                            "%s mutates the sink before (or without) align_to_byte; the default method and the sibling "
                            "override align first" % b.id))
    sb.require_floor(2, "BitSink impls")
    out.append(sb)

    # ------------------------------------------------------------ TYPESTATE
    ts = RuleResult("TYPESTATE", "operand traits are sealed (compile-fail witnesses with compiling twins)")
    witness.run_group(ts, "c11", facts.tag, ctx)
    ts.require_floor(3, "witnesses")
    out.append(ts)
    # ------------------------------------------------------------ FILLSTATE
    # a storage word can only be appended correctly when the fill of the last word is known: every growth of `storage` in a
    # sink method is preceded, on every path, by a read of the word-level fill (`paddings()`, directly or through a wrapper
    # all of whose paths read it).  A byte-level alignment alone is not enough for a sink with wider words.
    from .lib_mpt import performs, mpt, path_str
    from . import lib_effect as E
    from .lib_expr import expr as lexpr
    fs = RuleResult("FILLSTATE", "every growth of a sink's storage is dominated by a read of the word-level fill state")
    fill_readers = [b for b in facts.body_list if (b.raw.get("impl_self") or "").startswith("bitsink::MemSink")
                    and not b.raw.get("impl_trait") and b.raw.get("name") == "paddings"]
    okreader = False
    for fr in fill_readers:
        for _bi, _si, st in fr.iter_stmts():
            if st["k"] == "assign" and st["rv"]["k"] == "bin" and st["rv"]["op"] == "BitAnd":
                rhs = lexpr(fr, st["rv"]["b"])
                if "BITS" in str(rhs):
                    okreader = True
    if not okreader and fill_readers:
        # the formula may live in a helper: accept the reader if its summary is (-bitlength) mod word width (PADFORMULA)
        from . import lib_effect as E2
        for fr in fill_readers:
            try:
                it_ = E2.Interp(E2.Ctx(facts), fr)
                it_.run()
                if all(_eval_pad(it_.retval, B_, 64) == (-B_) % 64 for B_ in (0, 1, 7, 63, 64, 65, 130)):
                    okreader = True
            except Exception:
                pass
    if not okreader:
        fs.fail(Finding("FILLSTATE", "bitsink::MemSink::paddings", "fill-reader-not-found", 0, "",
                        "cannot find the word-level fill reader (bitlength masked with BITS - 1)"))

    def reads_fill_for(unit):
        def reads_fill(t):
            fn = t.get("fn") or {}
            # for a byte-backed sink the byte-level reader is the word-level one
            names = ("paddings", "paddings_to_byte") if unit == 8 else ("paddings",)
            return fn.get("name") in names and (fn.get("def") or "").startswith("bitsink::MemSink")
        return reads_fill
    GROW = ("push", "resize", "extend_from_slice", "extend", "insert", "append", "resize_with")
    methods = []
    for imp in impls:
        if not imp["self"].startswith("bitsink::MemSink"):
            continue
        for it_ in imp["items"]:
            b = facts.bodies.get(it_)
            if b is not None:
                methods.append(b)
    seen_ids = set(b.id for b in methods)
    work = list(methods)
    while work:
        b = work.pop()
        for c in facts.callee_bodies(b, trait_fanout=False):
            if c.id not in seen_ids and (c.raw.get("impl_self") or "").startswith("bitsink::MemSink") \
                    and not c.raw.get("impl_trait") and c.raw.get("name") not in ("new", "with_capacity", "clear", "reserve"):
                seen_ids.add(c.id)
                methods.append(c)
                work.append(c)
    for b in methods:
        mu = re.search(r"MemSink<(u\d+)>", b.raw.get("impl_self") or b.id)
        through = performs(facts, b, reads_fill_for(E.INT_BITS.get(mu.group(1)) if mu else None), depth=2)
        for bi, t in b.calls():
            fn = t.get("fn") or {}
            if fn.get("name") not in GROW or "Vec" not in (fn.get("full") or ""):
                continue
            recv = lexpr(b, t["args"][0])
            if ".storage" not in str(recv):
                continue
            path = b.find_path(0, {bi}, removed=set(through) - {bi})
            where = b.loc(bi, "term")
            if path is not None and not b.raw.get("impl_trait"):
                # a private helper of the sink: the fill may have been read by every caller before the call
                callers = []
                for cb_ in methods:
                    for cbi, ct in cb_.calls():
                        cfn = ct.get("fn") or {}
                        if cfn.get("res") == b.id or cfn.get("def") == b.id or (cfn.get("def") or "").split("::<")[0] == b.id.split("::<")[0] \
                                and cfn.get("name") == b.raw.get("name"):
                            callers.append((cb_, cbi))
                if callers:
                    allok = True
                    for cb_, cbi in callers:
                        mu2 = re.search(r"MemSink<(u\d+)>", cb_.raw.get("impl_self") or cb_.id)
                        thr2 = performs(facts, cb_, reads_fill_for(E.INT_BITS.get(mu2.group(1)) if mu2 else None), depth=2)
                        if cb_.find_path(0, {cbi}, removed=set(thr2) - {cbi}) is not None:
                            allok = False
                    if allok:
                        path = None
            if path is None:
                fs.ok({"function": b.id, "growth": fn.get("name"), "site": where, "verdict": "ok"})
            else:
                fs.fail(Finding("FILLSTATE", b.id, "growth-without-fill-read:%s" % fn.get("name"), 0, where,
                                "%s appends to the sink's storage (%s at %s) on a path that never reads the word-level fill "
                                "state: %s. Whatever the last storage word already holds is ignored, so the bits land at the "
                                "wrong position whenever the sink is not word-aligned" % (b.id, fn.get("name"), where,
                                                                                          path_str(b, path))))
    fs.require_floor(5, "storage growth sites in the sink implementations")
    out.append(fs)
    # ------------------------------------------------------------ GROWTH
    # the number of storage words a zero run / bit field adds is ceil(remaining_bits / word_bits): the expression handed to
    # Vec::resize is summarised by the effect interpreter and evaluated on one full period of remaining-bit counts.
    from . import lib_effect as E
    gr = RuleResult("GROWTH/ceil", "storage grows by ceil(bits / word bits) words where a sink method resizes it")
    for b in methods:
        if not any((t.get("fn") or {}).get("name") == "resize" for _bi, t in b.calls()):
            continue
        m = re.search(r"MemSink<(u\d+)>", b.raw.get("impl_self") or b.id)
        unit = E.INT_BITS.get(m.group(1)) if m else None
        if unit is None:
            continue
        ectx = E.Ctx(facts)
        ectx.open_loops = True
        ectx.log_calls = r"Vec::<.*>::resize$"
        ectx.noinline = [r"paddings"]
        it = E.Interp(ectx, b)
        try:
            it.run()
        except E.Undecided as e:
            gr.fail(Finding("GROWTH/ceil", b.id, "undecided", 0, b.loc(), "cannot summarise %s: %s" % (b.id, e)))
            continue
        for c in ectx.calls:
            newlen = E.strip_casts(c[1][1])
            K = None
            if newlen[0] == "bin" and newlen[1] == "Add":
                for a, o in ((newlen[2], newlen[3]), (newlen[3], newlen[2])):
                    if E.strip_casts(a)[0] == "len" and ".storage" in E.canon(a):
                        K = o
            if K is None:
                gr.fail(Finding("GROWTH/ceil", b.id, "resize-shape", 0, c[2], "resize target %s is not storage.len() + K"
                                % E.show(newlen)[:120]))
                continue
            leaves = []

            def collect(e):
                e = E.strip_casts(e)
                if not isinstance(e, tuple):
                    return
                if e[0] == "c":
                    return
                if e[0] == "bin":
                    collect(e[2])
                    collect(e[3])
                    return
                if e[0] == "ovf":
                    collect(e[1])
                    return
                if e not in leaves:
                    leaves.append(e)
            collect(K)
            if len(leaves) > 1:
                # the remaining-bit count is the smallest sub-expression containing every non-constant leaf
                def contains_all(e):
                    found = []

                    def go(x):
                        x = E.strip_casts(x)
                        if not isinstance(x, tuple):
                            return
                        if x[0] == "ovf":
                            go(x[1])
                            return
                        if x in leaves and x not in found:
                            found.append(x)
                            return
                        if x[0] == "bin":
                            go(x[2])
                            go(x[3])
                    go(e)
                    return len(found) == len(leaves)

                def lca(e):
                    e0 = e
                    e = E.strip_casts(e)
                    if isinstance(e, tuple) and e[0] == "ovf":
                        return lca(e[1])
                    if isinstance(e, tuple) and e[0] == "bin":
                        for ch in (e[2], e[3]):
                            if contains_all(ch):
                                return lca(ch)
                    return e
                node = lca(K)
                leaves = [node]
                K = _replace(_strip_all(K), _strip_all(node), ("var",))
                leaves = [("var",)]
            if len(leaves) != 1:
                gr.fail(Finding("GROWTH/ceil", b.id, "growth-not-a-function-of-one-count", 0, c[2],
                                "cannot identify the remaining-bit count in %s" % E.show(K)[:120]))
                continue
            bad = []
            for x in range(1, 2 * unit + 2):
                v = E.evalc(_strip_all(K), {leaves[0]: x})
                want = -(-x // unit)
                if v != want:
                    bad.append((x, v, want))
            if bad:
                gr.fail(Finding("GROWTH/ceil", b.id, "growth!=ceil", 0, c[2],
                                "%s grows its storage by %s words for a remaining bit count x = %s; for x = %d that is %s "
                                "words, ceil(x / %d) = %d (%d of %d counts differ): the sink's byte export gets a spurious or "
                                "missing word" % (b.id, E.show(K), E.show(leaves[0])[:60], bad[0][0], bad[0][1], unit,
                                                  bad[0][2], len(bad), 2 * unit + 1)))
            else:
                gr.ok({"function": b.id, "growth": E.show(K)[:80], "unit_bits": unit, "verdict": "= ceil(x / unit) on 1..=%d" % (2 * unit + 1)})
    gr.require_floor(0, "resize sites in the sink implementations (WORDCOUNT covers sinks that grow by other means)")
    out.append(gr)
    out.extend(rule_length(facts, impls))
    return out


# ------------------------------------------------------------------------------------------------ LENGTH
# "same length": every operation of the in-memory sinks advances the recorded bit length by exactly the number of bits an
# ideal bit string would take.  The effect interpreter, with field tracking on, summarises the final value of
# `self.bitlength` of every BitSink method of MemSink<u8> / MemSink<u64> (helpers inlined; the fill readers kept opaque
# and judged separately by PADFORMULA); the summary is a case tree of linear expressions and every leaf must be the
# initial length plus the ideal count.

def _is_lc(e):
    return isinstance(e, tuple) and e and e[0] in ("idx", "elem", "off", "lc")


def _leaves(e, conds=()):
    """Expand an expression into [(conds, case-free expression)]; constant discriminants are folded."""
    from . import lib_effect as E
    if not isinstance(e, tuple) or not e:
        return [(conds, e)]
    k = e[0]
    if k == "case":
        d = E.evalc(e[1])
        out = []
        for lab, v in e[2]:
            labs = lab if isinstance(lab, tuple) else (lab,)
            if d is not None:
                if d in labs or ("else" in labs and not any(d in (l2 if isinstance(l2, tuple) else (l2,)) for l2, _ in e[2])):
                    out.extend(_leaves(v, conds))
                continue
            out.extend(_leaves(v, conds + ((e[1], labs),)))
        return out
    if k == "bin":
        return [(ca + cb[len(conds):], ("bin", e[1], a, b)) for ca, a in _leaves(e[2], conds) for cb, b in _leaves(e[3], conds)]
    if k == "ovf":
        return _leaves(e[1], conds)
    if k == "cast":
        return [(c, e[:2] + (v,) + e[3:]) for c, v in _leaves(e[2], conds)]
    if k == "sumloop":
        return [(c, ("sumloop", e[1], v)) for c, v in _leaves(e[2], conds)]
    if k == "okval":
        return [(c, ("okval", v) + tuple(e[2:])) for c, v in _leaves(e[1], conds)]
    if k == "call" and len(e) > 2 and isinstance(e[2], tuple):
        combos = [(conds, ())]
        for a in e[2]:
            nxt = []
            for c0, done in combos:
                for c1, v in _leaves(a, c0):
                    nxt.append((c1, done + (v,)))
            combos = nxt
            if len(combos) > 64:
                return [(conds, e)]
        return [(c, (e[0], e[1], args) + tuple(e[3:])) for c, args in combos]
    return [(conds, e)]


def _poly(e, subst):
    """Linear form {atom: coef, '': const} of a case-free expression; non-linear sub-terms become atoms."""
    from . import lib_effect as E

    def atom(x):
        key = E.canon(x)
        mm = re.match(r"^bitsink::MemSink::<[^>]*>::(paddings(?:_to_byte)?)\(arg1\)$", key)
        if mm:
            key = "%s(self)" % mm.group(1)
        if key in subst:
            return dict(subst[key])
        return {key: 1}

    def add(a, b, sg=1):
        r = dict(a)
        for k2, v in b.items():
            r[k2] = r.get(k2, 0) + sg * v
        return {k2: v for k2, v in r.items() if v != 0}

    def go(x):
        if not isinstance(x, tuple) or not x:
            return {str(x): 1}
        k = x[0]
        if k == "c" and isinstance(x[1], int):
            return {"": x[1]} if x[1] else {}
        if k == "c" and x[2] and re.search(r"seal_bits::Sealed::BITS$", str(x[2])):
            return {"size_of::<T>": 8}
        if k == "call" and re.search(r"mem::size_of::<\w+>$", x[1]) and not x[2]:
            return {"size_of::<T>": 1}
        if k == "ovf":
            return go(x[1])
        if k == "cast":
            fr = x[3] if len(x) > 3 else None
            if x[1] in ("usize", "u64") and fr in ("usize", "u64", "u32", "u8", "u16", None):
                return go(x[2])
            return atom(x)
        if k == "bin" and x[1] in ("Add", "Sub"):
            return add(go(x[2]), go(x[3]), 1 if x[1] == "Add" else -1)
        if k == "bin" and x[1] == "Mul":
            a, b = go(x[2]), go(x[3])
            for u, v in ((a, b), (b, a)):
                if set(u.keys()) <= {""}:
                    c = u.get("", 0)
                    return {k2: c * w for k2, w in v.items() if c * w != 0}
            return atom(x)
        if k == "bin" and x[1] == "Shl" and E.is_c(x[3]):
            return {k2: w << x[3][1] for k2, w in go(x[2]).items()}
        if k == "sumloop":
            body = go(x[2])
            d = x[1]
            if not E.mentions(x[2], _is_lc) and d[0] != "range":
                n = atom(("len", d[2]))
                if set(body.keys()) <= {""}:
                    c = body.get("", 0)
                    return {k2: c * w for k2, w in n.items() if c * w != 0}
            return atom(x)
        return atom(x)
    return go(e)


def _fmt_poly(p):
    if not p:
        return "0"
    return " + ".join(("%s" % v if k == "" else (k if v == 1 else "%d*%s" % (v, k))) for k, v in sorted(p.items()))


def rule_length(facts, impls):
    from . import lib_effect as E
    ln = RuleResult("LENGTH", "every sink operation advances the recorded bit length by exactly the ideal bit count")
    pf = RuleResult("PADFORMULA", "the fill readers return the distance to the next word / byte boundary")
    # --- PADFORMULA: paddings() == (-bitlength) mod S::BITS, paddings_to_byte() == (-bitlength) mod 8
    readers = {}
    for b in facts.body_list:
        if (b.raw.get("impl_self") or "").startswith("bitsink::MemSink") and not b.raw.get("impl_trait") \
                and b.raw.get("name") in ("paddings", "paddings_to_byte"):
            ectx = E.Ctx(facts)
            it = E.Interp(ectx, b)
            try:
                it.run()
            except E.Undecided as e:
                pf.fail(Finding("PADFORMULA", b.id, "undecided", 0, b.loc(), "cannot summarise %s: %s" % (b.id, e)))
                continue
            rv = it.retval
            for unit in ((8, 64) if b.raw["name"] == "paddings" else (8,)):
                bad = None
                for B in list(range(0, 3 * unit + 1)) + [2 ** 32 - 1, 2 ** 32, 2 ** 40 + 5]:
                    v = _eval_pad(rv, B, unit)
                    if v is None:
                        bad = (B, "not evaluable: %s" % E.show(rv)[:100])
                        break
                    if not (0 <= v < unit and (B + v) % unit == 0):
                        bad = (B, v)
                        break
                if bad:
                    pf.fail(Finding("PADFORMULA", b.id, "pad-formula/%d" % unit, 0, b.loc(),
                                    "%s returns %s for a bit length of %d with %d-bit words; the distance to the next boundary is "
                                    "%d" % (b.id, bad[1], bad[0], unit, (-bad[0]) % unit)))
                else:
                    pf.ok({"function": b.id, "unit_bits": unit, "summary": E.show(rv)[:100],
                           "verdict": "= (-bitlength) mod %d on 0..=%d and three large lengths" % (unit, 3 * unit)})
            readers[b.raw["name"]] = b
    pf.require_floor(3, "fill reader x word width instances")
    # --- WIDTH: Sealed::BITS == 8 * size_of::<T>() for the sealed operand types (used as an identity by LENGTH)
    wd = RuleResult("WIDTH/const", "the operand-width constant of the sealed operand trait is 8 * size_of::<T>() for every implementor")
    cb = {n: facts.bodies.get("bitsink::seal_bits::Sealed::" + n) for n in ("BITS", "BITS_LOG2", "BYTES")}
    sealed = facts.impls_of_trait("bitsink::seal_bits::Sealed")
    if not sealed or any(v is None for v in cb.values()):
        wd.fail(Finding("WIDTH/const", "bitsink::seal_bits::Sealed", "anchor-missing", 0, "", "operand-width constants not found"))
    else:
        vals = {}
        for n, b in cb.items():
            it = E.Interp(E.Ctx(facts), b)
            try:
                it.run()
                vals[n] = it.retval
            except E.Undecided as e:
                wd.fail(Finding("WIDTH/const", b.id, "undecided", 0, b.loc(), str(e)))
        for imp in sealed:
            t = imp["self"]
            if imp["items"]:
                wd.fail(Finding("WIDTH/const", imp["trait_full"], "override:%s" % t, 0, "%s:%s" % (imp["file"], imp["line"]),
                                "the implementation of the sealed operand trait for %s overrides %s; the sinks take the operand "
                                "width from these constants" % (t, ", ".join(x.split("::")[-1] for x in imp["items"]))))
                continue
            w = E.INT_BITS.get(t)
            got = {n: _eval_width(vals.get(n), vals, w) for n in vals}
            want = {"BITS": w, "BITS_LOG2": (w or 1).bit_length() - 1, "BYTES": (w or 0) // 8}
            if w is None or got != want:
                wd.fail(Finding("WIDTH/const", imp["trait_full"], "width:%s" % t, 0, "%s:%s" % (imp["file"], imp["line"]),
                                "operand-width constants for %s evaluate to %s; the type has %s" % (t, got, want)))
            else:
                wd.ok({"type": t, "constants": got, "verdict": "ok"})
    wd.require_floor(4, "implementors of the sealed operand trait")
    # --- LENGTH
    EXPECT = {
        "write": lambda pad8: [{"size_of::<T>": 8}],
        "write_msbs": lambda pad8: [{"arg3": 1}],
        "write_lsbs": lambda pad8: [{"arg3": 1}],
        "write_zeros": lambda pad8: [{"arg2": 1}],
        "align_to_byte": lambda pad8: [{p: 1} for p in pad8],
        "write_bytes_aligned": lambda pad8: [{p: 1, "len(arg2)": 8} for p in pad8],
        "write_twoc": lambda pad8: [{"arg3": 1}],
    }
    for imp in impls:
        m = re.search(r"^bitsink::MemSink<(u\d+)>$", imp["self"])
        if not m:
            continue
        unit = E.INT_BITS[m.group(1)]
        # the byte-distance readers: paddings_to_byte always; paddings when the storage word is a byte
        pad8 = []
        for nm, rb in readers.items():
            if nm == "paddings_to_byte" or unit == 8:
                pad8.append(nm)
        for it_ in imp["items"]:
            b = facts.bodies.get(it_)
            if b is None or b.raw.get("name") not in EXPECT:
                continue
            name = b.raw["name"]
            ectx = E.Ctx(facts)
            ectx.track_fields = True
            ectx.sink_internal = True
            ectx.open_loops = True
            ectx.noinline = [r"::paddings(_to_byte)?$", r"to_be_bytes|to_ne_bytes"]
            itp = E.Interp(ectx, b)
            try:
                itp.run()
            except E.Undecided as e:
                ln.fail(Finding("LENGTH", b.id, "undecided", 0, b.loc(), "cannot summarise the length effect of %s: %s" % (b.id, e)))
                continue
            fin = itp.fields.get(("arg1", (".bitlength",)))
            if fin is None:
                ln.fail(Finding("LENGTH", b.id, "length-not-updated", 0, b.loc(),
                                "%s never stores to self.bitlength: the bits it appends are not counted" % b.id))
                continue
            if isinstance(fin, tuple) and fin and fin[0] == "?":
                ln.fail(Finding("LENGTH", b.id, "undecided", 0, b.loc(), "length of %s after the call is not summarisable (%s)"
                                % (b.id, fin[1:])))
                continue
            pad_names = ["%s(self)" % p for p in pad8]
            wants = EXPECT[name](pad_names)
            bad = None
            nleaf = 0
            for conds, leaf in _leaves(fin):
                # a leaf that needs one predicate to take two different values lies on no path (the case tree is built per
                # value, not per path: `let a = if c {..}; .. if c {..}` yields such combinations)
                seen_labs = {}
                infeasible = False
                for cexpr, labs in conds:
                    k_ = E.canon(E.strip_casts(cexpr)) if isinstance(cexpr, tuple) else str(cexpr)
                    ls_ = set(labs) if isinstance(labs, tuple) else {labs}
                    if "else" in ls_:
                        continue
                    if k_ in seen_labs and not (seen_labs[k_] & ls_):
                        infeasible = True
                    seen_labs[k_] = seen_labs.get(k_, ls_) & ls_ if k_ in seen_labs else ls_
                if infeasible:
                    continue
                subst = {}
                for cexpr, labs in conds:
                    ce = E.strip_casts(cexpr)
                    if isinstance(ce, tuple) and ce[0] == "bin" and ce[1] == "Eq" and labs == (1,):
                        for x, y in ((ce[2], ce[3]), (ce[3], ce[2])):
                            if E.is_c(y):
                                subst[E.canon(x)] = {"": y[1]} if y[1] else {}
                                if re.search(r"seal_bits::Sealed::BITS$", E.canon(x)):
                                    subst["size_of::<T>"] = {"": y[1] // 8} if y[1] else {}
                    if isinstance(ce, tuple) and ce[0] == "bin" and ce[1] == "Ne" and labs == (0,):
                        for x, y in ((ce[2], ce[3]), (ce[3], ce[2])):
                            if E.is_c(y):
                                subst[E.canon(x)] = {"": y[1]} if y[1] else {}
                    # unsigned counts: `n > 0` false, `n >= 1` false, `n <= 0` true, `0 < n` false all mean n == 0
                    if isinstance(ce, tuple) and ce[0] == "bin":
                        op_, a_, b_ = ce[1], E.strip_casts(ce[2]), E.strip_casts(ce[3])
                        z = None
                        if (op_ == "Gt" and E.is_c(b_, 0) and labs == (0,)) or (op_ == "Ge" and E.is_c(b_, 1) and labs == (0,)) \
                                or (op_ == "Le" and E.is_c(b_, 0) and labs == (1,)) or (op_ == "Lt" and E.is_c(b_, 1) and labs == (1,)):
                            z = a_
                        if (op_ == "Lt" and E.is_c(a_, 0) and labs == (0,)) or (op_ == "Le" and E.is_c(a_, 1) and labs == (0,)) \
                                or (op_ == "Ge" and E.is_c(a_, 0) and labs == (1,)):
                            z = b_
                        if z is not None and re.match(r"^arg\d+$", E.canon(z)):
                            subst[E.canon(z)] = {}
                nleaf += 1
                got = _poly(leaf, subst)
                got["arg1.bitlength"] = got.get("arg1.bitlength", 0) - 1
                got = {k: v for k, v in got.items() if v != 0}
                ok = False
                for w in wants:
                    w2 = {}
                    for k2, v in w.items():
                        for k3, v3 in subst.get(k2, {k2: 1}).items():
                            w2[k3] = w2.get(k3, 0) + v * v3
                    w2 = {k: v for k, v in w2.items() if v != 0}
                    if w2 == got:
                        ok = True
                if not ok:
                    bad = (conds, got, wants)
                    break
            if bad:
                conds, got, wants = bad
                cs = " and ".join("%s in %s" % (E.show(c)[:60], list(l)) for c, l in conds) or "always"
                ln.fail(Finding("LENGTH", b.id, "length-delta:%s" % name, 0, b.loc(),
                                "%s advances self.bitlength by %s (when %s); an ideal bit string grows by %s. The recorded "
                                "length disagrees with the bits written, so every later write lands at the wrong offset and "
                                "len()/byte export are wrong" % (b.id, _fmt_poly(got), cs, " or ".join(_fmt_poly(w) for w in wants))))
            else:
                ln.ok({"function": b.id, "leaves": nleaf, "delta": " or ".join(_fmt_poly(w) for w in wants), "verdict": "ok"})
    ln.require_floor(12, "sink operations summarised")
    return [pf, wd, ln, rule_wordcount(facts, impls), rule_twoc_default(facts), rule_operand(facts, impls), rule_default_bytes(facts), rule_default_zeros(facts)]


def _eval_pad(rv, B, unit):
    from . import lib_effect as E
    M = (1 << 64) - 1

    def go(x):
        x = E.strip_casts(x)
        if not isinstance(x, tuple) or not x:
            return None
        k = x[0]
        if k == "c":
            if isinstance(x[1], int):
                return x[1]
            if x[2] and re.search(r"Sealed::BITS$", str(x[2])):
                return unit
            return None
        if k == "p" and x[2] == (".bitlength",):
            return B
        if k == "proj" and x[2][-1:] == (".bitlength",):
            return B
        if k == "ovf":
            return go(x[1])
        if k == "un" and x[1] == "Not":
            v = go(x[2])
            return None if v is None else (~v) & M
        if k == "un" and x[1] == "Neg":
            v = go(x[2])
            return None if v is None else (-v) & M
        if k == "call" and re.search(r"wrapping_(add|sub|neg)$", x[1]):
            vs = [go(a) for a in x[2]]
            if any(v is None for v in vs):
                return None
            if x[1].endswith("add"):
                return (vs[0] + vs[1]) & M
            if x[1].endswith("sub"):
                return (vs[0] - vs[1]) & M
            return (-vs[0]) & M
        if k == "bin":
            a, b2 = go(x[2]), go(x[3])
            if a is None or b2 is None:
                return None
            return E.evalc(("bin", x[1], E.C(a), E.C(b2)))
        return None
    return go(rv)


def _eval_width(e, consts, w):
    from . import lib_effect as E
    if w is None or e is None:
        return None

    def go(x):
        x = E.strip_casts(x)
        if not isinstance(x, tuple) or not x:
            return None
        k = x[0]
        if k == "c":
            if isinstance(x[1], int):
                return x[1]
            m = re.search(r"Sealed::(BITS|BITS_LOG2|BYTES)$", str(x[2] or ""))
            return go(consts.get(m.group(1))) if m else None
        if k == "ovf":
            return go(x[1])
        if k == "call" and re.search(r"mem::size_of::<\w+>$", x[1]):
            return w // 8
        if k == "call" and x[1].endswith("::ilog2"):
            v = go(x[2][0])
            return None if not v else v.bit_length() - 1
        if k == "call" and x[1].endswith("::trailing_zeros"):
            v = go(x[2][0])
            return None if not v else (v & -v).bit_length() - 1
        if k == "bin":
            a, b2 = go(x[2]), go(x[3])
            if a is None or b2 is None:
                return None
            return E.evalc(("bin", x[1], E.C(a), E.C(b2)))
        return None
    return go(e)


# ------------------------------------------------------------------------------------------------ WORDCOUNT
# The storage of a sink holds exactly ceil(bitlength / word bits) words: byte export, len() and every later write rely on
# it.  With field tracking on and the fill readers inlined, the effect interpreter summarises the storage length and the
# bit length after each BitSink method as case trees over the initial state and the arguments; the summaries are
# evaluated over every starting offset within two words, every bit count up to the operand width (every operand type),
# zero runs spanning several words and byte slices spanning several words: if the invariant holds before, it must hold
# after, and the bit length must advance by the ideal count.

def _evals(e, env):
    """Evaluate a summary expression under env; returns int or None."""
    from . import lib_effect as E
    M = (1 << 64) - 1

    def go(x):
        if not isinstance(x, tuple) or not x:
            return None
        k = x[0]
        if k == "c":
            if isinstance(x[1], int):
                return x[1]
            if x[2] and re.search(r"seal_bits::Sealed::BITS$", str(x[2])):
                return env.get("W")
            if x[2] and re.search(r"seal_bits::Sealed::BYTES$", str(x[2])):
                return env["W"] // 8 if env.get("W") else None
            return None
        if k == "p":
            if x[1] == 1 and x[2] == (".bitlength",):
                return env["B"]
            if not x[2]:
                return env.get("arg%d" % x[1])
            return None
        if k == "len":
            y = E.strip_casts(x[1])
            cy = E.canon(y)
            if cy == "arg1.storage":
                return env["L"]
            if re.search(r"to_(be|ne|le)_bytes", cy):
                return env["W"] // 8 if env.get("W") else None
            if isinstance(y, tuple) and y[0] == "p" and not y[2]:
                return env.get("len_arg%d" % y[1])
            return None
        if k in ("idx",):
            return env.get(("idx", x[1]))
        if k == "ovf":
            return go(x[1])
        if k == "cast":
            v = go(x[2])
            if v is None:
                return None
            w = E.INT_BITS.get(x[1])
            return v & ((1 << w) - 1) if w else v
        if k == "un" and x[1] == "Not":
            v = go(x[2])
            return None if v is None else (~v) & M
        if k == "call":
            nm = x[1]
            vs = [go(a) for a in x[2]]
            if re.search(r"mem::size_of::<\w+>$", nm) and not x[2]:
                return env["W"] // 8 if env.get("W") else None
            if any(v is None for v in vs):
                return None
            if nm.endswith("::wrapping_neg"):
                return (-vs[0]) & M
            if nm.endswith("::wrapping_add"):
                return (vs[0] + vs[1]) & M
            if nm.endswith("::wrapping_sub"):
                return (vs[0] - vs[1]) & M
            if nm.endswith("::saturating_sub"):
                return max(0, vs[0] - vs[1])
            if re.search(r"cmp::min(::<\w+>)?$", nm):
                return min(vs)
            if re.search(r"cmp::max(::<\w+>)?$", nm):
                return max(vs)
            return None
        if k == "bin":
            a, b2 = go(x[2]), go(x[3])
            if a is None or b2 is None:
                return None
            return E.evalc(("bin", x[1], E.C(a), E.C(b2)))
        if k == "case":
            d = go(x[1])
            if d is None:
                return None
            other = None
            for lab, v in x[2]:
                labs = lab if isinstance(lab, tuple) else (lab,)
                if d in labs:
                    return go(v)
                if "else" in labs:
                    other = v
            return go(other) if other is not None else None
        if k == "sumloop":
            d = x[1]
            if d[0] == "range":
                lo, hi = go(d[2]), go(d[3])
            else:
                lo, hi = 0, go(("len", d[2]))
            if lo is None or hi is None:
                return None
            tot = 0
            old = env.get(("idx", d[1]))
            for i in range(lo, hi):
                env[("idx", d[1])] = i
                v = go(x[2])
                if v is None:
                    return None
                tot += v
            env[("idx", d[1])] = old
            return tot
        return None
    return go(e)


def rule_wordcount(facts, impls):
    from . import lib_effect as E
    wc = RuleResult("WORDCOUNT", "after every sink operation the storage holds ceil(bitlength / word bits) words and the bit "
                                 "length has advanced by the ideal count (summaries evaluated over offsets x counts x operand types)")
    IDEAL = {
        "write": lambda env: env["W"],
        "write_msbs": lambda env: env["arg3"],
        "write_lsbs": lambda env: env["arg3"],
        "write_zeros": lambda env: env["arg2"],
        "align_to_byte": lambda env: (-env["B"]) % 8,
        "write_bytes_aligned": lambda env: (-env["B"]) % 8 + 8 * env["len_arg2"],
    }
    for imp in impls:
        m = re.search(r"^bitsink::MemSink<(u\d+)>$", imp["self"])
        if not m:
            continue
        unit = E.INT_BITS[m.group(1)]
        for it_ in imp["items"]:
            b = facts.bodies.get(it_)
            if b is None or b.raw.get("name") not in IDEAL:
                continue
            name = b.raw["name"]
            ectx = E.Ctx(facts)
            ectx.track_fields = True
            ectx.sink_internal = True
            ectx.open_loops = True
            ectx.noinline = [r"to_be_bytes|to_ne_bytes"]
            itp = E.Interp(ectx, b)
            try:
                itp.run()
            except E.Undecided as e:
                wc.fail(Finding("WORDCOUNT", b.id, "undecided", 0, b.loc(), "cannot summarise %s: %s" % (b.id, e)))
                continue
            finB = itp.fields.get(("arg1", (".bitlength",)), ("p", 1, (".bitlength",)))
            finL = itp.fields.get(("arg1", (".storage", "#len")), ("len", ("p", 1, (".storage",))))
            generic = name in ("write", "write_msbs", "write_lsbs")
            widths = (8, 16, 32, 64) if generic else (None,)
            offsets = list(range(0, 2 * unit + 1)) + [2 ** 32 - 3, 2 ** 32, 2 ** 40 + 5 * unit + 1]
            bad = None
            rows = 0
            for W in widths:
                if name in ("write_msbs", "write_lsbs"):
                    counts = [("arg3", n) for n in range(0, W + 1)]
                elif name == "write_zeros":
                    counts = [("arg2", n) for n in list(range(0, 3 * unit + 2)) + [1000, 4096 + 7]]
                elif name == "write_bytes_aligned":
                    counts = [("len_arg2", n) for n in range(0, 2 * unit // 8 + 3)]
                else:
                    counts = [(None, 0)]
                for B in offsets:
                    L = -(-B // unit)
                    for cn, cv in counts:
                        env = {"B": B, "L": L, "W": W}
                        if cn:
                            env[cn] = cv
                        rows += 1
                        B2 = _evals(finB, env)
                        L2 = _evals(finL, env)
                        wantB = B + IDEAL[name](env)
                        if B2 is None or L2 is None:
                            bad = ("not-evaluable", env, E.show(finB if B2 is None else finL)[:160], None)
                            break
                        if B2 != wantB:
                            bad = ("bitlength", env, B2, wantB)
                            break
                        if L2 != -(-B2 // unit):
                            bad = ("storage-words", env, L2, -(-B2 // unit))
                            break
                    if bad:
                        break
                if bad:
                    break
            if bad:
                kind, env, got, want = bad
                envs = ", ".join("%s=%s" % (k, v) for k, v in env.items() if v is not None and not isinstance(k, tuple))
                if kind == "not-evaluable":
                    wc.fail(Finding("WORDCOUNT", b.id, "undecided", 0, b.loc(),
                                    "summary of %s cannot be evaluated for %s: %s" % (b.id, envs, got)))
                else:
                    wc.fail(Finding("WORDCOUNT", b.id, "%s:%s" % (kind, name), 0, b.loc(),
                                    "%s, called with %s (B = bit length, L = storage words, W = operand width) on a consistent "
                                    "sink, leaves %s = %s; an ideal bit string has %s. The storage and the recorded length "
                                    "disagree, so the byte export and every later write are wrong"
                                    % (b.id, envs, kind, got, want)))
            else:
                wc.ok({"function": b.id, "rows": rows, "unit_bits": unit, "operand_widths": [w for w in widths if w],
                       "storage_len": E.show(finL)[:200], "verdict": "invariant preserved on every row"})
    wc.require_floor(12, "sink operations summarised")
    return wc


# ------------------------------------------------------------------------------------------------ TWOC/default
# The provided write_twoc is what every sink (in-memory or user-defined) uses for two's-complement fields.  Its summary is
# one required-method call; the (count, operand) pair of that call is evaluated for every width 1..=64 and a set of values
# spanning the width's range, and the bits the required method would emit (its documented meaning: the n most / least
# significant bits of the operand) must be the n-bit two's-complement code of the value.

def rule_twoc_default(facts):
    from . import lib_effect as E
    tw = RuleResult("TWOC/default", "the provided write_twoc hands the n-bit two's-complement code of the value to a required method, "
                                    "for every width 1..=64")
    b = facts.bodies.get("bitsink::BitSink::write_twoc")
    if b is None:
        tw.fail(Finding("TWOC/default", "bitsink::BitSink::write_twoc", "anchor-missing", 0, "", "default write_twoc not found"))
        return tw
    ectx = E.Ctx(facts)
    it = E.Interp(ectx, b)
    try:
        ev = it.run()
    except E.Undecided as e:
        tw.fail(Finding("TWOC/default", b.id, "undecided", 0, b.loc(), "cannot summarise %s: %s" % (b.id, e)))
        return tw

    def emitted(events, env, out):
        for e in events:
            if e[0] == "w":
                n = E.evalc(e[2], env)
                v = E.evalc(e[3], env)
                ty = ectx.wtypes.get(e[5])
                if n is None or v is None:
                    raise E.Undecided("operand of %s at %s is not evaluable: %s / %s" % (e[4], e[5], E.show(e[2])[:60], E.show(e[3])[:80]))
                if e[4] == "write_lsbs":
                    out.append((n, v & ((1 << n) - 1)))
                elif e[4] == "write_msbs":
                    W = E.INT_BITS.get(ty)
                    if W is None:
                        raise E.Undecided("operand type of write_msbs at %s unknown" % e[5])
                    if n > W:
                        raise E.Undecided("write_msbs of %d bits from a %d-bit operand" % (n, W))
                    out.append((n, ((v & ((1 << W) - 1)) >> (W - n)) & ((1 << n) - 1) if n else 0))
                elif e[4] == "write":
                    out.append((n, v & ((1 << n) - 1)))
                else:
                    raise E.Undecided("default write_twoc calls %s" % e[4])
            elif e[0] == "case":
                d = E.evalc(e[1], env)
                if d is None:
                    raise E.Undecided("branch condition %s is not evaluable" % E.show(e[1])[:80])
                taken = None
                for lab, evs in e[2]:
                    labs = lab if isinstance(lab, tuple) else (lab,)
                    if d in labs or (taken is None and "else" in labs):
                        taken = evs
                        if d in labs:
                            break
                emitted(taken or [], env, out)
            elif e[0] in ("mark",):
                continue
            else:
                raise E.Undecided("unexpected %s event in the default write_twoc" % e[0])
    bad = None
    rows = 0
    try:
        for n in range(1, 65):
            lo, hi = -(1 << (n - 1)), (1 << (n - 1)) - 1
            vals = sorted({0, 1, -1, lo, hi, lo + 1, hi - 1, hi // 3, lo // 3, 0x5A5A5A5A5A5A5A5A & hi, -(0x2A2A2A2A2A2A2A2A & hi) - 1})
            for val in vals:
                if not lo <= val <= hi:
                    continue
                rows += 1
                out = []
                emitted(ev, {("p", 2, ()): val, ("p", 3, ()): n}, out)
                total = sum(x[0] for x in out)
                bits = 0
                for k, v in out:
                    bits = (bits << k) | v
                want = val & ((1 << n) - 1)
                if total != n or bits != want:
                    bad = (n, val, total, bits, want)
                    break
            if bad:
                break
    except E.Undecided as e:
        tw.fail(Finding("TWOC/default", b.id, "undecided", 0, b.loc(), "fail closed: %s" % e))
        return tw
    if bad:
        n, val, total, bits, want = bad
        tw.fail(Finding("TWOC/default", b.id, "wrong-code", 0, b.loc(),
                        "write_twoc(%d, %d) hands %d bits with value %#x to the sink; the %d-bit two's-complement code of %d is %#x. "
                        "Every sink - in-memory or user-defined - receives the wrong field" % (val, n, total, bits, n, val, want)))
    else:
        tw.ok({"function": b.id, "rows": rows, "summary": "; ".join(E.flat(ev))[:200], "verdict": "n-bit code on every row"})
    tw.require_floor(1, "default write_twoc")
    return tw


# ------------------------------------------------------------------------------------------------ OPERAND
# Which bits of the operand reach the storage.  `write_msbs(val, n)` must ignore everything below the n most significant
# bits of `val`, `write_lsbs(val, n)` everything above the n least significant ones.  Both in-memory sinks do this in one
# place: write_msbs clears the low bits with a mask that depends on n only, write_lsbs left-aligns (`val << (BITS - n)`) and
# hands the value to the msbs path.  The rule extracts the mask / the alignment expression from the MIR (flow-sensitive
# backward slice) and evaluates it for every n in 1..=BITS and every operand width; it also requires that nothing in the
# method touches the sink before / beside that normalisation.  The placement arithmetic after the normalisation (shifts
# by the fill state, carries into the next word) is NOT decided.

def _lx_eval(e, env, W):
    """Evaluate a lib_expr tree of integer operations; W = width of the generic operand type.  None = not evaluable or
    an overflowing shift."""
    M = (1 << W) - 1
    if not isinstance(e, tuple):
        return None
    k = e[0]
    if k == "c":
        if isinstance(e[1], int):
            return e[1]
        if e[2] and re.search(r"::BITS$", e[2]):
            return W
        mm = re.search(r"<impl (u\d+|usize)>::MAX$", e[2] or "")
        if mm:
            return (1 << {"usize": 64}.get(mm.group(1), int(mm.group(1)[1:]) if mm.group(1) != "usize" else 64)) - 1
        if isinstance(e[1], str) and re.match(r"^\d+$", e[1]):
            return int(e[1])
        return None
    if k in ("p", "l"):
        return env.get((k, e[1]))
    if k == "cast":
        v = _lx_eval(e[2], env, W)
        w2 = {"u8": 8, "u16": 16, "u32": 32, "u64": 64, "usize": 64, "i32": 32, "i64": 64, "u128": 128}.get(e[1])
        return None if v is None else (v & ((1 << w2) - 1) if w2 else v)
    if k == "un":
        v = _lx_eval(e[2], env, W)
        if v is None:
            return None
        return (~v) & M if e[1] == "Not" else None
    if k == "bin":
        a, b = _lx_eval(e[2], env, W), _lx_eval(e[3], env, W)
        if a is None or b is None:
            return None
        op = e[1]
        if op == "Sub":
            return a - b if a >= b else None
        if op == "Add":
            return a + b
        if op == "Mul":
            return a * b
        if op in ("Shl", "Shr"):
            if b >= 64:
                return None
            return ((a << b) & ((1 << 64) - 1)) if op == "Shl" else a >> b
        if op == "BitAnd":
            return a & b
        if op == "BitOr":
            return a | b
        return None
    if k == "call":
        nm = e[1]
        args = [_lx_eval(a, env, W) for a in e[2]]
        tail = re.sub(r"::<[^<>]*(<[^<>]*>[^<>]*)*>$", "", nm)
        m = re.search(r"<impl (u\d+|usize)>", nm)
        cw = {"u8": 8, "u16": 16, "u32": 32, "u64": 64, "usize": 64}.get(m.group(1)) if m else None
        if re.search(r"One::one$", tail):
            return 1
        if re.search(r"Zero::zero$", tail):
            return 0
        if re.search(r"::max_value$|Bounded::max_value$", tail):
            return M
        if any(a is None for a in args):
            return None
        if re.search(r"Shl::shl$|ShlAssign::shl_assign$", tail) and len(args) == 2:
            return None if args[1] >= W else (args[0] << args[1]) & M
        if re.search(r"Shr::shr$", tail) and len(args) == 2:
            return None if args[1] >= W else (args[0] & M) >> args[1]
        if re.search(r"Sub::sub$", tail) and len(args) == 2:
            return (args[0] - args[1]) & M if args[0] >= args[1] else None
        if re.search(r"Add::add$", tail) and len(args) == 2:
            return args[0] + args[1] if args[0] + args[1] <= M else None
        if re.search(r"Not::not$", tail) and len(args) == 1:
            return (~args[0]) & M
        if re.search(r"BitAnd::bitand$", tail) and len(args) == 2:
            return args[0] & args[1]
        if re.search(r"BitOr::bitor$", tail) and len(args) == 2:
            return args[0] | args[1]
        if cw and re.search(r"::wrapping_shr$", tail) and len(args) == 2:
            return (args[0] & ((1 << cw) - 1)) >> (args[1] % cw)
        if cw and re.search(r"::wrapping_shl$", tail) and len(args) == 2:
            return (args[0] << (args[1] % cw)) & ((1 << cw) - 1)
        if cw and re.search(r"::(checked_|unbounded_)?sh[lr]$", tail):
            return None
        if re.search(r"(From|Into)<.*>>::(from|into)$|::from$|::into$|AsPrimitive<.*>>::as_$", tail) and len(args) == 1:
            return args[0]
        facts = env.get("#facts")
        cb = facts.bodies.get(nm) if facts is not None else None
        if cb is not None and cb.argc == len(args) and len(cb.blocks) <= 12 and env.get("#depth", 0) < 3:
            # a small crate-local pure helper (e.g. a widening `left_align`): evaluate its return expression
            from .lib_expr import ExprCtx
            rets = cb.returns()
            re_ = ExprCtx(cb, at=rets[0] if rets else None).place({"l": 0, "p": []})
            env2 = {("p", i + 1): a for i, a in enumerate(args)}
            env2["#facts"] = facts
            env2["#depth"] = env.get("#depth", 0) + 1
            return _lx_eval(re_, env2, W)
        return None
    return None


def rule_operand(facts, impls):
    from .lib_expr import ExprCtx, show as lshow, walk as lwalk
    op = RuleResult("OPERAND", "write_msbs clears everything below the n most significant bits with a mask that is right for "
                               "every n in 1..=BITS, write_lsbs left-aligns by BITS - n, and neither touches the sink before that")
    for imp in impls:
        m = re.search(r"^bitsink::MemSink<(u\d+)>$", imp["self"])
        if not m:
            continue
        bodies = dict((facts.bodies[i].raw.get("name"), facts.bodies[i]) for i in imp["items"] if i in facts.bodies)
        # ---------------- write_lsbs: val is used only as `val << (BITS - n)`, handed to the msbs path with the same n
        b = bodies.get("write_lsbs")
        if b is None:
            op.fail(Finding("OPERAND", imp["self"], "anchor-missing:write_lsbs", 0, "", "write_lsbs of %s not found" % imp["self"]))
        else:
            hand = [(bi, t) for bi, t in b.calls() if re.search(r"write_msbs", (t.get("fn") or {}).get("name") or "")]
            mut_self = [(bi, t) for bi, t in b.calls() if t["args"] and (t.get("argtys") or [""])[0].startswith("&mut ")
                        and any(o[0] == "param" and o[1] == 1 for o in b.origins(t["args"][0]))]
            stores = [(bi, si) for bi, si, st in b.iter_stmts() if st["k"] == "assign" and st["dst"]["p"] and
                      any(o[0] == "param" and o[1] == 1 for o in b.place_origins({"l": st["dst"]["l"], "p": []}))]
            ok = len(hand) == 1 and [x[0] for x in mut_self] == [hand[0][0]] and not stores
            why = ""
            rows = 0
            if not ok:
                why = ("write_lsbs updates the sink itself (%d store(s) to self, %d call(s) with &mut self) instead of only "
                       "handing the left-aligned operand to the msbs path: bits of the operand above n are not known to be "
                       "discarded" % (len(stores), len(mut_self)))
            else:
                bi, t = hand[0]
                ex = ExprCtx(b, at=bi)
                ev_, en = ex.expr(t["args"][1]), ex.expr(t["args"][2])
                if en != ("p", 3, ()):
                    ok, why = False, "the count handed to the msbs path is %s, not n" % lshow(en)
                else:
                    for W in (8, 16, 32, 64):
                        for n in range(1, W + 1):
                            for val in ((1 << W) - 1, 0x5A5A5A5A5A5A5A5A & ((1 << W) - 1), 1, 1 << (W - 1)):
                                rows += 1
                                got = _lx_eval(ev_, {("p", 2): val, ("p", 3): n, "#facts": facts}, W)
                                want = (val << (W - n)) & ((1 << W) - 1)
                                # the msbs path may take the operand in its own width or widened to 64 bits, left-aligned
                                if got != want and got != want << (64 - W):
                                    ok = False
                                    why = ("write_lsbs::<u%d>(%#x, %d) hands %s to the msbs path (expression %s); the n least "
                                           "significant bits left-aligned are %#x" % (W, val, n, "%#x" % got if got is not None
                                                                                      else "a value that is not evaluable / an "
                                                                                      "overflowing shift", lshow(ev_)[:100], want))
                                    break
                            if not ok:
                                break
                        if not ok:
                            break
            if ok:
                op.ok({"function": b.id, "rows": rows, "verdict": "left-aligned by BITS - n on every row"})
            else:
                op.fail(Finding("OPERAND", b.id, "lsbs-normalisation", 0, b.loc(), why))
        # ---------------- write_msbs: the first thing done with val is `val &= MASK(n)`
        b = bodies.get("write_msbs")
        if b is None:
            op.fail(Finding("OPERAND", imp["self"], "anchor-missing:write_msbs", 0, "", "write_msbs of %s not found" % imp["self"]))
            continue
        masks = []
        for bi, t in b.calls():
            nm = (t.get("fn") or {}).get("name")
            if nm in ("bitand_assign", "bitand") and t["args"]:
                masks.append((bi, t["args"][1], "call"))
        for bi, si, st in b.iter_stmts():
            if st["k"] == "assign" and st["rv"]["k"] == "bin" and st["rv"]["op"] == "BitAnd":
                masks.append((bi, st["rv"]["b"], "stmt"))
        # the mask must dominate every update of the sink (stores to self fields are allowed before: the length update)
        upd = [bi for bi, t in b.calls() if t["args"] and (t.get("argtys") or [""])[0].startswith("&mut ")
               and any(o[0] == "param" and o[1] == 1 for o in b.origins(t["args"][0]))]
        cand = [mk for mk in masks if all(b.dominates(mk[0], u) for u in upd)]
        if not cand:
            op.fail(Finding("OPERAND", b.id, "msbs-mask-missing", 0, b.loc(), "no masking of the operand (`val &= ...`) dominates "
                            "the updates of the storage in %s: bits below the n most significant ones can reach the sink" % b.id))
            continue
        bi, mop, _kind = cand[0]
        ex = ExprCtx(b, at=bi)
        me = ex.expr(mop)
        gen = any(isinstance(x, tuple) and x and x[0] == "c" and x[2] and str(x[2]).endswith("::BITS") for x in lwalk(me)) or \
            any(isinstance(x, tuple) and x and x[0] == "call" and re.search(r"One::one$", x[1].split("::<")[0]) for x in lwalk(me))
        widths = (8, 16, 32, 64) if gen else (64,)
        bad = None
        rows = 0
        for W in widths:
            for n in range(1, W + 1):
                rows += 1
                got = _lx_eval(me, {("p", 3): n, "#facts": facts}, W)
                want = (((1 << n) - 1) << (W - n)) & ((1 << W) - 1)
                if got != want:
                    bad = (W, n, got, want)
                    break
            if bad:
                break
        if bad:
            W, n, got, want = bad
            op.fail(Finding("OPERAND", b.id, "msbs-mask-wrong", 0, b.loc(bi, "term"),
                            "the mask applied to a %d-bit operand for n = %d is %s (expression %s); keeping exactly the n most "
                            "significant bits needs %#x. write_msbs(val, %d) then stores %s"
                            % (W, n, "%#x" % got if got is not None else "not evaluable / an overflowing shift", lshow(me)[:120],
                               want, n, "bits the caller did not ask for" if got is not None and got & ~want else
                               "zeros in place of operand bits")))
        else:
            op.ok({"function": b.id, "rows": rows, "mask": lshow(me)[:120], "widths": list(widths),
                   "verdict": "top-n mask on every row"})
    op.require_floor(4, "operand normalisations")
    return op


# ------------------------------------------------------------------------------------------------ DEFAULT/write-zeros
# The provided write_zeros is what a user-defined sink runs unless it overrides it (both in-memory sinks do, so no test
# reaches it).  Its effect summary - loops in closed form, the remainder as an expression of `n` - is evaluated for every
# n on a grid: the widths written must add up to n, every written value is zero, every single write is 1..=64 bits wide
# or an explicit zero-width write, and nothing else touches the sink.

def _eval_zero_run(E, facts, events, env, acc):
    for e in events:
        k = e[0]
        if k == "mark":
            continue
        if k == "w":
            w = E.evalv(e[2], env, facts)
            v = E.evalv(E.strip_casts(e[3]), env, facts)
            if not isinstance(w, int) or w < 0 or w > 64:
                return "a write of width %s (%s)" % (w, E.show(e[2]))
            if v != 0:
                return "a write of the value %s" % E.show(e[3])
            if e[1] != ("p", 1, ()):
                return "a write to another sink"
            acc[0] += w
        elif k == "loop":
            d = e[1]
            if d[0] != "range":
                return "a loop over %s" % E.show_desc(d)
            lo, hi = E.evalv(d[2], env, facts), E.evalv(d[3], env, facts)
            if not isinstance(lo, int) or not isinstance(hi, int):
                return "a loop whose bounds are not evaluable (%s)" % E.show_desc(d)
            if hi - lo > 1 << 16:
                return "a loop of %d iterations" % (hi - lo)
            for i in range(lo, hi):
                env2 = dict(env)
                env2[("idx", d[1])] = i
                r = _eval_zero_run(E, facts, e[2], env2, acc)
                if r:
                    return r
        elif k == "case":
            dv = E.evalv(e[1], env, facts)
            if not isinstance(dv, int):
                return "a branch on %s" % E.show(e[1])
            arm = None
            other = None
            for lab, evs in e[2]:
                labs = lab if isinstance(lab, tuple) else (lab,)
                if dv in labs:
                    arm = evs
                if "else" in labs:
                    other = evs
            arm = arm if arm is not None else other
            if arm is None:
                return "a branch on %s without an arm for %s" % (E.show(e[1]), dv)
            r = _eval_zero_run(E, facts, arm, env, acc)
            if r:
                return r
        else:
            return "a sink operation `%s`" % k
    return None


def rule_default_zeros(facts):
    from . import lib_effect as E
    dz = RuleResult("DEFAULT/write-zeros", "the provided write_zeros writes exactly n zero bits for every n (effect summary "
                                           "evaluated on a grid of run lengths)")
    b = facts.bodies.get("bitsink::BitSink::write_zeros")
    if b is None:
        dz.fail(Finding("DEFAULT/write-zeros", "bitsink::BitSink::write_zeros", "anchor-missing", 0, "",
                        "provided write_zeros not found"))
        return dz
    ectx = E.Ctx(facts)
    try:
        ev = E.Interp(ectx, b).run()
    except E.Undecided as e:
        dz.fail(Finding("DEFAULT/write-zeros", b.id, "undecided", 0, b.loc(), "cannot summarise %s: %s" % (b.id, e)))
        return dz
    grid = list(range(0, 1100)) + [4095, 4096, 4097, 65535, 65536, 65537, (1 << 20) - 1, 1 << 20, (1 << 20) + 1]
    bad = None
    for n in grid:
        acc = [0]
        why = _eval_zero_run(E, facts, ev, {2: n}, acc)
        if why:
            bad = (n, "the summary contains %s" % why)
            break
        if acc[0] != n:
            bad = (n, "%d zero bits are written" % acc[0])
            break
    if bad is None:
        dz.ok({"function": b.id, "summary": "; ".join(E.flat(ev))[:240], "rows": len(grid), "verdict": "n zero bits on every row"})
    else:
        dz.fail(Finding("DEFAULT/write-zeros", b.id, "zero-run-length", 0, b.loc(),
                        "provided write_zeros(n = %d): %s (summary: %s): a sink that relies on the provided method does not "
                        "receive a run of exactly n zeros" % (bad[0], bad[1], "; ".join(E.flat(ev))[:300])))
    dz.require_floor(1, "provided write_zeros")
    return dz


# ------------------------------------------------------------------------------------------------ DEFAULT/bytes-aligned
# The provided write_bytes_aligned is what every user-defined sink that does not override it runs (both in-memory sinks
# do override it, so no test reaches it).  Its effect summary must be: align, then one 8-bit `write` of every element of
# the slice, in order - nothing else, and no element skipped.

def rule_default_bytes(facts):
    from . import lib_effect as E
    db = RuleResult("DEFAULT/bytes-aligned", "the provided write_bytes_aligned aligns and then writes every byte of the slice, "
                                              "in order, as one 8-bit write each")
    b = facts.bodies.get("bitsink::BitSink::write_bytes_aligned")
    if b is None:
        db.fail(Finding("DEFAULT/bytes-aligned", "bitsink::BitSink::write_bytes_aligned", "anchor-missing", 0, "",
                        "provided write_bytes_aligned not found"))
        return db
    ectx = E.Ctx(facts)
    try:
        ev = E.Interp(ectx, b).run()
    except E.Undecided as e:
        db.fail(Finding("DEFAULT/bytes-aligned", b.id, "undecided", 0, b.loc(), "cannot summarise %s: %s" % (b.id, e)))
        return db
    ev = [e for e in ev if e[0] != "mark"]
    ok = len(ev) == 2 and ev[0][0] == "align" and ev[0][1] == ("p", 1, ()) and ev[1][0] == "loop" \
        and isinstance(ev[1][1], tuple) and ev[1][1][0] == "coll" and ev[1][1][2] == ("p", 2, ())
    if ok:
        body = [e for e in ev[1][2] if e[0] != "mark"]
        ok = len(body) == 1 and body[0][0] == "w" and body[0][1] == ("p", 1, ()) and body[0][2] == ("c", 8, None) \
            and E.strip_casts(body[0][3]) == ("elem", ev[1][1][1])
        if ok:
            # the whole byte: write::<u8>, the 8 LSBs of the (possibly widened) byte, or the 8 MSBs of a u8 operand
            meth, wty = body[0][4], ectx.wtypes.get(body[0][5])
            ok = (meth == "write" and body[0][3] == ("elem", ev[1][1][1])) or meth == "write_lsbs" or \
                (meth == "write_msbs" and wty == "u8" and body[0][3] == ("elem", ev[1][1][1]))
    if ok:
        db.ok({"function": b.id, "summary": "; ".join(E.flat(ev))[:200], "verdict": "align, then write(u8) for every element"})
    else:
        db.fail(Finding("DEFAULT/bytes-aligned", b.id, "not-per-byte", 0, b.loc(),
                        "the effect summary of the provided write_bytes_aligned is not `align; for b in bytes { write::<u8>(b) }` "
                        "(got: %s): a sink that relies on the provided method is not shown to receive every byte of the slice "
                        "exactly once and in order" % "; ".join(E.flat(ev))[:300]))
    db.require_floor(1, "provided write_bytes_aligned")
    return db
