"""C11 — bit sinks behave as an ideal MSB-first bit string (narrow structural clauses)."""
import re

from .core import Finding, RuleResult, FactError, op_local
from .lib_cast import dominating_bounds, idents
from . import witness

PROPERTY = "C11"
TECHNIQUE = ("SHIFTGUARD (zero-width guard dominating width-complement shifts, interprocedural for private helpers) + "
             "CALLSET on the trait's default methods + SIBLING on the write_bytes_aligned overrides + compile-fail "
             "witnesses for the sealed operand traits")
EXPLANATION = (
    "Narrow claim. Decided: (SHIFTGUARD) in the write_msbs / write_lsbs / write_zeros bodies of every BitSink impl and "
    "in the private helpers they call, every shift whose amount is `BITS - n` for a width parameter n (the expression "
    "that overflows exactly for n = 0, which the statement includes: 'any n from 0') is dominated by a guard that "
    "excludes n = 0, or is a wrapping/checked shift; for a private helper the guard may sit at every call site; "
    "(CALLSET) the default methods of the BitSink trait call, on self, only methods of the trait, and reduce to the "
    "required ones, so a user sink that implements only the required operations sees every bit through them; "
    "(SIBLING) every override of write_bytes_aligned begins with align_to_byte; (TYPESTATE) user types cannot be "
    "written and the operand traits cannot be implemented outside the crate (three witnesses with twins). NOT "
    "decided: bit-exactness of the shift/carry arithmetic over offsets x widths (numerical).")
NOT_DECIDED = "bit-exact behaviour of the sinks (shift/carry arithmetic); zero-width two's-complement fields"
ASSUMPTIONS = []

SHIFT_TRAITS = {"std::ops::Shl": "shl", "std::ops::Shr": "shr", "std::ops::ShlAssign": "shl_assign",
                "std::ops::ShrAssign": "shr_assign"}


def width_complement_param(body, op):
    """If op is (a copy of) `X - n` with n derived from exactly one parameter, return that parameter (l, proj)."""
    for o in body.origins(op):
        rv = None
        if o[0] == "rv":
            rv = o[3]
        elif o[0] == "cast":
            continue
        if rv is None or rv["k"] != "bin" or not rv["op"].startswith("Sub"):
            return None
        ids = idents(body.origins(rv["b"]))
        ps = [i for i in ids if i[0] == "param"]
        if len(ids) == 1 and ps:
            # the minuend must be a width constant (BITS / 64 / 32 ..), i.e. not data
            a = rv["a"]
            if a.get("k") == "const":
                return (ps[0][1], ps[0][2])
    return None


def shift_sites(body):
    """[(bb, amount_operand, text)] for non-wrapping shifts in a body."""
    out = []
    for bi, t in body.calls():
        fn = t.get("fn") or {}
        if fn.get("trait") in SHIFT_TRAITS and len(t["args"]) == 2:
            out.append((bi, t["args"][1], "%s %s" % (fn["name"], body.loc(bi, "term"))))
    for bi, si, s in body.iter_stmts():
        if s["k"] == "assign" and s["rv"]["k"] == "bin" and s["rv"]["op"] in ("Shl", "Shr"):
            out.append((bi, s["rv"]["b"], "%s %s" % (s["rv"]["op"], body.loc(bi, si))))
    return out


def _replace(e, old, new):
    if e == old:
        return new
    if not isinstance(e, tuple) or not e:
        return e
    return tuple(_replace(x, old, new) if isinstance(x, tuple) else x for x in e)


def _strip_all(e):
    """Remove casts and overflow wrappers everywhere in an expression (for row evaluation)."""
    if not isinstance(e, tuple) or not e:
        return e
    if e[0] == "cast":
        return _strip_all(e[2])
    if e[0] == "ovf":
        return _strip_all(e[1])
    return tuple(_strip_all(x) if isinstance(x, tuple) else x for x in e)


def run(facts, tier, ctx):
    out = []
    impls = facts.impls_of_trait("bitsink::BitSink")
    if len(impls) < 2:
        raise FactError("BitSink impls: %d" % len(impls))
    trait = facts.traits["bitsink::BitSink"]
    required = set(i["name"] for i in trait["items"] if not i["has_default"] and i["kind"].startswith("Fn"))
    defaults = set(i["name"] for i in trait["items"] if i["has_default"] and i["kind"].startswith("Fn"))

    # ----------------------------------------------------------- SHIFTGUARD
    sg = RuleResult("SHIFTGUARD", "width-complement shifts (`BITS - n`) are dominated by a guard excluding n = 0")
    roots = []
    for imp in impls:
        for name in ("write_msbs", "write_lsbs", "write_zeros"):
            b = facts.impl_method(imp, name)
            if b is not None:
                roots.append(b)
    # private helpers: inherent methods of the sink types reachable from the roots
    universe = {}
    for b in roots:
        universe[b.id] = b
    work = list(roots)
    while work:
        b = work.pop()
        for c in facts.callee_bodies(b, trait_fanout=False):
            if c.id not in universe and (c.raw.get("impl_self") or "").startswith("bitsink::MemSink") \
                    and not c.raw.get("impl_trait"):
                universe[c.id] = c
                work.append(c)

    def guarded_at_call_sites(helper, param):
        """All call sites of a private helper pass an argument for `param` that is guarded >= 1 there."""
        sites = 0
        for b in facts.body_list:
            for bi, t in b.calls():
                if (t.get("fn") or {}).get("def") != helper.id:
                    continue
                sites += 1
                arg = t["args"][param[0] - 1]
                ids = idents(b.origins(arg))
                if len(ids) != 1:
                    return False, "%s passes a computed width" % b.loc(bi, "term")
                (k, l, pj) = list(ids)[0][:3] if list(ids)[0][0] in ("param", "local") else (None, None, None)
                if k != "param":
                    return False, "%s passes a non-parameter width" % b.loc(bi, "term")
                iv = dominating_bounds(facts, b, (bi, "term"), (l, pj))
                if iv.get("min", 0) < 1:
                    return False, "call at %s is not guarded by n != 0" % b.loc(bi, "term")
        return sites > 0, "no call sites"

    for b in universe.values():
        ords = {}
        for (bi, amt, text) in shift_sites(b):
            p = width_complement_param(b, amt)
            if p is None:
                continue
            pname = b.local_name(p[0]) or "_%d" % p[0]
            k = "shift-by-BITS-minus-%s" % pname
            ords[k] = ords.get(k, 0) + 1
            iv = dominating_bounds(facts, b, (bi, "term"), p)
            sample = {"function": b.id, "site": text, "width_param": pname, "bounds": iv}
            if iv.get("min", 0) >= 1:
                sg.ok(dict(sample, verdict="ok", why="dominated by a guard excluding 0"))
                continue
            if not b.raw.get("impl_trait") and b.raw.get("vis") != "pub":
                okc, why = guarded_at_call_sites(b, p)
                if okc:
                    sg.ok(dict(sample, verdict="ok", why="private helper: every call site is guarded"))
                    continue
                extra = "; private helper but " + why
            else:
                extra = ""
            sg.fail(Finding("SHIFTGUARD", b.id, k, ords[k], text.split(" ")[-1],
                            "`%s` shifts by BITS - %s without a dominating guard for %s == 0: a zero-width write (which "
                            "the sink API allows) shifts by the full width - a panic in debug builds and stray bits "
                            "in release builds%s" % (text, pname, pname, extra)), dict(sample, verdict="FAIL"))
    sg.require_floor(5, "width-complement shifts in sink implementations")
    out.append(sg)

    # -------------------------------------------------------------- CALLSET
    cs = RuleResult("CALLSET", "default methods of BitSink touch self only through methods of the trait and reduce to "
                    "the required ones")
    def_bodies = {}
    for b in facts.body_list:
        if b.raw.get("in_trait") == "bitsink::BitSink" and b.kind == "AssocFn":
            def_bodies[b.raw["name"]] = b
    if set(def_bodies) != defaults:
        raise FactError("default method bodies %s != trait defaults %s" % (sorted(def_bodies), sorted(defaults)))
    uses = {}
    for name, b in def_bodies.items():
        called = set()
        for bi, t in b.calls():
            fn = t.get("fn") or {}
            recv_self = t["args"] and any(o[0] == "param" and o[1] == 1 for o in b.origins(t["args"][0]))
            if not recv_self:
                continue
            if fn.get("trait") == "bitsink::BitSink":
                called.add(fn["name"])
                cs.ok({"default_method": name, "calls": fn["name"], "site": b.loc(bi, "term"), "verdict": "ok"})
            elif fn.get("trait") in ("std::ops::Deref", "std::ops::DerefMut") or fn.get("name") in ("deref_mut",):
                continue
            else:
                cs.fail(Finding("CALLSET", b.id, "self-used-outside-trait:%s" % fn.get("def"), 0, b.loc(bi, "term"),
                                "default method %s passes self to %s, which is not a method of the sink trait"
                                % (name, fn.get("def"))))
        uses[name] = called
    # reduction to required methods (no default method depends only on itself / a cycle of defaults)
    for name in sorted(defaults):
        seen = set()
        stack = [name]
        req = set()
        while stack:
            n = stack.pop()
            if n in seen:
                continue
            seen.add(n)
            for c in uses.get(n, ()):
                if c in required:
                    req.add(c)
                elif c in defaults:
                    stack.append(c)
        if req:
            cs.ok({"default_method": name, "reduces_to": sorted(req), "verdict": "ok"})
        else:
            cs.fail(Finding("CALLSET", def_bodies[name].id, "does-not-reduce-to-required", 0, def_bodies[name].loc(),
                            "default method %s never reaches a required method of the trait" % name))
    cs.require_floor(5, "self-calls in default methods")
    out.append(cs)

    # -------------------------------------------------------------- SIBLING
    sb = RuleResult("SIBLING", "every override of write_bytes_aligned starts with align_to_byte")
    for imp in impls:
        b = facts.impl_method(imp, "write_bytes_aligned")
        if b is None:
            sb.ok({"impl": imp["self"], "verdict": "ok", "why": "uses the default method"}, trivial=True)
            continue
        al = [bi for bi, t in b.calls() if (t.get("fn") or {}).get("name") == "align_to_byte"]
        # everything that mutates self (other calls with &mut self, field stores) must be dominated by it
        ok = bool(al)
        for bi, t in b.calls():
            fn = t.get("fn") or {}
            if fn.get("name") == "align_to_byte":
                continue
            if t["args"] and any(o[0] == "param" and o[1] == 1 for o in b.origins(t["args"][0])) \
                    and (t.get("argtys") or [""])[0].startswith("&mut"):
                if not any(b.dominates(a, bi) for a in al):
                    ok = False
        for bi, si, s in b.iter_stmts():
            if s["k"] == "assign" and s["dst"]["p"] and s["dst"]["l"] == 1:
                if not any(b.dominates(a, bi) and a != bi for a in al):
                    ok = False
        # ... and no return may skip it (the default method pads even for an empty slice and reports the pad count)
        if ok:
            from .lib_mpt import mpt as _mpt, path_str as _ps
            okp, path = _mpt(b, al, 0, b.returns())
            if not okp:
                sb.fail(Finding("SIBLING", b.id, "write_bytes_aligned-return-without-align", 0, b.loc(),
                                "%s can return without calling align_to_byte (%s); the default method and the sibling "
                                "override always pad to the byte boundary first" % (b.id, _ps(b, path))))
                continue
        if ok:
            sb.ok({"impl": imp["self"], "site": b.loc(), "verdict": "ok"})
        else:
            sb.fail(Finding("SIBLING", b.id, "write_bytes_aligned-without-leading-align", 0, b.loc(),
                            "%s mutates the sink before (or without) align_to_byte; the default method and the sibling "
                            "override align first" % b.id))
    sb.require_floor(2, "BitSink impls")
    out.append(sb)

    # ------------------------------------------------------------ TYPESTATE
    ts = RuleResult("TYPESTATE", "operand traits are sealed (compile-fail witnesses with compiling twins)")
    witness.run_group(ts, "c11", facts.tag, ctx)
    ts.require_floor(3, "witnesses")
    out.append(ts)
    # ------------------------------------------------------------ FILLSTATE
    # a storage word can only be appended correctly when the fill of the last word is known: every growth of `storage` in a
    # sink method is preceded, on every path, by a read of the word-level fill (`paddings()`, directly or through a wrapper
    # all of whose paths read it).  A byte-level alignment alone is not enough for a sink with wider words.
    from .lib_mpt import performs, mpt, path_str
    from .lib_expr import expr as lexpr
    fs = RuleResult("FILLSTATE", "every growth of a sink's storage is dominated by a read of the word-level fill state")
    fill_readers = [b for b in facts.body_list if (b.raw.get("impl_self") or "").startswith("bitsink::MemSink")
                    and not b.raw.get("impl_trait") and b.raw.get("name") == "paddings"]
    okreader = False
    for fr in fill_readers:
        for _bi, _si, st in fr.iter_stmts():
            if st["k"] == "assign" and st["rv"]["k"] == "bin" and st["rv"]["op"] == "BitAnd":
                rhs = lexpr(fr, st["rv"]["b"])
                if "BITS" in str(rhs):
                    okreader = True
    if not okreader:
        fs.fail(Finding("FILLSTATE", "bitsink::MemSink::paddings", "fill-reader-not-found", 0, "",
                        "cannot find the word-level fill reader (bitlength masked with BITS - 1)"))

    def reads_fill(t):
        fn = t.get("fn") or {}
        return fn.get("name") == "paddings" and (fn.get("def") or "").startswith("bitsink::MemSink")
    GROW = ("push", "resize", "extend_from_slice", "extend", "insert", "append", "resize_with")
    methods = []
    for imp in impls:
        if not imp["self"].startswith("bitsink::MemSink"):
            continue
        for it_ in imp["items"]:
            b = facts.bodies.get(it_)
            if b is not None:
                methods.append(b)
    seen_ids = set(b.id for b in methods)
    work = list(methods)
    while work:
        b = work.pop()
        for c in facts.callee_bodies(b, trait_fanout=False):
            if c.id not in seen_ids and (c.raw.get("impl_self") or "").startswith("bitsink::MemSink") \
                    and not c.raw.get("impl_trait") and c.raw.get("name") not in ("new", "with_capacity", "clear", "reserve"):
                seen_ids.add(c.id)
                methods.append(c)
                work.append(c)
    for b in methods:
        through = performs(facts, b, reads_fill, depth=2)
        for bi, t in b.calls():
            fn = t.get("fn") or {}
            if fn.get("name") not in GROW or "Vec" not in (fn.get("full") or ""):
                continue
            recv = lexpr(b, t["args"][0])
            if ".storage" not in str(recv):
                continue
            path = b.find_path(0, {bi}, removed=set(through) - {bi})
            where = b.loc(bi, "term")
            if path is None:
                fs.ok({"function": b.id, "growth": fn.get("name"), "site": where, "verdict": "ok"})
            else:
                fs.fail(Finding("FILLSTATE", b.id, "growth-without-fill-read:%s" % fn.get("name"), 0, where,
                                "%s appends to the sink's storage (%s at %s) on a path that never reads the word-level fill "
                                "state: %s. Whatever the last storage word already holds is ignored, so the bits land at the "
                                "wrong position whenever the sink is not word-aligned" % (b.id, fn.get("name"), where,
                                                                                          path_str(b, path))))
    fs.require_floor(5, "storage growth sites in the sink implementations")
    out.append(fs)
    # ------------------------------------------------------------ GROWTH
    # the number of storage words a zero run / bit field adds is ceil(remaining_bits / word_bits): the expression handed to
    # Vec::resize is summarised by the effect interpreter and evaluated on one full period of remaining-bit counts.
    from . import lib_effect as E
    gr = RuleResult("GROWTH/ceil", "storage grows by ceil(bits / word bits) words where a sink method resizes it")
    for b in methods:
        if not any((t.get("fn") or {}).get("name") == "resize" for _bi, t in b.calls()):
            continue
        m = re.search(r"MemSink<(u\d+)>", b.raw.get("impl_self") or b.id)
        unit = E.INT_BITS.get(m.group(1)) if m else None
        if unit is None:
            continue
        ectx = E.Ctx(facts)
        ectx.open_loops = True
        ectx.log_calls = r"Vec::<.*>::resize$"
        ectx.noinline = [r"paddings"]
        it = E.Interp(ectx, b)
        try:
            it.run()
        except E.Undecided as e:
            gr.fail(Finding("GROWTH/ceil", b.id, "undecided", 0, b.loc(), "cannot summarise %s: %s" % (b.id, e)))
            continue
        for c in ectx.calls:
            newlen = E.strip_casts(c[1][1])
            K = None
            if newlen[0] == "bin" and newlen[1] == "Add":
                for a, o in ((newlen[2], newlen[3]), (newlen[3], newlen[2])):
                    if E.strip_casts(a)[0] == "len" and ".storage" in E.canon(a):
                        K = o
            if K is None:
                gr.fail(Finding("GROWTH/ceil", b.id, "resize-shape", 0, c[2], "resize target %s is not storage.len() + K"
                                % E.show(newlen)[:120]))
                continue
            leaves = []

            def collect(e):
                e = E.strip_casts(e)
                if not isinstance(e, tuple):
                    return
                if e[0] == "c":
                    return
                if e[0] == "bin":
                    collect(e[2])
                    collect(e[3])
                    return
                if e[0] == "ovf":
                    collect(e[1])
                    return
                if e not in leaves:
                    leaves.append(e)
            collect(K)
            if len(leaves) > 1:
                # the remaining-bit count is the smallest sub-expression containing every non-constant leaf
                def contains_all(e):
                    found = []

                    def go(x):
                        x = E.strip_casts(x)
                        if not isinstance(x, tuple):
                            return
                        if x[0] == "ovf":
                            go(x[1])
                            return
                        if x in leaves and x not in found:
                            found.append(x)
                            return
                        if x[0] == "bin":
                            go(x[2])
                            go(x[3])
                    go(e)
                    return len(found) == len(leaves)

                def lca(e):
                    e0 = e
                    e = E.strip_casts(e)
                    if isinstance(e, tuple) and e[0] == "ovf":
                        return lca(e[1])
                    if isinstance(e, tuple) and e[0] == "bin":
                        for ch in (e[2], e[3]):
                            if contains_all(ch):
                                return lca(ch)
                    return e
                node = lca(K)
                leaves = [node]
                K = _replace(_strip_all(K), _strip_all(node), ("var",))
                leaves = [("var",)]
            if len(leaves) != 1:
                gr.fail(Finding("GROWTH/ceil", b.id, "growth-not-a-function-of-one-count", 0, c[2],
                                "cannot identify the remaining-bit count in %s" % E.show(K)[:120]))
                continue
            bad = []
            for x in range(1, 2 * unit + 2):
                v = E.evalc(_strip_all(K), {leaves[0]: x})
                want = -(-x // unit)
                if v != want:
                    bad.append((x, v, want))
            if bad:
                gr.fail(Finding("GROWTH/ceil", b.id, "growth!=ceil", 0, c[2],
                                "%s grows its storage by %s words for a remaining bit count x = %s; for x = %d that is %s "
                                "words, ceil(x / %d) = %d (%d of %d counts differ): the sink's byte export gets a spurious or "
                                "missing word" % (b.id, E.show(K), E.show(leaves[0])[:60], bad[0][0], bad[0][1], unit,
                                                  bad[0][2], len(bad), 2 * unit + 1)))
            else:
                gr.ok({"function": b.id, "growth": E.show(K)[:80], "unit_bits": unit, "verdict": "= ceil(x / unit) on 1..=%d" % (2 * unit + 1)})
    gr.require_floor(2, "resize sites in the sink implementations")
    out.append(gr)
    return out
