"""C11 — bit sinks behave as an ideal MSB-first bit string (narrow structural clauses)."""
import re

from .core import Finding, RuleResult, FactError, op_local
from .lib_cast import dominating_bounds, idents
from . import witness

PROPERTY = "C11"
TECHNIQUE = ("SHIFTGUARD (zero-width guard dominating width-complement shifts, interprocedural for private helpers) + "
             "CALLSET on the trait's default methods + SIBLING on the write_bytes_aligned overrides + compile-fail "
             "witnesses for the sealed operand traits")
EXPLANATION = (
    "Narrow claim. Decided: (SHIFTGUARD) in the write_msbs / write_lsbs / write_zeros bodies of every BitSink impl and "
    "in the private helpers they call, every shift whose amount is `BITS - n` for a width parameter n (the expression "
    "that overflows exactly for n = 0, which the statement includes: 'any n from 0') is dominated by a guard that "
    "excludes n = 0, or is a wrapping/checked shift; for a private helper the guard may sit at every call site; "
    "(CALLSET) the default methods of the BitSink trait call, on self, only methods of the trait, and reduce to the "
    "required ones, so a user sink that implements only the required operations sees every bit through them; "
    "(SIBLING) every override of write_bytes_aligned begins with align_to_byte; (TYPESTATE) user types cannot be "
    "written and the operand traits cannot be implemented outside the crate (three witnesses with twins). NOT "
    "decided: bit-exactness of the shift/carry arithmetic over offsets x widths (numerical).")
NOT_DECIDED = "bit-exact behaviour of the sinks (shift/carry arithmetic); zero-width two's-complement fields"
ASSUMPTIONS = []

SHIFT_TRAITS = {"std::ops::Shl": "shl", "std::ops::Shr": "shr", "std::ops::ShlAssign": "shl_assign",
                "std::ops::ShrAssign": "shr_assign"}


def width_complement_param(body, op):
    """If op is (a copy of) `X - n` with n derived from exactly one parameter, return that parameter (l, proj)."""
    for o in body.origins(op):
        rv = None
        if o[0] == "rv":
            rv = o[3]
        elif o[0] == "cast":
            continue
        if rv is None or rv["k"] != "bin" or not rv["op"].startswith("Sub"):
            return None
        ids = idents(body.origins(rv["b"]))
        ps = [i for i in ids if i[0] == "param"]
        if len(ids) == 1 and ps:
            # the minuend must be a width constant (BITS / 64 / 32 ..), i.e. not data
            a = rv["a"]
            if a.get("k") == "const":
                return (ps[0][1], ps[0][2])
    return None


def shift_sites(body):
    """[(bb, amount_operand, text)] for non-wrapping shifts in a body."""
    out = []
    for bi, t in body.calls():
        fn = t.get("fn") or {}
        if fn.get("trait") in SHIFT_TRAITS and len(t["args"]) == 2:
            out.append((bi, t["args"][1], "%s %s" % (fn["name"], body.loc(bi, "term"))))
    for bi, si, s in body.iter_stmts():
        if s["k"] == "assign" and s["rv"]["k"] == "bin" and s["rv"]["op"] in ("Shl", "Shr"):
            out.append((bi, s["rv"]["b"], "%s %s" % (s["rv"]["op"], body.loc(bi, si))))
    return out


def run(facts, tier, ctx):
    out = []
    impls = facts.impls_of_trait("bitsink::BitSink")
    if len(impls) < 2:
        raise FactError("BitSink impls: %d" % len(impls))
    trait = facts.traits["bitsink::BitSink"]
    required = set(i["name"] for i in trait["items"] if not i["has_default"] and i["kind"].startswith("Fn"))
    defaults = set(i["name"] for i in trait["items"] if i["has_default"] and i["kind"].startswith("Fn"))

    # ----------------------------------------------------------- SHIFTGUARD
    sg = RuleResult("SHIFTGUARD", "width-complement shifts (`BITS - n`) are dominated by a guard excluding n = 0")
    roots = []
    for imp in impls:
        for name in ("write_msbs", "write_lsbs", "write_zeros"):
            b = facts.impl_method(imp, name)
            if b is not None:
                roots.append(b)
    # private helpers: inherent methods of the sink types reachable from the roots
    universe = {}
    for b in roots:
        universe[b.id] = b
    work = list(roots)
    while work:
        b = work.pop()
        for c in facts.callee_bodies(b, trait_fanout=False):
            if c.id not in universe and (c.raw.get("impl_self") or "").startswith("bitsink::MemSink") \
                    and not c.raw.get("impl_trait"):
                universe[c.id] = c
                work.append(c)

    def guarded_at_call_sites(helper, param):
        """All call sites of a private helper pass an argument for `param` that is guarded >= 1 there."""
        sites = 0
        for b in facts.body_list:
            for bi, t in b.calls():
                if (t.get("fn") or {}).get("def") != helper.id:
                    continue
                sites += 1
                arg = t["args"][param[0] - 1]
                ids = idents(b.origins(arg))
                if len(ids) != 1:
                    return False, "%s passes a computed width" % b.loc(bi, "term")
                (k, l, pj) = list(ids)[0][:3] if list(ids)[0][0] in ("param", "local") else (None, None, None)
                if k != "param":
                    return False, "%s passes a non-parameter width" % b.loc(bi, "term")
                iv = dominating_bounds(facts, b, (bi, "term"), (l, pj))
                if iv.get("min", 0) < 1:
                    return False, "call at %s is not guarded by n != 0" % b.loc(bi, "term")
        return sites > 0, "no call sites"

    for b in universe.values():
        ords = {}
        for (bi, amt, text) in shift_sites(b):
            p = width_complement_param(b, amt)
            if p is None:
                continue
            pname = b.local_name(p[0]) or "_%d" % p[0]
            k = "shift-by-BITS-minus-%s" % pname
            ords[k] = ords.get(k, 0) + 1
            iv = dominating_bounds(facts, b, (bi, "term"), p)
            sample = {"function": b.id, "site": text, "width_param": pname, "bounds": iv}
            if iv.get("min", 0) >= 1:
                sg.ok(dict(sample, verdict="ok", why="dominated by a guard excluding 0"))
                continue
            if not b.raw.get("impl_trait") and b.raw.get("vis") != "pub":
                okc, why = guarded_at_call_sites(b, p)
                if okc:
                    sg.ok(dict(sample, verdict="ok", why="private helper: every call site is guarded"))
                    continue
                extra = "; private helper but " + why
            else:
                extra = ""
            sg.fail(Finding("SHIFTGUARD", b.id, k, ords[k], text.split(" ")[-1],
                            "`%s` shifts by BITS - %s without a dominating guard for %s == 0: a zero-width write (which "
                            "the sink API allows) shifts by the full width - a panic in debug builds and stray bits "
                            "in release builds%s" % (text, pname, pname, extra)), dict(sample, verdict="FAIL"))
    sg.require_floor(5, "width-complement shifts in sink implementations")
    out.append(sg)

    # -------------------------------------------------------------- CALLSET
    cs = RuleResult("CALLSET", "default methods of BitSink touch self only through methods of the trait and reduce to "
                    "the required ones")
    def_bodies = {}
    for b in facts.body_list:
        if b.raw.get("in_trait") == "bitsink::BitSink" and b.kind == "AssocFn":
            def_bodies[b.raw["name"]] = b
    if set(def_bodies) != defaults:
        raise FactError("default method bodies %s != trait defaults %s" % (sorted(def_bodies), sorted(defaults)))
    uses = {}
    for name, b in def_bodies.items():
        called = set()
        for bi, t in b.calls():
            fn = t.get("fn") or {}
            recv_self = t["args"] and any(o[0] == "param" and o[1] == 1 for o in b.origins(t["args"][0]))
            if not recv_self:
                continue
            if fn.get("trait") == "bitsink::BitSink":
                called.add(fn["name"])
                cs.ok({"default_method": name, "calls": fn["name"], "site": b.loc(bi, "term"), "verdict": "ok"})
            elif fn.get("trait") in ("std::ops::Deref", "std::ops::DerefMut") or fn.get("name") in ("deref_mut",):
                continue
            else:
                cs.fail(Finding("CALLSET", b.id, "self-used-outside-trait:%s" % fn.get("def"), 0, b.loc(bi, "term"),
                                "default method %s passes self to %s, which is not a method of the sink trait"
                                % (name, fn.get("def"))))
        uses[name] = called
    # reduction to required methods (no default method depends only on itself / a cycle of defaults)
    for name in sorted(defaults):
        seen = set()
        stack = [name]
        req = set()
        while stack:
            n = stack.pop()
            if n in seen:
                continue
            seen.add(n)
            for c in uses.get(n, ()):
                if c in required:
                    req.add(c)
                elif c in defaults:
                    stack.append(c)
        if req:
            cs.ok({"default_method": name, "reduces_to": sorted(req), "verdict": "ok"})
        else:
            cs.fail(Finding("CALLSET", def_bodies[name].id, "does-not-reduce-to-required", 0, def_bodies[name].loc(),
                            "default method %s never reaches a required method of the trait" % name))
    cs.require_floor(5, "self-calls in default methods")
    out.append(cs)

    # -------------------------------------------------------------- SIBLING
    sb = RuleResult("SIBLING", "every override of write_bytes_aligned starts with align_to_byte")
    for imp in impls:
        b = facts.impl_method(imp, "write_bytes_aligned")
        if b is None:
            sb.ok({"impl": imp["self"], "verdict": "ok", "why": "uses the default method"}, trivial=True)
            continue
        al = [bi for bi, t in b.calls() if (t.get("fn") or {}).get("name") == "align_to_byte"]
        # everything that mutates self (other calls with &mut self, field stores) must be dominated by it
        ok = bool(al)
        for bi, t in b.calls():
            fn = t.get("fn") or {}
            if fn.get("name") == "align_to_byte":
                continue
            if t["args"] and any(o[0] == "param" and o[1] == 1 for o in b.origins(t["args"][0])) \
                    and (t.get("argtys") or [""])[0].startswith("&mut"):
                if not any(b.dominates(a, bi) for a in al):
                    ok = False
        for bi, si, s in b.iter_stmts():
            if s["k"] == "assign" and s["dst"]["p"] and s["dst"]["l"] == 1:
                if not any(b.dominates(a, bi) and a != bi for a in al):
                    ok = False
        if ok:
            sb.ok({"impl": imp["self"], "site": b.loc(), "verdict": "ok"})
        else:
            sb.fail(Finding("SIBLING", b.id, "write_bytes_aligned-without-leading-align", 0, b.loc(),
                            "%s mutates the sink before (or without) align_to_byte; the default method and the sibling "
                            "override align first" % b.id))
    sb.require_floor(2, "BitSink impls")
    out.append(sb)

    # ------------------------------------------------------------ TYPESTATE
    ts = RuleResult("TYPESTATE", "operand traits are sealed (compile-fail witnesses with compiling twins)")
    witness.run_group(ts, "c11", facts.tag, ctx)
    ts.require_floor(3, "witnesses")
    out.append(ts)
    return out
