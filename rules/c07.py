"""C07 — configuration verification is exact; Verified<T> cannot be forged or mutated."""
import json
import os
import re

from .core import Finding, RuleResult, FactError, op_local
from .lib_errdisc import run_errdisc, closure_arg_body
from .lib_range import check_helpers, helper_checks, interval_from, path_forces_err, decode_cond
from . import witness

PROPERTY = "C07"
TECHNIQUE = ("CHAIN (verification exhaustiveness over the config type tree) + RANGE (range-check extraction from MIR, "
             "compared with the documented ranges) + TYPESTATE compile-fail witnesses for Verified<T>")
EXPLANATION = (
    "Decides the 'accepts iff every field at every nesting level is in range' clause structurally: (CHAIN) for every "
    "type in the configuration tree rooted at the type the encode entry points take as &Verified<_>, the parent's "
    "verify() calls the child's verify() on exactly that field and propagates the result; (RANGE) every call of the "
    "bool->Result<(),VerifyError> helper in a config verify() is decoded to `field CMP const` and the resulting "
    "interval per field must equal the documented interval (oracle transcribed from the property statement), float "
    "range via RangeInclusive::contains with an Err on the false edge; experimental switches are rejected iff the "
    "build lacks the feature; (TYPESTATE) Verified<T> has no DerefMut/From/Default/AsMut, is only constructed after a "
    "successful verify() or in an unsafe fn, and five compile-fail witnesses with compiling twins show it cannot be "
    "forged/mutated from outside the crate. 'Accepted configurations never panic while encoding' is NOT decided beyond "
    "these ranges.")
NOT_DECIDED = "that every accepted configuration encodes every valid input without panicking (runtime arithmetic)"
ASSUMPTIONS = ["the oracle /verif/oracle/config_ranges.json restates the ranges of the property statement"]

ORACLE = os.path.join(os.path.dirname(os.path.dirname(os.path.abspath(__file__))), "oracle", "config_ranges.json")


def config_root(facts):
    roots = set()
    for f in facts.raw["fns"]:
        if not f["reachable"]:
            continue
        for t in f["inputs"]:
            m = re.match(r"^&error::Verified<(.+)>$", t)
            if m and m.group(1) in facts.adts:
                roots.add(m.group(1))
    if len(roots) != 1:
        raise FactError("config root not unique: %s" % sorted(roots))
    return roots.pop()


def local_adts_in(facts, ty):
    out = []
    for m in re.finditer(r"[A-Za-z_][A-Za-z_0-9]*(?:::[A-Za-z_][A-Za-z_0-9]*)+", ty):
        if m.group(0) in facts.adts and m.group(0) not in out:
            out.append(m.group(0))
    return out


def config_tree(facts, root):
    """list of (parent, variant, field, child) edges and the set of types."""
    types = [root]
    edges = []
    leaves = []
    i = 0
    while i < len(types):
        p = types[i]
        i += 1
        adt = facts.adts[p]
        for v in adt["variants"]:
            for f in v["fields"]:
                kids = local_adts_in(facts, f["ty"])
                if kids:
                    for k in kids:
                        edges.append((p, v["name"], f["name"], k))
                        if k not in types:
                            types.append(k)
                else:
                    leaves.append((p, v["name"], f["name"], f["ty"]))
    return types, edges, leaves


def verify_body(facts, ty):
    for imp in facts.impls_of_trait("error::Verify"):
        if imp.get("self_adt") == ty or imp["self"] == ty:
            b = facts.impl_method(imp, "verify")
            if b is not None:
                return b
    return None


def run(facts, tier, ctx):
    oracle = json.load(open(ORACLE))
    root = config_root(facts)
    types, edges, leaves = config_tree(facts, root)
    experimental = facts.tag == "F3"

    # ------------------------------------------------------------------ CHAIN
    chain = RuleResult("CHAIN", "every Verify-typed field of a config type is verified by its parent's verify() and "
                       "the result is propagated")
    vbodies = {}
    for t in types:
        vb = verify_body(facts, t)
        if vb is None:
            chain.fail(Finding("CHAIN", t, "no-verify-impl", 0, "%s:%d" % (facts.adts[t]["file"], facts.adts[t]["line"]),
                               "config-tree type %s has no Verify impl, so nothing below it is range-checked" % t))
        else:
            vbodies[t] = vb
    for (p, variant, field, child) in edges:
        vb = vbodies.get(p)
        if vb is None:
            continue
        hit = None
        for b in [vb] + facts.closures_of(vb):
            for bi, t in b.calls():
                fn = t.get("fn")
                if not fn or fn["name"] != "verify":
                    continue
                if fn.get("trait") != "error::Verify":
                    continue
                if fn.get("self_ty") != child:
                    continue
                # receiver must be self.<field>
                ors = b.origins(t["args"][0])
                ok = any(o[0] in ("param", "local") and re.search(r"\.%s\b" % re.escape(field), o[2]) for o in ors)
                if ok:
                    hit = (b, bi)
        if hit is None:
            # `verify_field("name", &self.field)?`: a crate-local generic helper that verifies its parameter on every one of
            # its own Ok paths, called with the field (the argument type fixes the child type)
            from .lib_mpt import mpt as _mpt
            from .lib_fill import ok_returns as _okr
            for b in [vb] + facts.closures_of(vb):
                for bi, t in b.calls():
                    fn = t.get("fn") or {}
                    cb = facts.bodies.get(fn.get("res") or "") or facts.bodies.get(fn.get("def") or "")
                    if cb is None or not fn.get("local") or cb.kind != "Fn" or fn.get("name") == "verify":
                        continue
                    for ci, ct in cb.calls():
                        cfn = ct.get("fn") or {}
                        if cfn.get("name") != "verify" or cfn.get("trait") != "error::Verify" or not ct.get("args"):
                            continue
                        ks = set(o[1] for o in cb.origins(ct["args"][0]) if o[0] == "param")
                        if len(ks) != 1 or not all(o[0] == "param" for o in cb.origins(ct["args"][0])):
                            continue
                        k = ks.pop()
                        if not (1 <= k <= len(t["args"])):
                            continue
                        coks = _okr(cb) or list(cb.returns())
                        okh, _p = _mpt(cb, [ci], 0, coks)
                        if not okh:
                            continue
                        aty = (t.get("argtys") or [""] * k)[k - 1]
                        if re.sub(r"^&(mut )?", "", aty or "") != child:
                            continue
                        ors = b.origins(t["args"][k - 1])
                        if any(o[0] in ("param", "local") and re.search(r"\.%s\b" % re.escape(field), o[2]) for o in ors):
                            hit = (b, bi)
        where = vb.loc()
        if hit is None:
            chain.fail(Finding("CHAIN", vb.id, "missing:%s.%s->%s" % (p, field, child), 0, where,
                               "%s::verify never calls <%s as Verify>::verify on self.%s: values of that sub-tree are "
                               "accepted unchecked" % (p, child, field)),
                       {"parent": p, "field": field, "child": child, "verdict": "FAIL", "site": where})
        else:
            # the child's verification is unconditional: every Ok return of the parent's verify() passes it
            from .lib_mpt import mpt, path_str
            from .lib_fill import ok_returns
            hb, hbi = hit
            through = []
            if hb is vb:
                through = [hbi]
            else:
                # the call sits in a closure: the block of verify() that hands that closure to a combinator
                for bi2, t2 in vb.calls():
                    for a in t2["args"]:
                        cb = closure_arg_body(facts, vb, a)
                        if cb is not None and (cb.id == hb.id or hb.id.startswith(cb.id + "::")):
                            through.append(bi2)
            oks = ok_returns(vb)
            direct_ok = [bb for bb in vb.returns()] if not oks else oks
            if not oks:
                # no `Ok(..)` aggregate: verify() ends in a tail call whose result is returned (`verify_field(..)` as the last
                # expression); the Ok paths are the ones that reach such a call, the `?` exits go through from_residual
                tails = [bi2 for bi2, t2 in vb.calls() if t2["dst"]["l"] == 0 and not t2["dst"]["p"]
                         and (t2.get("fn") or {}).get("name") != "from_residual"]
                if tails:
                    direct_ok = tails
            okp, path = mpt(vb, through, 0, direct_ok) if through else (False, None)
            if okp:
                chain.ok({"parent": p, "field": field, "child": child, "verdict": "ok", "site": hit[0].loc(hit[1], "term")})
            else:
                chain.fail(Finding("CHAIN", vb.id, "conditional:%s.%s->%s" % (p, field, child), 0, where,
                                   "%s::verify can return Ok without verifying self.%s (%s): out-of-range values of that "
                                   "sub-tree are accepted on that path" % (p, field, path_str(vb, path) if path else "no path info")),
                           {"parent": p, "field": field, "child": child, "verdict": "FAIL", "site": where})
    chain.require_floor(7, "parent->child Verify edges of the config tree")

    # ------------------------------------------------------------ propagation
    vids = set()
    for vb in vbodies.values():
        vids.add(vb.id)
        for c in facts.closures_of(vb):
            vids.add(c.id)
    prop = run_errdisc(facts, "ERRDISC/verify", "every Result<_, VerifyError> produced inside a config verify() is "
                       "propagated (a dropped check accepts out-of-range values)",
                       lambda e, b: e.strip() == "error::VerifyError", body_filter=lambda b: b.id in vids,
                       finding_prefix="ERRDISC/verify")
    prop.require_floor(15, "VerifyError-producing call sites in config verify bodies")

    # ------------------------------------------------------------------ RANGE
    rng = RuleResult("RANGE", "extracted interval per config field equals the documented interval")
    helpers = check_helpers(facts)
    if not helpers:
        raise FactError("no bool->Result<(),VerifyError> helper found")
    # helper premise: cond == false forces Err
    for h in helpers:
        ok = False
        for bi in sorted(h.live):
            t = h.term(bi)
            if t["k"] != "switch":
                continue
            c = decode_cond(h, t["d"])
            # switch on `!cond` or on cond
            ors = h.origins(t["d"])
            neg = False
            src = None
            for o in ors:
                if o[0] == "param" and o[1] == 1:
                    src = "cond"
                if o[0] == "rv" and o[3]["k"] == "un" and o[3]["op"] == "Not":
                    inner = h.origins(o[3]["a"])
                    if any(x[0] == "param" and x[1] == 1 for x in inner):
                        src = "cond"
                        neg = True
            if src is None:
                continue
            # value of the switch discriminant when cond == false
            dv = 1 if neg else 0
            tgt = None
            for val, tb in t["vals"]:
                if val == dv:
                    tgt = tb
            if tgt is None:
                tgt = t["else"]
            forced, _ = path_forces_err(h, tgt)
            ok = forced
        if ok:
            rng.ok({"helper": h.id, "premise": "cond == false forces Err", "verdict": "ok"})
        else:
            rng.fail(Finding("RANGE", h.id, "helper-does-not-force-err", 0, h.loc(),
                             "check helper %s does not return Err on every path where its condition is false" % h.id))

    extracted = {}
    undecoded = []
    for t, vb in vbodies.items():
        for chk in helper_checks(facts, vb, helpers):
            c = chk["cond"]
            where = chk["body"].loc(chk["bb"], "term")
            if c is None or c["kind"] not in ("cmp",):
                undecoded.append((t, vb, where, c))
                continue
            extracted.setdefault((t, c["subject"]), []).append((c["op"], c["const"], where))
    for (t, vb, where, c) in undecoded:
        rng.fail(Finding("RANGE", vb.id, "undecoded-check", 0, where,
                         "a range check in %s could not be decoded to `field CMP constant` (%s): undecided, fail closed"
                         % (vb.id, c and c.get("kind"))))

    want = {}
    for t, fields in oracle["ranges"].items():
        for f, iv in fields.items():
            if "fmin" in iv:
                continue
            want[(t, f)] = {k: v for k, v in iv.items() if k in ("min", "max", "eq")}
    if not experimental:
        for t, fields in oracle["experimental_only"].items():
            for f, iv in fields.items():
                want[(t, f)] = dict(iv)
    for key in sorted(set(want) | set(extracted)):
        t, f = key
        got = interval_from([(op, c) for (op, c, _w) in extracted.get(key, [])])
        exp = want.get(key)
        where = extracted[key][0][2] if key in extracted else (vbodies[t].loc() if t in vbodies else "")
        fn = vbodies[t].id if t in vbodies else t
        sample = {"type": t, "field": f, "extracted": got, "documented": exp, "site": where}
        if exp is None:
            rng.fail(Finding("RANGE", fn, "undocumented-constraint:%s" % f, 0, where,
                             "%s.%s is constrained to %s but the documented ranges do not constrain it "
                             "(verification rejects values the statement accepts)" % (t, f, got)),
                     dict(sample, verdict="FAIL"))
        elif got != exp:
            rng.fail(Finding("RANGE", fn, "range-mismatch:%s" % f, 0, where,
                             "%s.%s: verification enforces %s, documented range is %s" % (t, f, got or "nothing", exp)),
                     dict(sample, verdict="FAIL"))
        else:
            rng.ok(dict(sample, verdict="ok"))

    # float range (Tukey alpha): RangeInclusive::<f32>::contains with const bounds, Err on the false edge
    for t, fields in oracle["ranges"].items():
        for f, iv in fields.items():
            if "fmin" not in iv:
                continue
            vb = vbodies.get(t)
            if vb is None:
                continue
            found = False
            for bi, term in vb.calls():
                fn = term.get("fn")
                if not fn or not fn["def"].startswith("std::ops::RangeInclusive::<Idx>::contains"):
                    continue
                # range operand: &RangeInclusive built by RangeInclusive::new(const lo, const hi)
                ors = vb.origins(term["args"][0])
                lo = hi = None
                news = []
                for o in ors:
                    if o[0] == "call":
                        news.append(o[2])
                    elif o[0] == "const" and o[1].get("promoted") and o[1]["s"] in facts.bodies:
                        # `&(lo..=hi)` is a promoted constant: read its (exported) body
                        pb = facts.bodies[o[1]["s"]]
                        news += [t2 for _b2, t2 in pb.calls()]
                for nt in news:
                    if nt.get("fn") and nt["fn"]["def"].startswith("std::ops::RangeInclusive::<Idx>::new"):
                        a0, a1 = nt["args"][0], nt["args"][1]
                        if a0.get("k") == "const" and a1.get("k") == "const":
                            lo, hi = float(a0.get("f", "nan")), float(a1.get("f", "nan"))
                subj = vb.origins(term["args"][1])
                sname = None
                for o in subj:
                    if o[0] in ("param", "local"):
                        m = re.findall(r"\.([A-Za-z_]\w*)", o[2])
                        if m:
                            sname = m[-1]
                where = vb.loc(bi, "term")
                # the bool result must be switched on, with the false edge forcing Err
                forced = False
                dl = op_local({"k": "copy", "pl": term["dst"]}) if not term["dst"]["p"] else None
                for (ub, us) in vb.uses_of_local(term["dst"]["l"]):
                    if us == "term" and vb.term(ub)["k"] == "switch":
                        sw = vb.term(ub)
                        ft = None
                        for val, tb in sw["vals"]:
                            if val == 0:
                                ft = tb
                        if ft is None:
                            ft = sw["else"]
                        forced, _ = path_forces_err(vb, ft)
                sample = {"type": t, "field": f, "extracted": {"fmin": lo, "fmax": hi, "subject": sname,
                                                                 "false_edge_forces_err": forced},
                          "documented": iv, "site": where}
                found = True
                if lo == iv["fmin"] and hi == iv["fmax"] and sname == f and forced:
                    rng.ok(dict(sample, verdict="ok", note="RangeInclusive::contains is false for NaN by IEEE "
                                                           "comparison semantics"))
                else:
                    rng.fail(Finding("RANGE", vb.id, "float-range-mismatch:%s" % f, 0, where,
                                     "%s.%s: extracted %s, documented %s" % (t, f, sample["extracted"], iv)),
                             dict(sample, verdict="FAIL"))
            if not found:
                rng.fail(Finding("RANGE", vb.id, "float-range-missing:%s" % f, 0, vb.loc(),
                                 "%s.%s: no RangeInclusive::contains check with constant bounds found (documented %s)"
                                 % (t, f, iv)))

    # every numeric leaf is either range-checked or documented as unconstrained
    unconstrained = oracle["unconstrained"]
    for (p, variant, field, fty) in leaves:
        if (p, field) in want or field in unconstrained.get(p, []):
            continue
        if p in oracle["ranges"] and field in oracle["ranges"][p]:
            continue
        if p in oracle["experimental_only"] and field in oracle["experimental_only"][p]:
            continue
        rng.fail(Finding("RANGE", p, "leaf-without-documented-range:%s" % field, 0,
                         "%s:%d" % (facts.adts[p]["file"], facts.adts[p]["line"]),
                         "config field %s.%s (%s) is neither in the documented ranges nor listed as unconstrained: the "
                         "oracle must be extended before the tree can be called exact" % (p, field, fty)))
    rng.require_floor(8 if not experimental else 6, "documented field ranges compared")

    # -------------------------------------------------------------- TYPESTATE
    ts = RuleResult("TYPESTATE", "Verified<T> cannot be forged or mutated: impl set, constructor sites, compile-fail "
                    "witnesses with compiling twins")
    forbidden = {"std::ops::DerefMut", "std::convert::From", "std::default::Default", "std::convert::AsMut",
                 "std::borrow::BorrowMut"}
    nimpl = 0
    for imp in facts.impls:
        if imp.get("self_adt") != "error::Verified":
            continue
        nimpl += 1
        tr = imp.get("trait")
        where = "%s:%d" % (imp["file"], imp["line"])
        if tr in forbidden:
            ts.fail(Finding("TYPESTATE", "impl %s for error::Verified" % tr, "forbidden-impl", 0, where,
                            "Verified<T> implements %s: a verified value can be mutated or built without verification"
                            % tr))
        else:
            ts.ok({"impl": imp.get("trait_full") or "inherent", "verdict": "ok", "site": where})
    # inherent impls / methods handing out &mut T or constructing from T
    for b in facts.body_list:
        if b.raw.get("impl_self", "").startswith("error::Verified<") and not b.raw.get("impl_trait"):
            out = b.raw.get("output", "")
            if "&mut" in out or any(i in ("T",) for i in b.raw.get("inputs", [])):
                ts.fail(Finding("TYPESTATE", b.id, "inherent-escape", 0, b.loc(),
                                "inherent method of Verified<T> returns %s / takes a bare T" % out))
    # who constructs Verified(..)
    for b in facts.body_list:
        for bi, si, s in b.iter_stmts():
            if s["k"] != "assign":
                continue
            rv = s["rv"]
            if rv["k"] != "agg" or rv.get("adt") != "error::Verified":
                continue
            where = b.loc(bi, si)
            fnfact = facts.fns.get(b.id.split("::{closure")[0], {})
            if fnfact.get("unsafe"):
                ts.ok({"constructs": "Verified", "in": b.id, "why": "unsafe fn (caller's obligation)", "site": where,
                       "verdict": "ok"})
                continue
            if b.raw.get("impl_trait") in ("std::clone::Clone",):
                ts.ok({"constructs": "Verified", "in": b.id, "why": "derived Clone of an already verified value",
                       "site": where, "verdict": "ok"})
                continue
            if "_serde::" in b.id or "serde::" in (b.raw.get("impl_trait") or ""):
                ts.ok({"constructs": "Verified", "in": b.id, "site": where, "verdict": "note",
                       "why": "derive(Deserialize) builds a Verified<T> without verification (observation outside the "
                              "statement of C07; recorded, not a violation)"}, trivial=True)
                continue
            # must be guarded by the Ok edge of <Self as Verify>::verify(self)
            guarded = False
            for cb, ct in b.calls():
                fn = ct.get("fn")
                if fn and fn["name"] == "verify" and fn.get("trait") == "error::Verify":
                    r = ct["dst"]["l"]
                    # switch on discr of r (possibly through a ref / copy)
                    for bb2 in sorted(b.live):
                        t2 = b.term(bb2)
                        if t2["k"] != "switch":
                            continue
                        ors = b.origins(t2["d"])
                        for o in ors:
                            if o[0] == "rv" and o[3]["k"] == "discr":
                                base = b.place_origins(o[3]["pl"])
                                if any(x[0] == "call" and x[1] == cb for x in base):
                                    et = None
                                    for val, tb in t2["vals"]:
                                        if val == 1:
                                            et = tb
                                    if et is None:
                                        et = t2["else"]
                                    if bi not in b.reachable(et):
                                        guarded = True
            if guarded:
                ts.ok({"constructs": "Verified", "in": b.id, "why": "only on the Ok edge of verify()", "site": where,
                       "verdict": "ok"})
            else:
                ts.fail(Finding("TYPESTATE", b.id, "unguarded-construction", 0, where,
                                "Verified(..) is constructed in %s without being confined to the Ok edge of verify() "
                                "(and the function is not unsafe)" % b.id))
    if tier == "thorough" or os.environ.get("VERIF_WITNESS", "1") == "1":
        witness.run_group(ts, "c07", facts.tag, ctx)
    ts.require_floor(4, "Verified<T> impls, constructor sites and witnesses")
    # "every accepted configuration encodes ... losslessly": one structural necessary condition is shared with C02 - the
    # predictor order the configuration asks for, the order of the quantised predictor actually stored and the warm-up
    # length of the residual agree at every construction site
    from . import c02
    agree = c02.predictor_order(facts, c02.oracle())
    return [chain, prop, rng, ts] + agree
