"""C06 — par-mode encoding terminates, propagates failures and leaks no threads (structural clauses)."""
import re

from .core import Finding, RuleResult, FactError
from .lib_errdisc import run_errdisc, closure_arg_body
from .lib_mpt import performs, always_performs, mpt, mpt_after, path_str

PROPERTY = "C06"
CONFIGS_QUICK = ["F2"]
CONFIGS_THOROUGH = ["F1", "F2", "F3"]  # the par module does not exist in F0
TECHNIQUE = ("MPT/PAIR path rules (stop tokens, joins, buffer return on every return path incl. `?` edges) with "
             "role-based anchors + ERRDISC on SourceError/EncodeError in the par module")
EXPLANATION = (
    "Decides the structural obligations of the stop/join protocol that must hold on EVERY return path (which is what "
    "'for every fault position k' quantifies over): (R-STOP) from the point where workers are spawned, every path to a "
    "return of the par entry point passes a call that sends the stop tokens (a callee counts iff all ITS exits pass "
    "it); (R-JOIN) every such path passes a join of the worker handles (for-each-join idiom recognised); (R-JOIN-HASH/"
    "R-STOP-HASH) every path from the creation of the asynchronous hashing context passes its stop and its joining "
    "finaliser, stop before join; (R-RETURN-BUFFER) in the worker, after a buffer id was popped every path to the "
    "next pop or to the exit sends it back for refill; (ERRDISC) no Result<_, SourceError|EncodeError> in the par "
    "module is unwrapped/expected/swallowed and no closure receiving one diverges. Roles (feeder, stop-sender, worker, "
    "entry) are found by what the bodies do, not by name. Deadlock-freedom of the bounded queues under all "
    "interleavings is NOT decided (model-checking question).")
NOT_DECIDED = "deadlock freedom / liveness under interleavings; capacity arithmetic of the bounded queues"
ASSUMPTIONS = ["threads are only created through std::thread::spawn and joined through JoinHandle::join"]


def applicable(tag):
    return tag != "F0"


_FACTS = [None]


def _wrapper_payload(t, kind):
    """A crate-local generic wrapper around Sender::send / Receiver::recv (`fn send_or_panic<T>(q: &Sender<T>, m: T)`):
    returns the payload type taken from the argument type, or None."""
    fn = t.get("fn")
    facts = _FACTS[0]
    if not fn or facts is None or not fn.get("local"):
        return None
    cb = facts.bodies.get(fn.get("res") or "") or facts.bodies.get(fn.get("def") or "")
    if cb is None or cb.raw.get("impl_self") or len(cb.blocks) > 12:
        return None
    want = "crossbeam_channel::Sender::<T>::send" if kind == "send" else "crossbeam_channel::Receiver::<T>::recv"
    if not any(((x.get("fn") or {}).get("def") or "").startswith(want) for _b, x in cb.calls()):
        return None
    at = (t.get("argtys") or [""])[0]
    m = re.match(r"^&(?:mut )?crossbeam_channel::%s<(.*)>$" % ("Sender" if kind == "send" else "Receiver"), at)
    return m.group(1) if m else None


def is_send(t, payload=None):
    fn = t.get("fn")
    if not fn:
        return False
    if not fn["def"].startswith("crossbeam_channel::Sender::<T>::send"):
        wp = _wrapper_payload(t, "send")
        return wp is not None and (payload is None or wp == payload)
    if payload is None:
        return True
    return fn["gargs"] and fn["gargs"][0] == payload


def is_recv(t, payload=None):
    fn = t.get("fn")
    if not fn:
        return False
    if not fn["def"].startswith("crossbeam_channel::Receiver::<T>::recv"):
        wp = _wrapper_payload(t, "recv")
        return wp is not None and (payload is None or wp == payload)
    if payload is None:
        return True
    return fn["gargs"] and fn["gargs"][0] == payload


def sends_none(body, t):
    if not is_send(t, "std::option::Option<usize>"):
        return False
    for o in body.origins(t["args"][1]):
        if o[0] == "agg" and o[3].get("adt") == "std::option::Option" and o[3].get("variant") == "None":
            return True
        if o[0] == "const" and "None" in o[1].get("s", ""):
            return True
    return False


def is_spawn(t):
    fn = t.get("fn")
    return bool(fn) and fn["def"] == "std::thread::spawn"


def is_join(t):
    fn = t.get("fn")
    return bool(fn) and fn["def"].startswith("std::thread::JoinHandle::<T>::join")


class Roles:
    def __init__(self, facts):
        self.facts = facts
        _FACTS[0] = facts
        self.stop_senders = []
        self.refill_senders = []
        self.pop_fns = []
        self.workers = []
        self.spawn_wrappers = []
        for b in facts.body_list:
            for bi, t in b.calls():
                if sends_none(b, t) and b not in self.stop_senders:
                    self.stop_senders.append(b)
        if not self.stop_senders:
            raise FactError("role stop-sender (sends Option::None on Sender<Option<usize>>) not found")
        self.proto_types = set(b.raw.get("impl_self") for b in self.stop_senders if b.raw.get("impl_self"))
        for b in facts.body_list:
            if b.kind == "Closure":
                continue
            if b.raw.get("impl_self") in self.proto_types:
                for bi, t in b.calls():
                    if is_send(t, "usize") and b not in self.refill_senders:
                        self.refill_senders.append(b)
                    if is_recv(t, "std::option::Option<usize>") and b not in self.pop_fns:
                        self.pop_fns.append(b)
        pop_ids = set(b.id for b in self.pop_fns)
        # closures passed to thread::spawn
        self.spawn_sites = []  # (body, bb, closure_body)
        for b in facts.body_list:
            for bi, t in b.calls():
                if is_spawn(t):
                    cb = closure_arg_body(facts, b, t["args"][0])
                    self.spawn_sites.append((b, bi, cb))
        for (b, bi, cb) in self.spawn_sites:
            if cb is None:
                continue
            if any((t.get("fn") or {}).get("def") in pop_ids for _x, t in cb.calls()):
                self.workers.append((b, bi, cb))
            else:
                self.spawn_wrappers.append((b, bi, cb))
        if not self.workers:
            raise FactError("role worker (closure passed to thread::spawn that pops the encode queue) not found")
        roots = set(cb.raw.get("root") for (_b, _bi, cb) in self.workers)
        if len(roots) != 1:
            raise FactError("worker closures have several roots: %s" % roots)
        self.entry = facts.body(roots.pop())
        # feeder: reads samples and has access to the protocol object
        self.feeders = []
        for b in facts.body_list:
            if not any((t.get("fn") or {}).get("def") == "source::Source::read_samples" for _x, t in b.calls()):
                continue
            ins = b.raw.get("inputs", [])
            if any(re.sub(r"^&(mut )?", "", i) in self.proto_types for i in ins):
                self.feeders.append(b)
        if not self.feeders:
            raise FactError("role feeder (calls Source::read_samples with access to the stop protocol object) not found")


def run(facts, tier, ctx):
    R = Roles(facts)
    entry = R.entry
    out = []
    stop_ids = set(b.id for b in R.stop_senders)
    refill_ids = set(b.id for b in R.refill_senders)
    pop_ids = set(b.id for b in R.pop_fns)

    def stop_pred(t):
        return (t.get("fn") or {}).get("def") in stop_ids

    def refill_pred(t):
        return (t.get("fn") or {}).get("def") in refill_ids

    # where do worker threads come into existence, seen from the entry body?
    def entry_start_blocks():
        starts = set()
        for (b, bi, cb) in R.workers:
            if b.id == entry.id:
                starts.add(bi)
            else:
                # b is a closure nested in entry: the entry block creating the outermost such closure
                top = b
                while top.raw.get("parent") and top.raw["parent"] != entry.id and top.raw["parent"] in facts.bodies:
                    top = facts.bodies[top.raw["parent"]]
                for ebi, si, s in entry.iter_stmts():
                    if s["k"] == "assign" and s["rv"]["k"] == "agg" and s["rv"].get("closure") == top.id:
                        starts.add(ebi)
        if not starts:
            raise FactError("cannot locate where %s creates its worker threads" % entry.id)
        return starts

    starts = entry_start_blocks()
    rets = entry.returns()

    # ---------------------------------------------------------------- R-STOP
    rs = RuleResult("MPT/R-STOP", "after the workers are spawned, every return path of the par entry point sends the "
                    "stop tokens (a callee counts iff all its exits do)")
    memo = {}
    stop_blocks = performs(facts, entry, stop_pred, depth=3, _memo=memo)
    for s in sorted(starts):
        ok, path = mpt_after(entry, s, stop_blocks, rets)
        sample = {"function": entry.id, "from": entry.loc(s, "term"), "stop_sites": [entry.loc(b, "term") for b in sorted(stop_blocks)]}
        if ok:
            rs.ok(dict(sample, verdict="ok"))
        else:
            why = []
            for f in R.feeders:
                fb = performs(facts, f, stop_pred, depth=2, _memo={})
                fok, fpath = mpt(f, fb, 0, f.returns())
                if not fok:
                    why.append("feeder %s (%s) has a return path that skips the stop-sender: %s"
                               % (f.id, f.loc(), path_str(f, fpath)))
            rs.fail(Finding("MPT/R-STOP", entry.id, "return-without-stop-tokens", 0, entry.loc(path[-1], "term"),
                            "path from worker spawn to a return without sending the stop tokens:\n%s\n%s"
                            % (path_str(entry, path), "\n".join(why))),
                    dict(sample, verdict="FAIL", path=path_str(entry, path)))
    rs.require_floor(1, "worker spawn sites in the par entry point")
    out.append(rs)

    # ---------------------------------------------------------------- R-JOIN
    rj = RuleResult("PAIR/R-JOIN", "after the workers are spawned, every return path of the par entry point joins the "
                    "worker handles")
    # a join counts only if it joins a *worker* handle: JoinHandle<R> with R the worker closure's return type,
    # and not a join performed inside the methods of a helper-thread owner (the hashing context's finaliser)
    worker_ret = set((cb.raw.get("output") or "()") for (_b, _bi, cb) in R.workers)
    helper_owner_types = set(wb.raw.get("impl_self") for (wb, _wbi, _wcb) in R.spawn_wrappers if wb.raw.get("impl_self"))
    helper_joins = set()
    for b in facts.body_list:
        if b.raw.get("impl_self") in helper_owner_types:
            for _bi, t in b.calls():
                if is_join(t):
                    helper_joins.add(id(t))

    def worker_join(t):
        if not is_join(t) or id(t) in helper_joins:
            return False
        g = (t.get("fn") or {}).get("gargs") or []
        return bool(g) and g[0] in worker_ret

    join_blocks = performs(facts, entry, worker_join, depth=2, _memo={})
    if not join_blocks:
        raise FactError("no join of a worker JoinHandle<%s> found in %s" % ("|".join(sorted(worker_ret)), entry.id))
    for s in sorted(starts):
        ok, path = mpt_after(entry, s, join_blocks, rets)
        sample = {"function": entry.id, "from": entry.loc(s, "term"),
                  "join_sites": [entry.loc(b, "term") for b in sorted(join_blocks)]}
        if ok:
            rj.ok(dict(sample, verdict="ok"))
        else:
            rj.fail(Finding("PAIR/R-JOIN", entry.id, "return-without-joining-workers", 0, entry.loc(path[-1], "term"),
                            "path from worker spawn to a return on which the worker JoinHandles are never joined "
                            "(threads outlive the call):\n%s" % path_str(entry, path)),
                    dict(sample, verdict="FAIL", path=path_str(entry, path)))
    rj.require_floor(1, "worker spawn sites in the par entry point")
    out.append(rj)

    # ----------------------------------------------------- hashing thread pairing
    rh = RuleResult("PAIR/R-JOIN-HASH", "every helper thread created through a spawning constructor is stopped and "
                    "joined on every return path of the function that created it (stop dominates join)")
    for (wb, wbi, wcb) in R.spawn_wrappers:
        if wb.kind == "Closure":
            continue
        wself = wb.raw.get("impl_self")
        # join wrappers: methods of the same type all of whose exits join
        joiners = [b for b in facts.body_list if b.raw.get("impl_self") == wself and b.kind != "Closure"
                   and always_performs(facts, b, is_join, 1, {})]
        stoppers = [b for b in facts.body_list if b.raw.get("impl_self") == wself and b.kind != "Closure"
                    and b.id != wb.id and any(is_send(t) for _x, t in b.calls())
                    and not b.raw.get("impl_trait")]
        jids = set(b.id for b in joiners)
        sids = set(b.id for b in stoppers)
        # stop methods: senders that are not reachable from the Fill impl (data path); keep those never called
        # from trait impls of the same type
        data_path = set()
        for b in facts.body_list:
            if b.raw.get("impl_self") == wself and b.raw.get("impl_trait"):
                for _x, t in b.calls():
                    d = (t.get("fn") or {}).get("def")
                    if d in sids:
                        data_path.add(d)
        sids -= data_path
        # every creator call site
        for user in facts.body_list:
            for bi, t in user.calls():
                if (t.get("fn") or {}).get("def") != wb.id:
                    continue
                urets = user.returns()
                jb = [b2 for b2, t2 in user.calls() if (t2.get("fn") or {}).get("def") in jids]
                sb = [b2 for b2, t2 in user.calls() if (t2.get("fn") or {}).get("def") in sids]
                sample = {"function": user.id, "created_at": user.loc(bi, "term"), "spawner": wb.id,
                          "joiners": sorted(jids), "stoppers": sorted(sids)}
                ok, path = mpt_after(user, bi, jb, urets)
                if not ok:
                    rh.fail(Finding("PAIR/R-JOIN-HASH", user.id, "helper-thread-not-joined:%s" % wb.id, 0,
                                    user.loc(path[-1], "term"),
                                    "the thread spawned inside %s is not joined on this return path (its owner is "
                                    "dropped; the thread then fails on its disconnected channel):\n%s"
                                    % (wb.id, path_str(user, path))),
                            dict(sample, verdict="FAIL", path=path_str(user, path)))
                else:
                    rh.ok(dict(sample, verdict="ok", clause="join on every return path"))
                ok2, path2 = mpt_after(user, bi, sb, urets)
                if not ok2:
                    rh.fail(Finding("PAIR/R-JOIN-HASH", user.id, "helper-thread-not-stopped:%s" % wb.id, 0,
                                    user.loc(path2[-1], "term"),
                                    "the thread spawned inside %s is never sent its stop message on this return "
                                    "path:\n%s" % (wb.id, path_str(user, path2))),
                            dict(sample, verdict="FAIL", path=path_str(user, path2)))
                else:
                    rh.ok(dict(sample, verdict="ok", clause="stop on every return path"))
                for j in jb:
                    if not any(user.dominates(s, j) for s in sb):
                        rh.fail(Finding("ORDER/R-STOP-HASH", user.id, "join-before-stop:%s" % wb.id, 0,
                                        user.loc(j, "term"),
                                        "the helper thread is joined at %s without a dominating stop message: the "
                                        "join can block forever" % user.loc(j, "term")))
                    else:
                        rh.ok(dict(sample, verdict="ok", clause="stop dominates join", join=user.loc(j, "term")))
    rh.require_floor(3, "helper-thread creation sites x clauses")
    out.append(rh)

    # ------------------------------------------------------- R-RETURN-BUFFER
    rb = RuleResult("PAIR/R-RETURN-BUFFER", "in the worker, after a buffer id was popped every path to the next pop "
                    "or to the exit sends the buffer back for refill")
    for (wb, wbi, wcb) in R.workers:
        refill_blocks = performs(facts, wcb, refill_pred, depth=2, _memo={})
        for pb, t in wcb.calls():
            if (t.get("fn") or {}).get("def") not in pop_ids:
                continue
            # the Some edge of the switch on the pop result
            some_targets = []
            for sb_ in sorted(wcb.live):
                st = wcb.term(sb_)
                if st["k"] != "switch":
                    continue
                for o in wcb.origins(st["d"]):
                    if o[0] == "rv" and o[3]["k"] == "discr":
                        base = wcb.place_origins(o[3]["pl"])
                        if any(x[0] == "call" and x[1] == pb for x in base):
                            for val, tb in st["vals"]:
                                if val == 1:
                                    some_targets.append(tb)
                            if not any(v == 1 for v, _tb in st["vals"]):
                                some_targets.append(st["else"])
            if not some_targets:
                raise FactError("cannot find the Some edge of the encode-queue pop in %s" % wcb.id)
            for stb in some_targets:
                exits = set(wcb.returns()) | {pb}
                p = wcb.find_path(stb, exits, removed=refill_blocks)
                sample = {"worker": wcb.id, "pop": wcb.loc(pb, "term"),
                          "refill_sites": [wcb.loc(b, "term") for b in sorted(refill_blocks)]}
                if p is None:
                    rb.ok(dict(sample, verdict="ok"))
                else:
                    rb.fail(Finding("PAIR/R-RETURN-BUFFER", wcb.id, "buffer-not-returned", 0, wcb.loc(p[-1], "term"),
                                    "a popped buffer id is not sent back to the refill queue on this path (the feeder "
                                    "eventually blocks forever):\n%s" % path_str(wcb, p)),
                            dict(sample, verdict="FAIL", path=path_str(wcb, p)))
    rb.require_floor(1, "encode-queue pops in worker closures")
    out.append(rb)

    # --------------------------------------------------------- R-WORKER-EXIT
    # The feeder sends exactly one stop token per worker and keeps feeding until then: a worker that leaves its loop
    # any other way (break / return on a failed frame) stops consuming blocks and its token, and the feeder
    # eventually blocks forever with all buffers queued.
    rw = RuleResult("PAIR/R-WORKER-EXIT", "a worker leaves its loop only on the stop-token (None) edge of the "
                    "encode-queue pop")
    for (wb, wbi, wcb) in R.workers:
        none_edges = set()
        for pb, t in wcb.calls():
            if (t.get("fn") or {}).get("def") not in pop_ids:
                continue
            for sb_ in sorted(wcb.live):
                st = wcb.term(sb_)
                if st["k"] != "switch":
                    continue
                for o in wcb.origins(st["d"]):
                    if o[0] == "rv" and o[3]["k"] == "discr":
                        base = wcb.place_origins(o[3]["pl"])
                        if any(x[0] == "call" and x[1] == pb for x in base):
                            tgt0 = [tb for val, tb in st["vals"] if val == 0]
                            none_edges.add((sb_, tgt0[0] if tgt0 else st["else"]))
        if not none_edges:
            raise FactError("cannot find the None edge of the encode-queue pop in %s" % wcb.id)
        # reachability of a return with the None edges removed
        seen = {0: None}
        dq = [0]
        bad = None
        while dq and bad is None:
            b0 = dq.pop(0)
            if wcb.term(b0)["k"] == "ret":
                bad = b0
                break
            for x in wcb.succ[b0]:
                if (b0, x) in none_edges or x in seen:
                    continue
                seen[x] = b0
                dq.append(x)
        sample = {"worker": wcb.id, "none_edges": ["bb%d->bb%d" % e for e in sorted(none_edges)]}
        if bad is None:
            rw.ok(dict(sample, verdict="ok"))
        else:
            path = []
            x = bad
            while x is not None:
                path.append(x)
                x = seen[x]
            path = path[::-1]
            rw.fail(Finding("PAIR/R-WORKER-EXIT", wcb.id, "worker-exits-without-stop-token", 0,
                            wcb.loc(path[-2] if len(path) > 1 else path[-1], "term"),
                            "the worker can return without having received its stop token (it stops consuming blocks "
                            "while the feeder still counts it as alive):\n%s" % path_str(wcb, path)),
                    dict(sample, verdict="FAIL", path=path_str(wcb, path)))
    rw.require_floor(1, "worker closures")
    out.append(rw)

    # --------------------------------------------------------------- ERRDISC
    PASS = [r"Arc::<T", r"Mutex::<T>::new", r"Mutex::<T>::lock", r"Result::<T, E>::expect", r"Result::<T, E>::unwrap",
            r"::deref$", r"::deref_mut$", r"Deref::deref", r"DerefMut::deref_mut", r"Clone::clone"]

    def identity_guard_exemption(body, bi, t):
        """`callee(.., x)` whose resolved body errs only when x != self.F, called with x = accessor(self) that
        returns self.F of the same object, F never reassigned: the error cannot happen (dataflow identity)."""
        fn = t.get("fn")
        if not fn:
            return None
        cid = fn.get("res") or fn["def"]
        if fn.get("res_kind") in ("unresolved", "virtual") or cid not in facts.bodies:
            return None
        C = facts.bodies[cid]
        from .lib_range import decode_cond
        # every Result-typed call inside C must itself be infallible (no foreign errors flow out)
        from .lib_errdisc import never_errs as _ne
        from .tyutil import result_parts as _rp
        for cb_, ct in C.calls():
            if _rp(ct.get("dty")) is not None and _ne(facts, ct) is None:
                return None
        err_blocks = set()
        for b2, s2, st in C.iter_stmts():
            if st["k"] == "assign" and st["rv"]["k"] == "agg" and st["rv"].get("adt") == "std::result::Result" \
                    and st["rv"].get("variant") == "Err":
                err_blocks.add(b2)
        if not err_blocks:
            return None
        guards = []
        for sb in sorted(C.live):
            st = C.term(sb)
            if st["k"] != "switch":
                continue
            c = decode_cond(C, st["d"])
            if not c or c["kind"] != "cmp2" or c["op"] not in ("Eq", "Ne"):
                continue
            pk = fld = None
            for (ors, nm) in ((c["a_origins"], c["a"]), (c["b_origins"], c["b"])):
                if len(ors) == 1 and ors[0][0] == "param" and ors[0][1] >= 2 and ors[0][2] == "":
                    pk = ors[0][1]
                if len(ors) == 1 and ors[0][0] == "param" and ors[0][1] == 1 and re.search(r"\.[A-Za-z_]\w*$", ors[0][2]):
                    fld = nm
            if pk is None or fld is None:
                continue
            # mismatch edge
            mis_val = 0 if c["op"] == "Eq" else 1
            mt = None
            for val, tb in st["vals"]:
                if val == mis_val:
                    mt = tb
            if mt is None:
                mt = st["else"]
            if len(C.pred[mt]) == 1:
                guards.append((pk, fld, mt))
        if not guards:
            return None
        reach = C.reachable(0, removed=set(g[2] for g in guards))
        if any(e in reach for e in err_blocks):
            return None
        (pk, fld, _mt) = guards[0]
        # call-site operand for parameter pk and the receiver
        arg = t["args"][pk - 1]
        recv = t["args"][0]
        # resolve through the enclosing closure's captures to the function that created it
        def lift(b, op):
            ors = b.origins(op, through_calls=PASS)
            outp = []
            for o in ors:
                if o[0] == "param" and o[1] == 1 and b.kind == "Closure":
                    m = re.match(r"^\*?\.(\d+)", o[2])
                    parent = facts.bodies.get(b.raw.get("parent"))
                    if m and parent is not None:
                        for pb_, ps_, pst in parent.iter_stmts():
                            if pst["k"] == "assign" and pst["rv"]["k"] == "agg" and pst["rv"].get("closure") == b.id:
                                outp += [(parent, x) for x in parent.origins(pst["rv"]["ops"][int(m.group(1))],
                                                                               through_calls=PASS)]
                        continue
                outp.append((b, o))
            return outp
        a_l = lift(body, arg)
        r_l = lift(body, recv)
        if len(a_l) != 1 or not r_l:
            return None
        (ab, ao) = a_l[0]
        if ao[0] != "call":
            return None
        acc = ao[2]
        aid = (acc.get("fn") or {}).get("def")
        if aid not in facts.bodies:
            return None
        A = facts.bodies[aid]
        # accessor returns self.<fld>
        ret_ok = False
        for o in A.place_origins({"l": 0, "p": []}):
            if o[0] == "param" and o[1] == 1 and o[2].endswith("." + fld):
                ret_ok = True
        if not ret_ok:
            return None
        # accessor receiver and fill receiver are the same object of the creating function
        acc_recv = idset(ab.origins(acc["args"][0], through_calls=PASS))
        fill_recv = set()
        for (rb, ro) in r_l:
            if rb.id != ab.id:
                return None
            fill_recv |= idset([ro])
        if not acc_recv or acc_recv != fill_recv:
            return None
        # the field is never reassigned
        adt = (C.raw.get("impl_self") or "")
        for b3 in facts.body_list:
            for bb3, si3, st3 in b3.iter_stmts():
                if st3["k"] == "assign" and st3["dst"]["p"] and st3["dst"]["p"][-1] == "." + fld:
                    base_ty = b3.local_ty(st3["dst"]["l"])
                    if adt and adt in base_ty:
                        return None
        return ("resolved callee %s errs only when its argument differs from self.%s; the argument is %s(self) of "
                "the same object and the field is never reassigned" % (C.id, fld, aid))

    def idset(ors):
        return set((o[0], o[1], o[2].replace("*", "")) if o[0] in ("param", "local") else (o[0], o[1]) for o in ors)

    mods = set(b.module.split("::")[0] for b in [entry] + R.feeders)
    ed = run_errdisc(facts, "ERRDISC/par", "no Result<_, SourceError|EncodeError> in the par module is unwrapped, "
                     "expected, swallowed or handed to a diverging closure",
                     lambda e, b: e.strip() in ("error::SourceError", "error::EncodeError"),
                     body_filter=lambda b: b.module.split("::")[0] in mods or b.id.startswith("<" + entry.module),
                     finding_prefix="ERRDISC/par", exempt_infallible_callee=True, exempt=identity_guard_exemption)
    ed.require_floor(6, "SourceError/EncodeError producing call sites in the par module")
    out.append(ed)
    # ------------------------------------------------------------ WORKERS/non-zero
    # zero workers means zero frame buffers and a feeder that waits for one forever: every source of the worker count is
    # non-zero by type (NonZeroUsize::get) or filtered to be > 0.
    wz = RuleResult("WORKERS/non-zero", "the worker count cannot be zero: every integer source is NonZero-typed or filtered > 0")
    dw = None
    for b in facts.body_list:
        if b.module == "par" and b.kind == "Fn" and any(
                (tt.get("fn") or {}).get("def", "").endswith("available_parallelism") for _bi, tt in b.calls()):
            dw = b
    if dw is None:
        raise FactError("worker-count function (caller of available_parallelism) not found")
    bodies = [dw] + facts.closures_of(dw, recursive=True)
    parses = []
    filters = []
    for b in bodies:
        for bi, tt in b.calls():
            fn = tt.get("fn") or {}
            if fn.get("name") == "parse" and "str" in (fn.get("full") or ""):
                g = fn.get("gargs") or []
                parses.append((b, bi, g[0] if g else "?"))
            if fn.get("name") == "filter" and "Option" in (fn.get("full") or ""):
                cb = closure_arg_body(facts, b, tt["args"][1]) if len(tt["args"]) > 1 else None
                okf = False
                if cb is not None:
                    for _b2, _s2, st in cb.iter_stmts():
                        if st["k"] == "assign" and st["rv"]["k"] == "bin" and st["rv"]["op"] in ("Gt", "Ne", "Ge"):
                            c = st["rv"]["b"]
                            if c.get("k") == "const" and ((st["rv"]["op"] in ("Gt", "Ne") and c.get("v") == 0)
                                                          or (st["rv"]["op"] == "Ge" and c.get("v") == 1)):
                                okf = True
                filters.append(okf)
    # the same guard spelled as `if n > 0 { .. }` on the parsed value
    for b in bodies:
        for _b2, _s2, st in b.iter_stmts():
            if st["k"] == "assign" and st["rv"]["k"] == "bin" and st["rv"]["op"] in ("Gt", "Ne", "Ge"):
                c = st["rv"]["b"]
                if c.get("k") == "const" and ((st["rv"]["op"] in ("Gt", "Ne") and c.get("v") == 0)
                                              or (st["rv"]["op"] == "Ge" and c.get("v") == 1)):
                    for o in b.origins(st["rv"]["a"]):
                        if o[0] == "call" and (o[2].get("fn") or {}).get("name") == "parse":
                            # the comparison must decide a branch
                            dl = st["dst"]["l"]
                            if any(us == "term" and b.term(ub)["k"] == "switch" for (ub, us) in b.uses_of_local(dl)):
                                filters.append(True)
    for (b, bi, ty) in parses:
        where = b.loc(bi, "term")
        if "NonZero" in ty:
            wz.ok({"source": "parse::<%s>" % ty, "site": where, "verdict": "non-zero by type"})
        elif any(filters):
            wz.ok({"source": "parse::<%s>" % ty, "site": where, "verdict": "filtered > 0"})
        else:
            wz.fail(Finding("WORKERS/non-zero", dw.id, "zero-worker-override", 0, where,
                            "the worker count parsed from the environment as %s (%s) reaches the result without a `> 0` filter: "
                            "an override of 0 creates no workers and no frame buffers, and the feeder waits for a buffer "
                            "forever" % (ty, where)))
    gets = sum(1 for b in bodies for _bi, tt in b.calls() if (tt.get("fn") or {}).get("name") == "get"
               and "NonZero" in ((tt.get("fn") or {}).get("full") or ""))
    consts = [b for b in bodies for _bi, tt in b.calls() if (tt.get("fn") or {}).get("name") == "get"]
    if gets >= 1 or any("NonZero" in str(a) for b in bodies for _bi, tt in b.calls() for a in tt["args"]):
        wz.ok({"source": "available_parallelism / config.workers", "verdict": "NonZeroUsize::get"})
    else:
        wz.fail(Finding("WORKERS/non-zero", dw.id, "no-nonzero-source", 0, dw.loc(), "no NonZeroUsize::get source found"))
    wz.require_floor(2, "worker-count sources")
    out.append(wz)
    # ------------------------------------------------------------ QUEUE/consumers
    # every protocol channel has exactly one receiving function (worker pop, feeder refill wait, hashing loop).  A second
    # receiver - e.g. a helper that drains the encode queue when reading failed - takes blocks away from the workers: a
    # queued block with an out-of-range sample is then never encoded and its error never reported, so which error the
    # caller sees depends on the interleaving.
    qc = RuleResult("QUEUE/consumers", "each protocol channel is received from by exactly one function")
    recvs = {}
    for b in facts.body_list:
        if not (b.id.startswith("par::") or b.id.startswith("<par::")):
            continue
        for bi, tt in b.calls():
            fn = tt.get("fn") or {}
            d = fn.get("def") or ""
            if d.startswith("crossbeam_channel::Receiver::<T>::") and fn.get("name") in (
                    "recv", "try_recv", "recv_timeout", "recv_deadline", "iter", "try_iter", "into_iter"):
                payload = (fn.get("gargs") or ["?"])[0]
                if re.match(r"^[A-Z]\w*$", payload):
                    continue            # inside a generic wrapper: judged at the wrapper's call sites
                recvs.setdefault(payload, []).append((b.id, fn.get("name"), b.loc(bi, "term")))
            else:
                wp = _wrapper_payload(tt, "recv")
                if wp is not None:
                    recvs.setdefault(wp, []).append((b.id, "recv (via %s)" % fn.get("name"), b.loc(bi, "term")))
    pop_ids_q = set(x.id for x in R.pop_fns)
    for payload, sites in sorted(recvs.items()):
        bodies = sorted(set(x[0] for x in sites))
        sample = {"payload": payload, "receivers": bodies}
        if len(bodies) == 1:
            qc.ok(dict(sample, verdict="ok"))
        else:
            extra = [x for x in sites if x[0] not in pop_ids_q] if payload == "std::option::Option<usize>" else sites[1:]
            qc.fail(Finding("QUEUE/consumers", (extra or sites)[0][0], "second-consumer:%s" % payload, 0, (extra or sites)[0][2],
                            "the channel carrying %s is received from in %s: messages taken by %s never reach the function "
                            "the protocol assigns them to (a queued block is dropped unencoded, a stop token or refill "
                            "request is lost)" % (payload, bodies, (extra or sites)[0][0])), dict(sample, verdict="FAIL"))
    qc.require_floor(3, "protocol channels")
    out.append(qc)
    # ------------------------------------------------------------ QUEUE/drain
    # a bounded channel that threads `send` to (blocking) must be drained by a blocking receiver that runs while the
    # senders run.  A queue that is only polled (try_iter / try_recv) - typically "after all workers are joined" - lets
    # the senders block for ever once more messages are produced than the capacity: buffers are recycled, so the number
    # of messages per call is not bounded by the pool size.
    qd = RuleResult("QUEUE/drain", "every bounded channel with a blocking sender has a blocking receiver (recv / iter), "
                    "not only a poll")
    sends = {}
    created = {}
    for b in facts.body_list:
        if not (b.id.startswith("par::") or b.id.startswith("<par::")):
            continue
        for bi, tt in b.calls():
            fn = tt.get("fn") or {}
            d = fn.get("def") or ""
            if d.startswith("crossbeam_channel::Sender::<T>::") and fn.get("name") in ("send", "try_send", "send_timeout",
                                                                                      "send_deadline"):
                payload = (fn.get("gargs") or ["?"])[0]
                if re.match(r"^[A-Z]\w*$", payload):
                    continue
                sends.setdefault(payload, []).append((b.id, fn.get("name"), b.loc(bi, "term")))
            elif d.startswith("crossbeam_channel::bounded") or d.startswith("crossbeam_channel::unbounded") or \
                    d.startswith("crossbeam_channel::channel::bounded") or d.startswith("crossbeam_channel::channel::unbounded"):
                payload = (fn.get("gargs") or ["?"])[0]
                created.setdefault(payload, []).append((b.id, fn.get("name"), b.loc(bi, "term")))
            else:
                wp = _wrapper_payload(tt, "send")
                if wp is not None:
                    sends.setdefault(wp, []).append((b.id, "send", b.loc(bi, "term")))
    BLOCKING_RECV = ("recv", "iter", "into_iter")
    for payload in sorted(set(sends) | set(created)):
        ss = sends.get(payload, [])
        rr = recvs.get(payload, [])
        cc = created.get(payload, [])
        sample = {"payload": payload, "created": [c[1] + " " + c[2] for c in cc],
                  "senders": sorted(set(x[0] + ":" + x[1] for x in ss)),
                  "receivers": sorted(set(x[0] + ":" + x[1] for x in rr))}
        bounded = [c for c in cc if c[1] == "bounded"]
        if not cc:
            qd.fail(Finding("QUEUE/drain", "par", "creation-not-found:%s" % payload, 0, "", "channel carrying %s: creation "
                            "site not found in par (undecided)" % payload), dict(sample, verdict="FAIL"))
            continue
        blocking_send = [x for x in ss if x[1] == "send"]
        if not bounded or not blocking_send:
            qd.ok(dict(sample, verdict="ok (unbounded or no blocking sender)"))
            continue
        if any(x[1].split(" ")[0] in BLOCKING_RECV for x in rr):
            qd.ok(dict(sample, verdict="ok"))
        else:
            qd.fail(Finding("QUEUE/drain", blocking_send[0][0], "polled-only:%s" % payload, 0, blocking_send[0][2],
                            "the bounded channel carrying %s (created at %s) is sent to with a blocking `send` (%s) but is "
                            "only polled (%s), never received from with a blocking recv while the senders run: once more "
                            "messages are produced than its capacity the sender blocks for ever and the threads are never "
                            "joined" % (payload, bounded[0][2], blocking_send[0][2],
                                        ", ".join(sorted(set(x[1] + " " + x[2] for x in rr))) or "no receiver")),
                    dict(sample, verdict="FAIL"))
    qd.require_floor(3, "protocol channels")
    out.append(qd)
    # ... and that non-zero count is what sizes the pool and the stop tokens (no arithmetic on the way; shared with C05)
    from . import c05
    out += [r for r in c05.shared_state(facts) if r.rule == "STATE-ENUM/shared"]
    # the feeder hands every buffer id it took on (to a worker) before it takes the next one: a `continue` that skips the
    # hand-over leaks a buffer from the pool, and after pool-size leaks the feeder waits for a refill for ever (C05's rule)
    out += [r for r in c05.run(facts, tier, ctx) if r.rule == "SIBLING/block-loop"]
    return out
