"""C12 — a failing user sink yields an error, not a panic."""
import re

from .core import RuleResult, Finding
from .lib_errdisc import run_errdisc
from .tyutil import TYPARAM, result_parts
from .core import op_local

PROPERTY = "C12"
TECHNIQUE = "ERRDISC: type-directed error-discipline analysis over MIR call sites (def-use forward slice)"
EXPLANATION = (
    "Decides the structural clause of C12: at every call site (in every body of the crate, closures and trait "
    "default methods included) whose result type is Result<_, <S as BitSink>::Error> or Result<_, OutputError<S>> "
    "for a *type parameter* S (i.e. the caller's sink), the value is propagated to the function's return "
    "(directly, via `?`, or via pass-through combinators that are themselves obligations) and is never the receiver "
    "of unwrap/expect/ok/is_err/unwrap_or*/map_or*, never dead, and no closure receiving such an error diverges on "
    "all paths. Results over concrete in-memory sinks (E = Infallible) are exempt by type. This is a necessary "
    "condition of 'the write call returns that error - it does not panic' for every fault position k, because "
    "every k lands on one of these call sites. PREFIX: the first consumer of each such Result is `?`, the return place "
    "or map_err leading there, never Result::and/or/and_then..., so no sink operation is issued after a failed one "
    "(the structural half of the prefix clause; that the scratch sinks are empty when a write starts is C10's RESET).")
NOT_DECIDED = ("that the bits forwarded before the failure are the right ones (C08/C02 decide the layouts); behaviour of user "
               "sinks; implicit panics (indexing/arithmetic) on the write path")
ASSUMPTIONS = ["external sink failure is recognisable by type: the error type mentions a type parameter bounded by "
               "BitSink (checked: the two in-memory sinks have Error = Infallible)"]

EXT_PATTERNS = [
    re.compile(r"^<%s as bitsink::BitSink>::Error$" % TYPARAM),
    re.compile(r"^error::OutputError<%s>$" % TYPARAM),
]


def is_external(err_ty, body):
    e = err_ty.strip()
    for p in EXT_PATTERNS:
        if p.match(e):
            return True
    # generic error of the loop-unrolling combinators (instantiated with S::Error by the residual writer)
    if body.module.startswith("repeat") and re.match(r"^%s$" % TYPARAM, e):
        return True
    return False


# combinators that cannot run a further sink operation after an Err: map_err / map only transform the value; and_then /
# or_else(closure) are lazy - the closure runs only on the matching variant, and for and_then that is Ok
SHORT_OK = {"map_err", "map", "and_then", "inspect", "inspect_err"}


def rule_prefix(facts):
    """PREFIX: a sink error ends the write at once.  The first consumer of every Result<_, sink error> is `?`
    (Try::branch), the function's return place, or map_err leading to one of those; never a combinator that lets the
    function go on issuing sink operations (Result::and / or / and_then / ...)."""
    rr = RuleResult("PREFIX/short-circuit", "after a sink operation failed no further sink operation is issued: the "
                    "error is returned through `?` / the tail expression at once")
    for body in facts.body_list:
        ords = {}
        for bi, t in body.calls():
            rp = result_parts(t.get("dty"))
            if rp is None or not is_external(rp[1], body):
                continue
            fn = t.get("fn")
            callee = fn["def"] if fn else "<closure call>"
            if fn and fn["def"].startswith("std::result::Result::<T, E>::") and fn["name"] in SHORT_OK:
                continue            # judged at the producer
            if fn and fn["def"] in ("std::ops::FromResidual::from_residual",):
                continue
            where = body.loc(bi, "term")
            ords[callee] = ords.get(callee, 0) + 1
            if t["dst"]["p"]:
                continue
            # first consumers through copies/moves and map_err
            work = [t["dst"]["l"]]
            seen = set()
            bad = []
            good = 0
            while work:
                l = work.pop()
                if l in seen:
                    continue
                seen.add(l)
                if l == 0:
                    good += 1
                    continue
                for (ub, us) in body.uses_of_local(l):
                    if (ub, us) == (bi, "term"):
                        continue
                    if us == "term":
                        ut = body.blocks[ub]["term"]
                        if ut["k"] == "call":
                            uf = ut.get("fn") or {}
                            if uf.get("def") == "std::ops::Try::branch":
                                good += 1
                            elif uf.get("def", "").startswith("std::result::Result::<T, E>::") and uf.get("name") in SHORT_OK:
                                if not ut["dst"]["p"]:
                                    work.append(ut["dst"]["l"])
                            elif uf.get("def", "").startswith("std::result::Result::<T, E>::"):
                                bad.append((uf.get("name"), body.loc(ub, "term")))
                            else:
                                good += 1          # handed to another function: that function's own obligation
                        elif ut["k"] in ("ret", "switch"):
                            good += 1
                        continue
                    s2 = body.blocks[ub]["stmts"][us]
                    if s2["k"] == "assign" and s2["rv"]["k"] in ("use", "cast", "agg", "ref"):
                        work.append(s2["dst"]["l"])
                    elif s2["k"] == "assign" and s2["rv"]["k"] == "discr":
                        good += 1                  # manual match: ERRDISC checks that the Err arm returns
            sample = {"function": body.id, "site": where, "callee": callee}
            if bad:
                rr.fail(Finding("PREFIX/short-circuit", body.id, "%s->%s" % (callee, "+".join(sorted(set(b[0] for b in bad)))),
                                0, where,
                                "the Result<_, %s> of %s at %s is combined with Result::%s (%s) instead of being returned at "
                                "once: the function keeps issuing sink operations after one of them failed, so the bits the "
                                "sink accepted are no longer a prefix of the correct bitstream"
                                % (rp[1], callee, where, bad[0][0], bad[0][1])), dict(sample, verdict="FAIL"))
            else:
                rr.ok(dict(sample, verdict="ok"))
    rr.require_floor(70, "sink-error producing call sites")
    return rr


def rule_overwritten(facts):
    """ERRDISC/overwritten: a Result<_, sink error> stored in a local (or moved into one) is consumed - branched on,
    passed on, returned - on every path before that local is assigned again or dropped.  `ret = f(); ...; ret = g(); ret`
    loses the first error: the write goes on and may even report success."""
    rr = RuleResult("ERRDISC/overwritten", "no sink-error Result is overwritten or dropped before it has been looked at")
    for body in facts.body_list:
        for bi, t in body.calls():
            rp = result_parts(t.get("dty"))
            if rp is None or not is_external(rp[1], body):
                continue
            if t["dst"]["p"]:
                continue
            fn = t.get("fn")
            callee = fn["def"] if fn else "<closure call>"
            where = body.loc(bi, "term")
            nxt = [x for x in body.succ[bi] if not body.is_cleanup(x)]
            lost = None
            # (local holding the value, block, first statement index to look at)
            work = [(t["dst"]["l"], b2, 0) for b2 in nxt]
            seen = set()
            while work and lost is None:
                l, b2, s0 = work.pop()
                if (l, b2, s0) in seen:
                    continue
                seen.add((l, b2, s0))
                if l == 0:
                    continue                    # the return place: consumed by the caller
                blk = body.blocks[b2]
                done = False
                for si in range(s0, len(blk["stmts"])):
                    st = blk["stmts"][si]
                    if st["k"] == "assign":
                        rv = st["rv"]
                        reads = False
                        for key in ("op", "a", "b"):
                            o = rv.get(key)
                            if isinstance(o, dict) and o.get("pl") and o["pl"]["l"] == l:
                                reads = True
                        if rv.get("pl") and rv["pl"]["l"] == l:
                            reads = True
                        for o in rv.get("ops", []):
                            if o.get("pl") and o["pl"]["l"] == l:
                                reads = True
                        if reads:
                            if rv["k"] == "use" and rv["op"].get("pl") and not rv["op"]["pl"]["p"] and not st["dst"]["p"] \
                                    and rv["op"].get("k") == "move":
                                work.append((st["dst"]["l"], b2, si + 1))      # moved as a whole: follow the new holder
                            done = True
                            break
                        if st["dst"]["l"] == l and not st["dst"]["p"]:
                            lost = ("assigned again", body.loc(b2, si))
                            done = True
                            break
                if done or lost:
                    continue
                tm = blk["term"]
                k = tm["k"]
                reads = False
                if k == "call":
                    reads = any(a.get("pl") and a["pl"]["l"] == l for a in tm["args"])
                    if not reads and tm["dst"]["l"] == l and not tm["dst"]["p"]:
                        lost = ("assigned again", body.loc(b2, "term"))
                        continue
                elif k == "switch":
                    reads = bool(tm["d"].get("pl") and tm["d"]["pl"]["l"] == l)
                elif k == "drop":
                    if tm["pl"]["l"] == l and not tm["pl"]["p"]:
                        lost = ("dropped", body.loc(b2, "term"))
                        continue
                elif k == "ret":
                    continue                    # dead at return: ERRDISC's dead-value clause
                if reads:
                    continue
                for x in body.succ[b2]:
                    if not body.is_cleanup(x):
                        work.append((l, x, 0))
            sample = {"function": body.id, "site": where, "callee": callee}
            if lost:
                rr.fail(Finding("ERRDISC/overwritten", body.id, "%s->%s" % (callee, lost[0].replace(" ", "-")), 0, where,
                                "the Result<_, %s> of %s at %s can be %s at %s before anything looked at it: an error the sink "
                                "reported is lost, the function goes on writing and may return Ok"
                                % (rp[1], callee, where, lost[0], lost[1])), dict(sample, verdict="FAIL"))
            else:
                rr.ok(dict(sample, verdict="ok"))
    rr.require_floor(70, "sink-error producing call sites")
    return rr


def run(facts, tier, ctx):
    rr = run_errdisc(facts, "ERRDISC/sink", "no Result<_, S::Error | OutputError<S>> of a caller-supplied sink is "
                     "unwrapped, swallowed, discarded or turned into a panic", is_external)
    # counted on the reviewed tree (F0..F3 identical): 96 obligations; floor well below, well above zero
    rr.require_floor(70, "sink-error producing call sites in sink-generic bodies")
    # premise: the crate's own sinks are Infallible (otherwise the type-based exemption would be unsound)
    inf = RuleResult("ERRDISC/premise", "every BitSink impl in the crate has Error = Infallible (so a concrete sink "
                     "type in an error type means 'in-memory scratch sink', never the caller's)")
    for imp in facts.impls_of_trait("bitsink::BitSink"):
        et = imp.get("assoc_tys", {}).get("Error")
        where = "%s:%d" % (imp["file"], imp["line"])
        if et == "std::convert::Infallible":
            inf.ok({"impl": imp["self"], "Error": et, "verdict": "ok", "site": where})
        else:
            inf.fail(Finding("ERRDISC/premise", "impl BitSink for " + imp["self"], "error-not-infallible", 0, where,
                             "crate-local sink %s has Error = %s; a fallible concrete sink must be added to the "
                             "external set" % (imp["self"], et)))
    inf.require_floor(2, "BitSink impls in the crate")
    # prefix clause: the bytes a frame forwards from its scratch sinks are this frame's bits only - the scratch is cleared
    # before use, so a write that failed earlier on the thread leaves nothing behind (C10 RESET, C08 effect)
    from . import c10, c08
    # ... and no storage is re-entered while borrowed: a second `borrow_mut` on the error path of a sink write turns the
    # sink's error into a BorrowMutError panic (C10 LOCKORDER)
    extra = [r for r in c10.run(facts, tier, ctx) if r.rule in ("RESET", "LOCKORDER")]
    extra += [r for r in c08.rule_effect(facts)]
    return [rr, inf, rule_prefix(facts), rule_overwritten(facts)] + extra
