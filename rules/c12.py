"""C12 — a failing user sink yields an error, not a panic."""
import re

from .core import RuleResult, Finding
from .lib_errdisc import run_errdisc
from .tyutil import TYPARAM

PROPERTY = "C12"
TECHNIQUE = "ERRDISC: type-directed error-discipline analysis over MIR call sites (def-use forward slice)"
EXPLANATION = (
    "Decides the structural clause of C12: at every call site (in every body of the crate, closures and trait "
    "default methods included) whose result type is Result<_, <S as BitSink>::Error> or Result<_, OutputError<S>> "
    "for a *type parameter* S (i.e. the caller's sink), the value is propagated to the function's return "
    "(directly, via `?`, or via pass-through combinators that are themselves obligations) and is never the receiver "
    "of unwrap/expect/ok/is_err/unwrap_or*/map_or*, never dead, and no closure receiving such an error diverges on "
    "all paths. Results over concrete in-memory sinks (E = Infallible) are exempt by type. This is a necessary "
    "condition of 'the write call returns that error - it does not panic' for every fault position k, because "
    "every k lands on one of these call sites. The prefix clause (bits accepted before the failure are a prefix) is "
    "NOT decided.")
NOT_DECIDED = "prefix clause; behaviour of user sinks; implicit panics (indexing/arithmetic) on the write path"
ASSUMPTIONS = ["external sink failure is recognisable by type: the error type mentions a type parameter bounded by "
               "BitSink (checked: the two in-memory sinks have Error = Infallible)"]

EXT_PATTERNS = [
    re.compile(r"^<%s as bitsink::BitSink>::Error$" % TYPARAM),
    re.compile(r"^error::OutputError<%s>$" % TYPARAM),
]


def is_external(err_ty, body):
    e = err_ty.strip()
    for p in EXT_PATTERNS:
        if p.match(e):
            return True
    # generic error of the loop-unrolling combinators (instantiated with S::Error by the residual writer)
    if body.module.startswith("repeat") and re.match(r"^%s$" % TYPARAM, e):
        return True
    return False


def run(facts, tier, ctx):
    rr = run_errdisc(facts, "ERRDISC/sink", "no Result<_, S::Error | OutputError<S>> of a caller-supplied sink is "
                     "unwrapped, swallowed, discarded or turned into a panic", is_external)
    # counted on the reviewed tree (F0..F3 identical): 96 obligations; floor well below, well above zero
    rr.require_floor(70, "sink-error producing call sites in sink-generic bodies")
    # premise: the crate's own sinks are Infallible (otherwise the type-based exemption would be unsound)
    inf = RuleResult("ERRDISC/premise", "every BitSink impl in the crate has Error = Infallible (so a concrete sink "
                     "type in an error type means 'in-memory scratch sink', never the caller's)")
    for imp in facts.impls_of_trait("bitsink::BitSink"):
        et = imp.get("assoc_tys", {}).get("Error")
        where = "%s:%d" % (imp["file"], imp["line"])
        if et == "std::convert::Infallible":
            inf.ok({"impl": imp["self"], "Error": et, "verdict": "ok", "site": where})
        else:
            inf.fail(Finding("ERRDISC/premise", "impl BitSink for " + imp["self"], "error-not-infallible", 0, where,
                             "crate-local sink %s has Error = %s; a fallible concrete sink must be added to the "
                             "external set" % (imp["self"], et)))
    inf.require_floor(2, "BitSink impls in the crate")
    return [rr, inf]
