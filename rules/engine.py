"""Fact export (E1 invocation), caching, known findings, evidence writing."""
import fcntl
import hashlib
import json
import os
import shutil
import subprocess
import sys
import time

VERIF = os.path.dirname(os.path.dirname(os.path.abspath(__file__)))
REPO = os.environ.get("VERIF_REPO", "/repo")
CACHE = os.environ.get("VERIF_CACHE", os.path.join(VERIF, ".cache"))
DRIVER_DIR = os.path.join(VERIF, "engine", "flacfacts")
DRIVER = os.path.join(DRIVER_DIR, "target", "release", "flacfacts")

CONFIGS = {
    "F0": ["--no-default-features"],
    "F1": [],
    "F2": ["--features", "decode"],
    "F3": ["--features", "decode,experimental"],
}

# minimum number of bodies the exporter must see per configuration (counted on the reviewed tree:
# F0 783, F1 1187, F2 1386, F3 1477; floors leave room for deletions, not for a blind exporter)
BODY_FLOOR = {"F0": 600, "F1": 900, "F2": 1100, "F3": 1150}


def sysroot():
    return subprocess.check_output(["rustc", "+nightly", "--print", "sysroot"], text=True).strip()


def offline_env():
    env = dict(os.environ)
    env["CARGO_NET_OFFLINE"] = "true"
    env.pop("RUSTC_WRAPPER", None)
    return env


def ensure_driver():
    src_m = 0
    for root, _d, files in os.walk(os.path.join(DRIVER_DIR, "src")):
        for f in files:
            src_m = max(src_m, os.path.getmtime(os.path.join(root, f)))
    if os.path.exists(DRIVER) and os.path.getmtime(DRIVER) >= src_m:
        return
    os.makedirs(CACHE, exist_ok=True)
    with open(os.path.join(CACHE, "driver.lock"), "w") as lk:
        fcntl.flock(lk, fcntl.LOCK_EX)
        if os.path.exists(DRIVER) and os.path.getmtime(DRIVER) >= src_m:
            return
        r = subprocess.run(["cargo", "build", "--release", "--offline"], cwd=DRIVER_DIR,
                           env=offline_env(), stdout=subprocess.PIPE, stderr=subprocess.STDOUT, text=True)
        if r.returncode != 0:
            sys.stdout.write(r.stdout)
            raise SystemExit("flacfacts driver failed to build")


def tree_hash(repo=None):
    """Content hash of everything cargo compiles for the library."""
    repo = repo or REPO
    h = hashlib.sha256()
    paths = []
    for root, dirs, files in os.walk(os.path.join(repo, "src")):
        dirs.sort()
        for f in sorted(files):
            paths.append(os.path.join(root, f))
    for f in ("Cargo.toml", "Cargo.lock", "build.rs"):
        p = os.path.join(repo, f)
        if os.path.exists(p):
            paths.append(p)
    for p in paths:
        h.update(os.path.relpath(p, repo).encode())
        h.update(b"\0")
        with open(p, "rb") as fh:
            h.update(fh.read())
        h.update(b"\0")
    with open(DRIVER, "rb") as fh:
        h.update(hashlib.sha256(fh.read()).digest())
    h.update(os.path.abspath(repo).encode())
    return h.hexdigest()[:24]


def export_facts(tag, repo=None, log=None):
    """Runs the driver over the current tree for one feature configuration; returns fact path.

    Facts are cached by the content hash of the tree (+driver); a cache hit is exactly the
    facts of the current working tree.  Otherwise the flacenc fingerprints are deleted so
    cargo cannot skip the wrapper, and the nonce is verified in the output."""
    repo = repo or REPO
    ensure_driver()
    os.makedirs(CACHE, exist_ok=True)
    th = tree_hash(repo)
    out = os.path.join(CACHE, "facts-%s-%s.json" % (tag, th))
    if os.path.exists(out):
        return out
    rkey = hashlib.sha256(os.path.abspath(repo).encode()).hexdigest()[:8]
    tdir = os.path.join(CACHE, "target-%s-%s" % (tag, rkey))
    with open(os.path.join(CACHE, "export-%s-%s.lock" % (tag, rkey)), "w") as lk:
        fcntl.flock(lk, fcntl.LOCK_EX)
        if os.path.exists(out):
            return out
        # forget flacenc's fingerprints so that the wrapper really runs
        for prof in ("debug",):
            fp = os.path.join(tdir, prof, ".fingerprint")
            if os.path.isdir(fp):
                for d in os.listdir(fp):
                    if d.startswith("flacenc-"):
                        shutil.rmtree(os.path.join(fp, d), ignore_errors=True)
            dp = os.path.join(tdir, prof, "deps")
            if os.path.isdir(dp):
                for d in os.listdir(dp):
                    if d.startswith("libflacenc-") or d.startswith("flacenc-"):
                        try:
                            os.remove(os.path.join(dp, d))
                        except OSError:
                            pass
        nonce = "%s-%d-%d" % (th, os.getpid(), int(time.time() * 1000))
        env = offline_env()
        env["LD_LIBRARY_PATH"] = os.path.join(sysroot(), "lib") + ":" + env.get("LD_LIBRARY_PATH", "")
        env["RUSTFLAGS"] = "-Zmir-opt-level=0 -Awarnings"
        env["RUSTC_WORKSPACE_WRAPPER"] = DRIVER
        env["CARGO_TARGET_DIR"] = tdir
        env["FLACFACTS_OUT"] = out + ".new"
        env["FLACFACTS_NONCE"] = nonce
        env["FLACFACTS_TAG"] = tag
        env["FLACFACTS_CRATE"] = "flacenc"
        cmd = ["cargo", "+nightly", "check", "--offline", "--lib"] + CONFIGS[tag]
        r = subprocess.run(cmd, cwd=repo, env=env, stdout=subprocess.PIPE, stderr=subprocess.STDOUT, text=True)
        if r.returncode != 0:
            tail = "\n".join(r.stdout.splitlines()[-40:])
            raise BuildError("cargo check failed for %s (%s):\n%s" % (tag, " ".join(cmd), tail))
        if not os.path.exists(out + ".new"):
            raise BuildError("driver produced no fact file for %s (wrapper skipped?)" % tag)
        with open(out + ".new") as fh:
            head = fh.read(400)
        if nonce not in head:
            raise BuildError("stale fact file for %s: nonce mismatch" % tag)
        # keep the metadata of exactly this tree next to the facts (used by the compile-fail witnesses)
        dp = os.path.join(tdir, "debug", "deps")
        rm = [os.path.join(dp, f) for f in os.listdir(dp) if f.startswith("libflacenc-") and f.endswith(".rmeta")]
        if not rm:
            raise BuildError("no flacenc rmeta produced for %s" % tag)
        rm.sort(key=os.path.getmtime)
        os.makedirs(out[:-5] + ".meta", exist_ok=True)
        shutil.copyfile(rm[-1], os.path.join(out[:-5] + ".meta", "libflacenc.rmeta"))
        os.rename(out + ".new", out)
        # prune old fact files of this tag (keep the 12 most recent)
        olds = sorted([f for f in os.listdir(CACHE) if f.startswith("facts-%s-" % tag) and f.endswith(".json")],
                      key=lambda f: os.path.getmtime(os.path.join(CACHE, f)))
        for f in olds[:-12]:
            try:
                os.remove(os.path.join(CACHE, f))
            except OSError:
                pass
            shutil.rmtree(os.path.join(CACHE, f[:-5] + ".meta"), ignore_errors=True)
    return out


class BuildError(Exception):
    pass


def rmeta_path(tag, repo=None):
    """(rmeta of the current tree for `tag`, dependency dir)."""
    repo = repo or REPO
    facts = export_facts(tag, repo)
    rkey = hashlib.sha256(os.path.abspath(repo).encode()).hexdigest()[:8]
    dp = os.path.join(CACHE, "target-%s-%s" % (tag, rkey), "debug", "deps")
    rm = os.path.join(facts[:-5] + ".meta", "libflacenc.rmeta")
    if not os.path.exists(rm):
        raise BuildError("no flacenc rmeta next to %s" % facts)
    return rm, dp


# ----------------------------------------------------------------------------- known findings

KNOWN_FILE = os.path.join(VERIF, "known_findings.txt")


def load_known():
    """Lines:  known: property=<id> key=<key> :: <what fails>
               fixed: property=<id> <commit> <what failed>        (suppresses nothing)"""
    known = {}
    fixed = []
    if not os.path.exists(KNOWN_FILE):
        return known, fixed
    with open(KNOWN_FILE) as fh:
        for line in fh:
            line = line.rstrip("\n")
            if not line.strip() or line.lstrip().startswith("#"):
                continue
            if line.startswith("known:"):
                rest = line[len("known:"):].strip()
                head, _, what = rest.partition(" :: ")
                prop, _, key = head.partition(" key=")
                prop = prop.replace("property=", "").strip()
                known[(prop, key.strip())] = what.strip()
            elif line.startswith("fixed:"):
                fixed.append(line)
    return known, fixed
