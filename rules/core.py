"""Core fact model for the flacenc static rules: bodies, CFG, dominators, def-use.

Pure stdlib. All path rules work on the non-cleanup sub-graph with branches on
compile-time constants pruned (``cfg!`` folds to ``switchInt(const ..)``).
"""
import json
import re
from collections import defaultdict, deque


class FactError(Exception):
    """Raised when facts are missing/stale or an anchor cannot be found (fail closed)."""


def place_str(pl):
    return "_%d%s" % (pl["l"], "".join(pl["p"]))


def op_place(op):
    """Place of a copy/move operand, else None."""
    if op and op.get("k") in ("copy", "move"):
        return op["pl"]
    return None


def op_local(op):
    """Local of a projection-free copy/move operand, else None."""
    pl = op_place(op)
    if pl is not None and not pl["p"]:
        return pl["l"]
    return None


def op_const(op):
    if op and op.get("k") == "const":
        return op
    return None


def const_val(op):
    c = op_const(op)
    if c is None:
        return None
    if "sv" in c:
        return c["sv"]
    return c.get("v")


class Body:
    def __init__(self, raw, facts):
        self.raw = raw
        self.facts = facts
        self.id = raw["id"]
        self.kind = raw["kind"]
        self.file = raw["file"]
        self.lo = raw["lo"]
        self.hi = raw["hi"]
        self.blocks = raw["blocks"]
        self.locals = raw["locals"]
        self.argc = raw["argc"]
        self.names = raw.get("names", {})
        self.mac = raw.get("mac", [])
        self._succ = None
        self._pred = None
        self._dom = None
        self._pdom = None
        self._defs = None
        self._uses = None

    def __repr__(self):
        return "<Body %s>" % self.id

    # ------------------------------------------------------------------ misc
    @property
    def module(self):
        i = self.id
        if i.startswith("<"):
            m = re.match(r"<([A-Za-z_0-9:]+)", i)
            i = m.group(1) if m else i
        return i.rsplit("::", 1)[0] if "::" in i else ""

    def loc(self, bb=None, si=None):
        if bb is None:
            return "%s:%d-%d" % (self.file, self.lo, self.hi)
        b = self.blocks[bb]
        if si is None or si == "term":
            return "%s:%d" % (self.file, b["term"].get("line", 0))
        return "%s:%d" % (self.file, b["stmts"][si].get("line", 0))

    def local_ty(self, l):
        return self.locals[l]["ty"]

    def local_name(self, l):
        return self.names.get(str(l))

    def place_ty(self, pl):
        if pl["p"]:
            return pl.get("ty")
        return self.local_ty(pl["l"])

    def op_ty(self, op):
        if op.get("k") == "const":
            return op.get("ty")
        return self.place_ty(op["pl"])

    # ------------------------------------------------------------------- CFG
    def term(self, bb):
        return self.blocks[bb]["term"]

    def is_cleanup(self, bb):
        return bool(self.blocks[bb].get("cleanup"))

    def _const_switch_target(self, bb):
        """If the switch in bb has a compile-time-constant discriminant, the single target."""
        t = self.term(bb)
        d = t["d"]
        v = None
        if d.get("k") == "const":
            v = d.get("v")
        else:
            l = op_local(d)
            if l is not None:
                ds = self.defs.get(l, [])
                # a single definition `_l = const c` in the same block (cfg! shape)
                if len(ds) == 1 and ds[0][0] == bb and ds[0][1] != "term":
                    rv = self.blocks[bb]["stmts"][ds[0][1]]["rv"]
                    if rv["k"] == "use" and rv["op"].get("k") == "const" and "cdef" not in rv["op"]:
                        v = rv["op"].get("v")
        if v is None:
            return None
        for val, tgt in t["vals"]:
            if val == v:
                return tgt
        return t["else"]

    def raw_succ(self, bb, cleanup=False):
        t = self.term(bb)
        k = t["k"]
        out = []
        if k == "goto":
            out = [t["t"]]
        elif k == "switch":
            out = [x[1] for x in t["vals"]] + [t["else"]]
        elif k in ("call", "drop", "assert"):
            if "t" in t:
                out = [t["t"]]
        if cleanup and "u" in t:
            out = out + [t["u"]]
        return out

    @property
    def succ(self):
        """Successor lists over the non-cleanup graph with constant branches pruned."""
        if self._succ is None:
            s = []
            for bb in range(len(self.blocks)):
                if self.is_cleanup(bb):
                    s.append([])
                    continue
                t = self.term(bb)
                if t["k"] == "switch":
                    ct = self._const_switch_target(bb)
                    if ct is not None:
                        s.append([ct])
                        continue
                out = []
                for x in self.raw_succ(bb):
                    if x not in out:
                        out.append(x)
                s.append(out)
            self._succ = s
        return self._succ

    @property
    def pred(self):
        if self._pred is None:
            p = [[] for _ in self.blocks]
            for b, ss in enumerate(self.succ):
                for x in ss:
                    p[x].append(b)
            self._pred = p
        return self._pred

    def reachable(self, start=0, removed=()):
        removed = set(removed)
        seen = set()
        if start in removed:
            return seen
        dq = deque([start])
        seen.add(start)
        while dq:
            b = dq.popleft()
            for x in self.succ[b]:
                if x not in seen and x not in removed:
                    seen.add(x)
                    dq.append(x)
        return seen

    def reachable_after(self, bb, removed=()):
        """Blocks reachable from the successors of bb (bb itself only if on a cycle)."""
        removed = set(removed)
        seen = set()
        dq = deque()
        for x in self.succ[bb]:
            if x not in removed and x not in seen:
                seen.add(x)
                dq.append(x)
        while dq:
            b = dq.popleft()
            for x in self.succ[b]:
                if x not in seen and x not in removed:
                    seen.add(x)
                    dq.append(x)
        return seen

    def find_path(self, start, goal_set, removed=()):
        removed = set(removed)
        goal_set = set(goal_set)
        if start in removed:
            return None
        prev = {start: None}
        dq = deque([start])
        while dq:
            b = dq.popleft()
            if b in goal_set:
                path = []
                while b is not None:
                    path.append(b)
                    b = prev[b]
                return path[::-1]
            for x in self.succ[b]:
                if x not in prev and x not in removed:
                    prev[x] = b
                    dq.append(x)
        return None

    @property
    def live(self):
        return self.reachable(0)

    def returns(self):
        return [b for b in sorted(self.live) if self.term(b)["k"] == "ret"]

    def diverging_ends(self):
        """Live blocks that end the function without returning (panic calls, unreachable)."""
        out = []
        for b in sorted(self.live):
            t = self.term(b)
            if t["k"] == "unreachable" or (t["k"] in ("call",) and "t" not in t):
                out.append(b)
        return out

    # ------------------------------------------------------------ dominators
    def _compute_dom(self, succ, pred, root, nodes):
        # Cooper-Harvey-Kennedy iterative algorithm
        order = []
        seen = set()
        stack = [(root, iter(succ[root]))]
        seen.add(root)
        while stack:
            n, it = stack[-1]
            adv = False
            for x in it:
                if x in nodes and x not in seen:
                    seen.add(x)
                    stack.append((x, iter(succ[x])))
                    adv = True
                    break
            if not adv:
                order.append(n)
                stack.pop()
        rpo = order[::-1]
        idx = {n: i for i, n in enumerate(rpo)}
        idom = {root: root}
        changed = True
        while changed:
            changed = False
            for n in rpo[1:]:
                ps = [p for p in pred[n] if p in idom and p in idx]
                if not ps:
                    continue
                new = ps[0]
                for p in ps[1:]:
                    a, b = p, new
                    while a != b:
                        while idx[a] > idx[b]:
                            a = idom[a]
                        while idx[b] > idx[a]:
                            b = idom[b]
                    new = a
                if idom.get(n) != new:
                    idom[n] = new
                    changed = True
        return idom

    @property
    def idom(self):
        if self._dom is None:
            self._dom = self._compute_dom(self.succ, self.pred, 0, self.live)
        return self._dom

    def dominates(self, a, b):
        """Block a dominates block b (reflexive)."""
        idom = self.idom
        if b not in idom or a not in idom:
            return False
        while True:
            if a == b:
                return True
            nb = idom[b]
            if nb == b:
                return False
            b = nb

    def pos_dominates(self, pa, pb):
        """Position (bb, idx) pa dominates pb; idx is stmt index or 'term' (ordered last)."""
        (ba, ia), (bb_, ib) = pa, pb
        if ba == bb_:
            ka = 10 ** 9 if ia == "term" else ia
            kb = 10 ** 9 if ib == "term" else ib
            return ka <= kb
        return self.dominates(ba, bb_)

    # --------------------------------------------------------------- def-use
    @property
    def defs(self):
        """local -> list of (bb, stmt_idx|'term') that assign the *whole* local or a projection of it.
        Entries: (bb, idx, whole: bool)."""
        if self._defs is None:
            d = defaultdict(list)
            for bi, b in enumerate(self.blocks):
                for si, s in enumerate(b["stmts"]):
                    if s["k"] in ("assign", "setdiscr"):
                        d[s["dst"]["l"]].append((bi, si, not s["dst"]["p"]))
                t = b["term"]
                if t["k"] == "call":
                    d[t["dst"]["l"]].append((bi, "term", not t["dst"]["p"]))
            self._defs = d
        return self._defs

    def whole_defs(self, l, live_only=True):
        out = []
        for (bi, si, whole) in self.defs.get(l, []):
            if not whole:
                continue
            if live_only and bi not in self.live:
                continue
            if live_only and self.is_cleanup(bi):
                continue
            out.append((bi, si))
        return out

    def def_rvalue(self, pos):
        bi, si = pos
        if si == "term":
            return {"k": "call", "term": self.blocks[bi]["term"]}
        return self.blocks[bi]["stmts"][si].get("rv")

    def iter_stmts(self, live_only=True):
        for bi, b in enumerate(self.blocks):
            if live_only and bi not in self.live:
                continue
            for si, s in enumerate(b["stmts"]):
                yield bi, si, s

    def calls(self, live_only=True, cleanup=False):
        for bi, b in enumerate(self.blocks):
            if live_only and bi not in self.live and not (cleanup and self.is_cleanup(bi)):
                continue
            t = b["term"]
            if t["k"] == "call":
                yield bi, t

    def all_calls_including_dead(self):
        for bi, b in enumerate(self.blocks):
            if self.is_cleanup(bi):
                continue
            t = b["term"]
            if t["k"] == "call":
                yield bi, t

    # ---------------------------------------------------------- value origin
    def origins(self, op, depth=0, seen=None, through_calls=()):
        """Backward slice of an operand through copies, moves, refs, derefs, field
        projections and casts (and selected pass-through calls).  Returns a list of
        origin descriptors:
          ('const', constoperand)
          ('param', local, projstr)
          ('call', bb, term)
          ('agg', bb, si, rvalue)
          ('rv', bb, si, rvalue)          (any other rvalue: bin, un, discr ...)
          ('local', l, projstr)            (no definition found / multiple)
        """
        if seen is None:
            seen = set()
        out = []
        if op.get("k") == "const":
            return [("const", op)]
        pl = op_place(op)
        if pl is None:
            return [("unknown", op)]
        return self.place_origins(pl, seen, through_calls)

    def place_origins(self, pl, seen=None, through_calls=()):
        if seen is None:
            seen = set()
        l = pl["l"]
        proj = "".join(pl["p"])
        key = (l, proj)
        if key in seen:
            return []
        seen.add(key)
        if 1 <= l <= self.argc:
            # parameters may be reassigned, but that is rare; treat as param origin
            if not self.whole_defs(l):
                return [("param", l, proj)]
        ds = self.whole_defs(l)
        if not ds:
            return [("local", l, proj)]
        out = []
        for pos in ds:
            bi, si = pos
            if si == "term":
                t = self.blocks[bi]["term"]
                fn = t.get("fn")
                name = fn["def"] if fn else None
                passthru = False
                if fn:
                    for pat in through_calls:
                        if re.search(pat, fn["def"]):
                            passthru = True
                if passthru and t["args"]:
                    a0 = t["args"][0]
                    if a0.get("k") in ("copy", "move"):
                        npl = {"l": a0["pl"]["l"], "p": a0["pl"]["p"] + pl["p"]}
                        out += self.place_origins(npl, seen, through_calls)
                    else:
                        out += self.origins(a0, 0, seen, through_calls)
                else:
                    out.append(("call", bi, t, proj))
                continue
            rv = self.blocks[bi]["stmts"][si]["rv"]
            k = rv["k"]
            if k == "use":
                o = rv["op"]
                if o.get("k") == "const":
                    out.append(("const", o))
                else:
                    npl = {"l": o["pl"]["l"], "p": o["pl"]["p"] + pl["p"]}
                    out += self.place_origins(npl, seen, through_calls)
            elif k in ("ref", "copyderef", "rawptr"):
                npl = {"l": rv["pl"]["l"], "p": rv["pl"]["p"] + pl["p"]}
                out += self.place_origins(npl, seen, through_calls)
            elif k == "cast":
                o = rv["op"]
                sub = self.origins(o, 0, seen, through_calls)
                out.append(("cast", bi, si, rv, sub))
            elif k == "agg":
                out.append(("agg", bi, si, rv, proj))
            else:
                out.append(("rv", bi, si, rv, proj))
        return out

    def uses_of_local(self, l):
        """All positions reading local l (as operand or as place base), live non-cleanup only."""
        out = []

        def op_reads(op):
            pl = op_place(op)
            if pl is None:
                return False
            if pl["l"] == l:
                return True
            for pe in pl["p"]:
                if pe == "[_%d]" % l:
                    return True
            return False

        def pl_reads(pl):
            if pl["l"] == l:
                return True
            for pe in pl["p"]:
                if pe == "[_%d]" % l:
                    return True
            return False

        for bi in sorted(self.live):
            b = self.blocks[bi]
            for si, s in enumerate(b["stmts"]):
                if s["k"] != "assign":
                    continue
                rv = s["rv"]
                hit = False
                for key in ("op", "a", "b"):
                    if key in rv and isinstance(rv[key], dict) and op_reads(rv[key]):
                        hit = True
                if "pl" in rv and pl_reads(rv["pl"]):
                    hit = True
                for o in rv.get("ops", []):
                    if op_reads(o):
                        hit = True
                # a projection store reads the base too
                if s["dst"]["p"] and s["dst"]["l"] == l:
                    hit = True
                if hit:
                    out.append((bi, si))
            t = b["term"]
            k = t["k"]
            hit = False
            if k == "call":
                for a in t["args"]:
                    if op_reads(a):
                        hit = True
                if "fnptr" in t and op_reads(t["fnptr"]):
                    hit = True
            elif k == "switch":
                hit = op_reads(t["d"])
            elif k == "assert":
                hit = op_reads(t["cond"])
            elif k == "drop":
                pass  # drops are not reads
            elif k == "ret":
                hit = l == 0
            if hit:
                out.append((bi, "term"))
        return out


class Facts:
    def __init__(self, path):
        with open(path) as fh:
            raw = json.load(fh)
        self.raw = raw
        self.path = path
        self.tag = raw.get("tag", "")
        self.nonce = raw.get("nonce", "")
        self.bodies = {}
        self.body_list = []
        seen = defaultdict(int)
        for b in raw["bodies"]:
            i = b["id"]
            seen[i] += 1
            if seen[i] > 1:
                b["id"] = "%s#%d" % (i, seen[i])
            body = Body(b, self)
            self.bodies[b["id"]] = body
            self.body_list.append(body)
        self.adts = {a["path"]: a for a in raw["adts"]}
        self.traits = {t["path"]: t for t in raw["traits"]}
        self.impls = raw["impls"]
        self.statics = raw["statics"]
        self.consts = {}
        for c in raw["consts"]:
            self.consts.setdefault(c["path"], c)
        self.fns = {}
        for f in raw["fns"]:
            self.fns.setdefault(f["path"], f)
        self._callers = None

    # ----------------------------------------------------------------- lookup
    def body(self, ident):
        b = self.bodies.get(ident)
        if b is None:
            raise FactError("anchor body not found: %s (config %s)" % (ident, self.tag))
        return b

    def find_bodies(self, pattern):
        rx = re.compile(pattern)
        return [b for b in self.body_list if rx.search(b.id)]

    def closures_of(self, body, recursive=True):
        out = []
        pref = body.id + "::{closure#"
        for b in self.body_list:
            if b.id.startswith(pref):
                rest = b.id[len(body.id):]
                if recursive or rest.count("{closure#") == 1:
                    out.append(b)
        return out

    def impls_of_trait(self, trait_path):
        return [i for i in self.impls if i.get("trait") == trait_path]

    def impl_method(self, impl, name):
        for it in impl["items"]:
            if it.endswith("::" + name):
                return self.bodies.get(it)
        return None

    def const_value(self, path):
        c = self.consts.get(path)
        if c is None:
            return None
        return c.get("sv", c.get("v"))

    # ------------------------------------------------------------- call graph
    def callee_ids(self, t):
        """Candidate local body ids for a call terminator (resolved first)."""
        fn = t.get("fn")
        if not fn:
            return []
        out = []
        if "res" in fn and fn["res"] in self.bodies:
            out.append(fn["res"])
        elif fn["def"] in self.bodies:
            out.append(fn["def"])
        return out

    def callee_bodies(self, body, include_closures=True, trait_fanout=True):
        """Bodies a body may call: resolved callees, closures it creates, fn items it passes,
        and for unresolved local trait calls every impl of that method."""
        out = []
        seen = set()

        def add(i):
            if i in self.bodies and i not in seen:
                seen.add(i)
                out.append(self.bodies[i])

        for bi in sorted(body.live):
            b = body.blocks[bi]
            t = b["term"]
            if t["k"] == "call" and "fn" in t:
                fn = t["fn"]
                ids = self.callee_ids(t)
                for i in ids:
                    add(i)
                if trait_fanout and fn.get("res_kind") in ("unresolved", "virtual") and fn.get("trait") in self.traits:
                    for imp in self.impls_of_trait(fn["trait"]):
                        for it in imp["items"]:
                            if it.endswith("::" + fn["name"]):
                                add(it)
                # trait default method body
                if fn.get("res_kind") == "unresolved" and fn["def"] in self.bodies:
                    add(fn["def"])
            ops = []
            if t["k"] == "call":
                ops += t["args"]
            for s in b["stmts"]:
                if s["k"] != "assign":
                    continue
                rv = s["rv"]
                if rv["k"] == "agg" and rv.get("ak") == "closure" and include_closures:
                    add(rv["closure"])
                for key in ("op", "a", "b"):
                    if key in rv and isinstance(rv[key], dict):
                        ops.append(rv[key])
                ops += rv.get("ops", [])
            for o in ops:
                if o.get("k") == "const":
                    if "def" in o:
                        fnd = o.get("fn", {})
                        if fnd.get("res") in self.bodies:
                            add(fnd["res"])
                        else:
                            add(o["def"])
                    if "closure" in o and include_closures:
                        add(o["closure"])
        return out

    def closure_of_calls(self, roots, stop=lambda b: False, **kw):
        """Transitive closure over callee_bodies from root bodies."""
        seen = {}
        dq = deque()
        for r in roots:
            if r.id not in seen:
                seen[r.id] = r
                dq.append(r)
        while dq:
            b = dq.popleft()
            if stop(b):
                continue
            for c in self.callee_bodies(b, **kw):
                if c.id not in seen:
                    seen[c.id] = c
                    dq.append(c)
        return list(seen.values())


# --------------------------------------------------------------------------- findings


class Finding:
    def __init__(self, rule, func, detail, ordinal=0, where="", message="", extra=None):
        self.rule = rule
        self.func = func
        self.detail = detail
        self.ordinal = ordinal
        self.where = where
        self.message = message
        self.extra = extra or {}

    @property
    def key(self):
        return "%s|%s|%s|%d" % (self.rule, self.func, self.detail, self.ordinal)

    def to_json(self):
        d = {"key": self.key, "rule": self.rule, "function": self.func, "detail": self.detail,
             "ordinal": self.ordinal, "where": self.where, "message": self.message}
        d.update(self.extra)
        return d


class RuleResult:
    """Collected outcome of one rule over one configuration."""

    def __init__(self, rule, description):
        self.rule = rule
        self.description = description
        self.obligations = 0
        self.discharged = 0
        self.trivial = 0
        self.findings = []
        self.samples = []
        self.floor = None
        self.notes = []

    def ok(self, sample=None, trivial=False):
        self.obligations += 1
        self.discharged += 1
        if trivial:
            self.trivial += 1
        if sample is not None and len(self.samples) < 40:
            self.samples.append(sample)

    def fail(self, finding, sample=None):
        self.obligations += 1
        self.findings.append(finding)
        if len(self.samples) < 60:
            self.samples.append(sample or {"verdict": "FAIL", "key": finding.key, "where": finding.where,
                                           "message": finding.message})

    def require_floor(self, n, what):
        self.floor = (n, what)

    def floor_finding(self):
        if self.floor is None:
            return None
        n, what = self.floor
        if self.obligations < n:
            return Finding(self.rule, "<inventory>", "floor:" + what, 0, "",
                           "rule %s matched %d instance(s) of '%s' but at least %d were counted by hand on the "
                           "reviewed tree: anchors moved or the rule went blind (fail closed)"
                           % (self.rule, self.obligations, what, n))
        return None
