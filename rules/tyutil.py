"""Small helpers on rustc type strings (as printed with full paths)."""
import re


def split_top(s, sep=","):
    """Split on `sep` at bracket depth 0 (<>, (), [])."""
    out = []
    depth = 0
    cur = []
    i = 0
    while i < len(s):
        c = s[i]
        if c in "<([":
            depth += 1
        elif c in ">)]":
            # `->` in fn types
            if c == ">" and i > 0 and s[i - 1] == "-":
                cur.append(c)
                i += 1
                continue
            depth -= 1
        if c == sep and depth == 0:
            out.append("".join(cur).strip())
            cur = []
        else:
            cur.append(c)
        i += 1
    last = "".join(cur).strip()
    if last:
        out.append(last)
    return out


def generic_args(ty):
    """'a::B<X, Y<Z>>' -> ('a::B', ['X', 'Y<Z>']); no generics -> (ty, [])."""
    ty = ty.strip()
    i = ty.find("<")
    if i < 0 or not ty.endswith(">") or ty.startswith("<"):
        return ty, []
    return ty[:i].rstrip(":"), split_top(ty[i + 1:-1])


def result_parts(ty):
    """(ok, err) for std::result::Result<ok, err>, else None."""
    if ty is None:
        return None
    ty = ty.strip()
    if not ty.startswith("std::result::Result<"):
        return None
    _h, args = generic_args(ty)
    if len(args) != 2:
        return None
    return args[0], args[1]


def option_inner(ty):
    if ty and ty.startswith("std::option::Option<"):
        _h, args = generic_args(ty)
        if len(args) == 1:
            return args[0]
    return None


def strip_refs(ty):
    ty = ty.strip()
    while True:
        m = re.match(r"^&(?:'\w+\s+)?(?:mut\s+)?(.*)$", ty)
        if not m:
            return ty
        ty = m.group(1).strip()


TYPARAM = r"(?:[A-Z][A-Za-z0-9]*|Self)"
