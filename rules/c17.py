"""C17 — invalid arguments to the encoding API produce errors, not panics (structural clauses)."""
import re

from .core import Finding, RuleResult, FactError, const_val
from .lib_errdisc import run_errdisc, Tracker
from .lib_cast import is_narrowing, int_range, param_of, dominating_bounds, dominating_checks, idents, resolve_subject
from .lib_range import path_forces_err, decode_cond
from .tyutil import result_parts

from .lib_mpt import path_str
from .lib_expr import expr as lexpr, show as lshow

from . import lib_effect as E

PROPERTY = "C17"
TECHNIQUE = ("CASTCHECK + PARAMCHECK (length / byte-width arguments compared with the receiver's own) + dominance "
             "ORDER of verification before use in the entry points + ERRDISC on VerifyError in the encode entry points")
EXPLANATION = (
    "Decides structurally: (CASTCHECK) in every public fallible function of the encoding API surface (modules coding, "
    "source, par and the StreamInfo constructors/setters) no narrowing integer cast of a parameter happens before a "
    "`?`-propagated range check that makes it value-preserving ('values that only become in-range after truncation'); "
    "(PARAMCHECK) every Fill::fill_le_bytes impl on a type that owns a bytes-per-sample field compares the argument "
    "with its own value and errs on mismatch, and both FrameBuf fills compare the input length with the buffer's "
    "capacity before de-interleaving, with Err on the failing edge; (ORDER) in the frame entry point the frame-number "
    "range check (< 2^31) and the sample-range verification dominate the frame encoder call and are `?`-propagated; "
    "in both stream entry points Stream::new(..)? (format verification) dominates Context::new (which asserts the "
    "width); (ERRDISC) no Result<_, VerifyError> in the entry points is unwrapped, except an unwrap that is dominated "
    "by a `?`-checked FrameBuf::with_size on the same argument (sub-range, recorded premise). Wrap-around grids on "
    "values that only matter numerically are NOT decided.")
NOT_DECIDED = "hangs; numeric behaviour for in-range but extreme values; Source implementations supplied by the user"
ASSUMPTIONS = ["set_block_sizes(b, b) accepts every b in 0..=32767 (u16 conversion + upper bound + min<=max with equal "
               "arguments) - recorded premise of the single sub-range exemption"]

API_MODULES = ("coding", "source", "par")


def api_fns(facts):
    out = []
    for fn in facts.raw["fns"]:
        if not (fn["reachable"] and fn["has_body"]):
            continue
        rp = result_parts(fn["output"])
        if rp is None or rp[1] not in ("error::VerifyError", "error::EncodeError", "error::SourceError"):
            continue
        p = fn["path"]
        mod = p.split("::")[0] if not p.startswith("<") else re.sub(r"^<", "", p).split("::")[0]
        if mod in API_MODULES or "StreamInfo::" in p or "source::" in p:
            out.append(facts.body(p))
    return out


def len_of_param(body, origins, param):
    """Does a value derive from the length (PtrMetadata / len()) of slice parameter `param`, in the unit of whole
    samples?  A division (or shift / remainder) of the length by anything but another *argument* (the byte width of a
    byte fill) truncates, so a comparison of the quotient with a capacity lets an over-long input through: not accepted."""
    for o in origins:
        if o[0] == "rv" and o[3]["k"] == "un" and o[3]["op"] == "PtrMetadata":
            for x in body.origins(o[3]["a"]):
                if x[0] == "param" and x[1] == param:
                    return True
        if o[0] == "rv" and o[3]["k"] == "bin":
            op = o[3]["op"].replace("WithOverflow", "").replace("Unchecked", "")
            if op in ("Div", "Shr", "Rem"):
                divisor = body.origins(o[3]["b"])
                by_arg = bool(divisor) and all(d[0] == "param" and d[1] not in (1, param) or
                                               (d[0] == "cast" and all(x[0] == "param" and x[1] not in (1, param) for x in d[4]))
                                               for d in divisor)
                if not by_arg:
                    continue
                if len_of_param(body, body.origins(o[3]["a"]), param):
                    return True
                continue
            if len_of_param(body, body.origins(o[3]["a"]), param) or len_of_param(body, body.origins(o[3]["b"]), param):
                return True
        if o[0] == "call" and (o[2].get("fn") or {}).get("name") == "len":
            for x in body.origins(o[2]["args"][0]):
                if x[0] == "param" and x[1] == param:
                    return True
        if o[0] == "cast":
            if len_of_param(body, o[4], param):
                return True
    return False


def derives_from_self(body, origins):
    for o in origins:
        if o[0] == "param" and o[1] == 1:
            return True
        if o[0] == "call":
            for a in o[2]["args"]:
                if derives_from_self(body, body.origins(a)):
                    return True
        if o[0] == "rv" and o[3]["k"] == "bin":
            if derives_from_self(body, body.origins(o[3]["a"])) or derives_from_self(body, body.origins(o[3]["b"])):
                return True
        if o[0] == "cast" and derives_from_self(body, o[4]):
            return True
    return False


def guards_in(body):
    """Comparison switches of a body whose failing edge forces Err: [(cond, bb)]."""
    out = []
    for bi in sorted(body.live):
        t = body.term(bi)
        if t["k"] != "switch":
            continue
        c = decode_cond(body, t["d"])
        if not c or c["kind"] not in ("cmp", "cmp2"):
            continue
        for val, tb in t["vals"] + [[None, t["else"]]]:
            forced, _ = path_forces_err(body, tb)
            if forced:
                out.append((c, bi, val))
    return out


def run(facts, tier, ctx):
    out = []
    has_par = facts.tag != "F0"

    # ------------------------------------------------------------ CASTCHECK
    cc = RuleResult("CASTCHECK", "no narrowing cast of a public API argument before its range check")
    fns = api_fns(facts)
    for b in fns:
        ords = {}
        for bi, si, s in b.iter_stmts():
            if s["k"] != "assign" or s["rv"]["k"] != "cast" or s["rv"]["ck"] != "IntToInt":
                continue
            rv = s["rv"]
            if not is_narrowing(rv["from"], rv["to"]):
                continue
            p = param_of(b, rv["op"])
            if p is None:
                continue
            pname = b.local_name(p[0]) or "_%d" % p[0]
            k = "%s as %s" % (pname, rv["to"])
            ords[k] = ords.get(k, 0) + 1
            where = b.loc(bi, si)
            iv = dominating_bounds(facts, b, (bi, si), p)
            lo, hi = int_range(rv["to"])
            flo, fhi = int_range(rv["from"])
            sample = {"function": b.id, "site": where, "cast": k, "bounds_before_cast": iv}
            if iv.get("min", flo) >= lo and iv.get("max", fhi) <= hi:
                cc.ok(dict(sample, verdict="ok"))
            else:
                cc.fail(Finding("CASTCHECK", b.id, k, ords[k], where,
                                "argument `%s` (%s) is truncated to %s at %s before a range check bounds it to %d..=%d "
                                "(established so far: %s)" % (pname, rv["from"], rv["to"], where, lo, hi, iv or "none")),
                        dict(sample, verdict="FAIL"))
    cc.notes.append("public fallible API functions scanned: %d" % len(fns))
    cc.require_floor(1, "narrowing casts of API arguments")
    if len(fns) < 10:
        raise FactError("API surface inventory too small (%d functions)" % len(fns))
    out.append(cc)

    # ----------------------------------------------------------- PARAMCHECK
    pc = RuleResult("PARAMCHECK", "length / byte-width arguments of fills are compared with the receiver's own value "
                    "and rejected with an error")
    fill_impls = facts.impls_of_trait("source::Fill")
    if len(fill_impls) < (5 if has_par else 4):
        raise FactError("Fill impl inventory too small: %d" % len(fill_impls))
    for imp in fill_impls:
        adt = facts.adts.get(imp.get("self_adt", ""))
        b_le = facts.impl_method(imp, "fill_le_bytes")
        b_il = facts.impl_method(imp, "fill_interleaved")
        if adt is None:
            pc.ok({"impl": imp["self"], "verdict": "ok", "why": "forwarding impl (tuple / reference): decided by C03 "
                   "FORWARD"}, trivial=True)
            continue
        fields = [f["name"] for v in adt["variants"] for f in v["fields"]]
        # Both clauses are read off the effect interpreter's path facts: conditions that hold on the way to a point, with
        # `?`-checked private helpers inlined (a check moved into `fn check_x(&self, n) -> Result<..>` counts as before).
        def facts_of(body, log=None):
            ectx = E.Ctx(facts)
            ectx.open_loops = True
            ectx.collect_asserts = True
            ectx.log_calls = log
            itp = E.Interp(ectx, body)
            itp.run()
            return ectx

        def holds(assume, pred):
            for f_ in assume:
                if f_[0] != "cond":
                    continue
                c = E.strip_casts(f_[1])
                if isinstance(c, tuple) and c and c[0] == "bin" and pred(c[1], E.strip_casts(c[2]), E.strip_casts(c[3]), f_[2]):
                    return True
            return False
        NEG = {"Eq": "Ne", "Ne": "Eq", "Lt": "Ge", "Ge": "Lt", "Gt": "Le", "Le": "Gt"}
        SWAP = {"Eq": "Eq", "Ne": "Ne", "Lt": "Gt", "Gt": "Lt", "Le": "Ge", "Ge": "Le"}

        def norm(op, x, y, truth):
            """the relation that holds, as (op, x, y) with op in Eq/Ne/Lt/Le"""
            if not truth:
                op = NEG.get(op)
            if op in ("Gt", "Ge"):
                op, x, y = SWAP[op], y, x
            return op, x, y
        # (a) own byte width
        if "bytes_per_sample" in fields and b_le is not None:
            where = b_le.loc()
            sample = {"impl": imp["self"], "method": "fill_le_bytes", "site": where}
            try:
                ectx = facts_of(b_le)
                oks = [a for (bid, _bi, a) in ectx.ok_returns if bid == b_le.id]

                def width_eq(op, x, y, truth):
                    op, x, y = norm(op, x, y, truth)
                    cs = {E.canon(x), E.canon(y)}
                    return op == "Eq" and cs == {"arg3", "arg1.bytes_per_sample"}
                found = bool(oks) and all(holds(a, width_eq) for a in oks)
            except E.Undecided as e:
                found = False
                sample["undecided"] = str(e)[:120]
            if found:
                pc.ok(dict(sample, verdict="ok", clause="on every Ok path the argument equals self.bytes_per_sample"))
            else:
                pc.fail(Finding("PARAMCHECK", b_le.id, "bytes_per_sample-not-compared", 0, where,
                                "%s owns a bytes_per_sample field but fill_le_bytes can return Ok without its "
                                "bytes_per_sample argument having been compared with it (a byte fill with the wrong width is "
                                "silently reinterpreted)%s" % (imp["self"], ": " + sample["undecided"] if "undecided" in sample else "")),
                        dict(sample, verdict="FAIL"))
        # (b) capacity
        if imp.get("self_adt") == "source::FrameBuf":
            for b in (b_il, b_le):
                if b is None:
                    continue
                sites = [bi for bi, t in b.calls() if (t.get("fn") or {}).get("def", "").endswith("deinterleave")]
                if not sites:
                    raise FactError("%s does not call deinterleave" % b.id)
                try:
                    ectx = facts_of(b, log=r"deinterleave$")
                    logged = [c for c in ectx.calls if c[3] == b.id]
                except E.Undecided as e:
                    logged = []
                # the sample count of the input, in whole samples: its length, or length / the byte-width argument
                units = {"len(arg2)", "(len(arg2) Div arg3)"}

                def cap(op, x, y, truth):
                    op, x, y = norm(op, x, y, truth)
                    return op == "Le" and E.canon(x) in units and E.canon(y) == "len(arg1.samples)" \
                        or op == "Lt" and E.canon(x) in units and E.canon(y) == "(len(arg1.samples) Add 1)"
                for bi in sites:
                    where = b.loc(bi, "term")
                    mine = [c for c in logged if c[2] == where]
                    ok = bool(mine) and all(holds(c[4] or [], cap) for c in mine)
                    sample = {"impl": imp["self"], "method": b.raw["name"], "site": where}
                    if ok:
                        pc.ok(dict(sample, verdict="ok", clause="input length compared with the buffer's capacity "
                                                                "before de-interleaving"))
                    else:
                        pc.fail(Finding("PARAMCHECK", b.id, "length-not-compared-with-capacity", 0, where,
                                        "%s de-interleaves its input without the input's sample count having been "
                                        "compared with the buffer's own capacity on the way (the Fill trait documents an "
                                        "error for over-long input; filled_size can exceed size)" % b.id),
                                dict(sample, verdict="FAIL"))
    pc.require_floor(4 if has_par else 3, "fill parameter obligations")
    out.append(pc)

    # ---------------------------------------------------------------- ORDER
    od = RuleResult("ORDER", "verification dominates use in the entry points")
    # frame entry: the body that calls the frame encoder proper (returns Frame, takes &FrameBuf)
    frame_encoders = [f["path"] for f in facts.raw["fns"] if f["output"] == "component::datatype::Frame"
                      and any(i == "&source::FrameBuf" for i in f["inputs"]) and f["path"].startswith("coding::")]
    callers = []
    for b in facts.body_list:
        if b.id in frame_encoders or b.kind == "Closure":
            continue
        rp = result_parts(b.raw.get("output"))
        if rp is None or "component::datatype::Frame" != rp[0]:
            continue
        for bi, t in b.calls():
            if (t.get("fn") or {}).get("def") in frame_encoders:
                callers.append((b, bi))
    if not callers:
        raise FactError("frame entry point (fallible caller of the frame encoder) not found")
    for (b, bi) in callers:
        where = b.loc(bi, "term")
        checks = dominating_checks(facts, b, (bi, "term"))
        # frame number < 2^31
        fn_ok = False
        for c in checks:
            if c["kind"] == "cmp" and c["subject"] == "frame_number":
                iv = {"Lt": c["const"] - 1, "Le": c["const"]}.get(c["op"])
                if iv is not None and iv <= (1 << 31) - 1:
                    fn_ok = True
        # second opinion: the effect interpreter's path facts at the call (checks moved into a `?`-called helper)
        ipf = None
        if True:
            try:
                ectx = E.Ctx(facts)
                ectx.open_loops = True
                ectx.collect_asserts = True
                ectx.noinline = [re.escape(x) + "$" for x in frame_encoders] + [r"verify_samples$"]
                ectx.log_calls = "|".join(re.escape(x) + "$" for x in frame_encoders)
                E.Interp(ectx, b).run()
                ipf = [c for c in ectx.calls if c[2] == where and c[3] == b.id]
                fnp = None
                for i_, nm in enumerate(b.raw.get("inputs") or []):
                    if b.local_name(i_ + 1) == "frame_number":
                        fnp = ("p", i_ + 1, ())
                if ipf and fnp is not None and not fn_ok:
                    import rules.lib_implicit as I_
                    fn_ok = all((I_.Prover(facts, c[4] or [], {}).upper(fnp) or (1 << 63)) <= (1 << 31) - 1 for c in ipf)
            except Exception:
                ipf = None
        sample = {"function": b.id, "site": where}
        if fn_ok:
            od.ok(dict(sample, verdict="ok", clause="frame_number < 2^31 checked (`?`) before encoding"))
        else:
            od.fail(Finding("ORDER", b.id, "frame-number-unchecked", 0, where,
                            "the frame encoder is called without a dominating `?`-propagated check frame_number < 2^31"),
                    dict(sample, verdict="FAIL"))
        # verify_samples(..)? dominates
        vs_ok = False
        for tb, t in b.calls():
            if (t.get("fn") or {}).get("def") != "std::ops::Try::branch" or not b.dominates(tb, bi):
                continue
            for o in b.origins(t["args"][0]):
                if o[0] == "call" and (o[2].get("fn") or {}).get("name") == "verify_samples":
                    vs_ok = True
        if not vs_ok and ipf:
            vs_ok = all(any(f_[0] == "okcall" and re.search(r"verify_samples$", f_[1].split("::<")[0]) for f_ in (c[4] or []))
                        for c in ipf)
        if vs_ok:
            od.ok(dict(sample, verdict="ok", clause="FrameBuf::verify_samples(..)? dominates the frame encoder"))
        else:
            od.fail(Finding("ORDER", b.id, "samples-unverified", 0, where,
                            "the frame encoder is called without a dominating `?`-propagated verify_samples"),
                    dict(sample, verdict="FAIL"))
    # stream entries: Stream::new(..)? dominates Context::new
    nctx = 0
    for b in facts.body_list:
        cn = [bi for bi, t in b.calls() if (t.get("fn") or {}).get("def") == "source::Context::new"]
        if not cn or b.module.split("::")[0] not in ("coding", "par") or b.kind == "Closure":
            continue
        for bi in cn:
            nctx += 1
            ok = False
            for tb, t in b.calls():
                if (t.get("fn") or {}).get("def") != "std::ops::Try::branch" or not b.dominates(tb, bi):
                    continue
                for o in b.origins(t["args"][0]):
                    if o[0] == "call" and (o[2].get("fn") or {}).get("def") == "component::datatype::Stream::new":
                        ok = True
            where = b.loc(bi, "term")
            if ok:
                od.ok({"function": b.id, "site": where, "verdict": "ok",
                       "clause": "Stream::new(..)? (format verification) dominates Context::new (asserts width)"})
            else:
                od.fail(Finding("ORDER", b.id, "context-before-format-check", 0, where,
                                "Context::new (which asserts bits_per_sample <= 32) is reached without a dominating "
                                "`?`-propagated Stream::new format verification"))
    if nctx < (2 if has_par else 1):
        raise FactError("stream entry points calling Context::new: %d" % nctx)
    od.require_floor(3, "order obligations")
    out.append(od)

    # -------------------------------------------------------------- ERRDISC
    entry_ids = set()
    for b in facts.body_list:
        if b.module.split("::")[0] in ("coding", "par"):
            entry_ids.add(b.id)
    ed = run_errdisc(facts, "ERRDISC/api", "no Result<_, VerifyError> in the encoder modules is unwrapped, swallowed "
                     "or dropped (one recorded sub-range exemption)",
                     lambda e, b: e.strip() == "error::VerifyError", body_filter=lambda b: b.id in entry_ids,
                     finding_prefix="ERRDISC/api")
    # sub-range exemption: set_block_sizes(p, p).unwrap() dominated by FrameBuf::with_size(_, p)?
    kept = []
    for f in ed.findings:
        exempt = False
        if "set_block_sizes->panics-on-error:unwrap" in f.detail:
            b = facts.bodies[f.func]
            for bi, t in b.calls():
                if (t.get("fn") or {}).get("name") != "set_block_sizes":
                    continue
                a1, a2 = b.origins(t["args"][1]), b.origins(t["args"][2])
                if idents(a1) != idents(a2) or not all(o[0] == "param" for o in a1):
                    continue
                for tb, tt in b.calls():
                    if (tt.get("fn") or {}).get("def") != "std::ops::Try::branch" or not b.dominates(tb, bi):
                        continue
                    for o in b.origins(tt["args"][0]):
                        if o[0] == "call" and (o[2].get("fn") or {}).get("def") == "source::FrameBuf::with_size":
                            if idents(b.origins(o[2]["args"][1])) == idents(a1):
                                exempt = True
        if exempt:
            ed.obligations += 0
            ed.discharged += 1
            ed.samples.append({"function": f.func, "site": f.where, "verdict": "ok",
                               "why": "exempt: dominated by FrameBuf::with_size(_, same argument)? which enforces "
                                      "32..=32767, a sub-range of what set_block_sizes(b, b) accepts (0..=32767)"})
        else:
            kept.append(f)
    ed.findings = kept
    ed.require_floor(8, "VerifyError producing call sites in the encoder modules")
    out.append(ed)
    # ------------------------------------------------------------ ENTRY/non-empty block
    # the frame entry point must reject an empty frame buffer: everything below it (block-size code selection computes
    # size - 1) assumes at least one sample.
    eb = RuleResult("ENTRY/non-empty-block", "the frame entry point verifies that the frame buffer holds at least one sample")
    fe = facts.bodies.get("coding::encode_fixed_size_frame_impl")
    if fe is None:
        raise FactError("frame entry point implementation not found")
    ectx = E.Ctx(facts)
    ectx.open_loops = True
    ectx.log_calls = r"verify_macro_impl$"
    ectx.noinline = [r"^coding::encode_frame", r"verify_samples$"]
    try:
        E.Interp(ectx, fe).run()
        okb = False
        for c in ectx.calls:
            cnd = E.strip_casts(c[1][0])
            cs = E.canon(cnd)
            if isinstance(cnd, tuple) and cnd[0] == "bin" and "filled_size" in cs and "arg2" in cs:
                a, b_ = E.strip_casts(cnd[2]), E.strip_casts(cnd[3])
                if (cnd[1] == "Ge" and E.is_c(b_) and b_[1] >= 1) or (cnd[1] == "Gt" and E.is_c(b_) and b_[1] >= 0) \
                        or (cnd[1] == "Ne" and E.is_c(b_, 0)):
                    okb = True
        if okb:
            eb.ok({"function": fe.id, "clause": "filled_size >= 1 verified before encoding", "verdict": "ok"})
        else:
            eb.fail(Finding("ENTRY/non-empty-block", fe.id, "empty-block-not-rejected", 0, fe.loc(),
                            "encode_fixed_size_frame does not verify framebuf.filled_size() >= 1: an unfilled FrameBuf reaches "
                            "BlockSizeSpec::from_size(0), which computes 0 - 1"))
    except E.Undecided as e:
        eb.fail(Finding("ENTRY/non-empty-block", fe.id, "undecided", 0, fe.loc(), str(e)))
    eb.require_floor(1, "frame entry point")
    out.append(eb)
    out.append(rule_scan(facts))
    out.append(rule_scan_bounds(facts))
    # the block_size argument of the stream encoders is an API argument like any other: outside 16..=65535 it must give an
    # error, whichever helper happens to enforce it (C04's rule; the argument is not taken from the verified config)
    from . import c04
    out += [r for r in c04.run(facts, tier, ctx) if r.rule == "RANGE/block-size-argument"]
    return out


def rule_scan(facts):
    """SCAN/samples: `verify_samples(..)?` rejects an out-of-width sample only if the scan behind it is unconditional: in
    FrameBuf::verify_samples every path to an Ok return goes through the per-channel loop, and inside the loop the next
    iteration (or the exit) is reached only after a scan of that channel's samples has been compared with both bounds."""
    sc = RuleResult("SCAN/samples", "FrameBuf::verify_samples scans every channel on every Ok path")
    b = facts.bodies.get("source::FrameBuf::verify_samples")
    if b is None:
        sc.fail(Finding("SCAN/samples", "source::FrameBuf::verify_samples", "anchor-missing", 0, "", "verify_samples not found"))
        return sc
    # loop header: an Iterator::next call (or range step) that lies on a cycle
    heads = []
    for bi, t in b.calls():
        fn = t.get("fn") or {}
        if fn.get("name") == "next" and fn.get("trait") == "std::iter::Iterator" and bi in b.reachable_after(bi):
            heads.append(bi)
    # internal iteration: (0..channels).any(|ch| out_of_range(ch)) / .all(..) with the scan inside the closure
    inner = []
    if not heads:
        for bi, t in b.calls():
            fn = t.get("fn") or {}
            if fn.get("trait") == "std::iter::Iterator" and fn.get("name") in ("any", "all") and len(t["args"]) == 2:
                from .lib_errdisc import closure_arg_body as _cab
                cl = _cab(facts, b, t["args"][1])
                if cl is not None:
                    inner.append((bi, fn["name"], cl))
    if inner:
        for (bi, kind, cl) in inner:
            # the closure scans the channel on every path to its return
            scans_c = [ci for ci, ct in cl.calls() if ct.get("args") and
                       ("channel_slice" in lshow(lexpr(cl, ct["args"][0])) or ".samples" in lshow(lexpr(cl, ct["args"][0])))
                       and (ct.get("fn") or {}).get("name") not in ("channel_slice", "channels", "len", "deref", "index")]
            pth = cl.find_path(0, set(cl.returns()), removed=set(scans_c)) if scans_c else [0]
            if pth is None:
                sc.ok({"function": cl.id, "verdict": "every call of the predicate scans the channel"})
            else:
                sc.fail(Finding("SCAN/samples", cl.id, "iteration-without-scan", 0, cl.loc(),
                                "the per-channel predicate can return without scanning the channel's samples"))
            # Ok is returned only when the predicate was false for every channel (any) / true for every channel (all)
            want = 0 if kind == "any" else 1
            dl = b.term(bi)["dst"]["l"]
            sws = [ub for (ub, us) in b.uses_of_local(dl) if us == "term" and b.term(ub)["k"] == "switch"]
            oks = [ob for ob, si, s in b.iter_stmts() if s["k"] == "assign" and s["dst"]["l"] == 0 and not s["dst"]["p"]
                   and s["rv"]["k"] == "agg" and s["rv"].get("variant") == "Ok"]
            good = bool(sws) and bool(oks)
            for sw in sws:
                tm = b.term(sw)
                wrong = [tb for val, tb in tm["vals"] if val != want] + ([tm["else"]] if want in [v for v, _t in tm["vals"]] else [])
                right = [tb for val, tb in tm["vals"] if val == want] or [tm["else"]]
                for ob in oks:
                    if any(ob == w or ob in b.reachable(w) for w in wrong if w not in right):
                        good = False
            for ob in oks:
                if b.find_path(0, {ob}, removed={bi}) is not None:
                    good = False
            if good:
                sc.ok({"function": b.id, "verdict": "Ok only when %s(..) is %s" % (kind, bool(want)), "site": b.loc(bi, "term")})
            else:
                sc.fail(Finding("SCAN/samples", b.id, "ok-without-scan", 0, b.loc(bi, "term"),
                                "verify_samples can return Ok although the per-channel range predicate did not clear every channel"))
        sc.require_floor(2, "scan obligations")
        return sc
    if not heads:
        sc.fail(Finding("SCAN/samples", b.id, "no-channel-loop", 0, b.loc(), "no loop found in verify_samples"))
        return sc
    # Ok returns: blocks assigning Ok to the return place
    oks = [bi for bi, si, s in b.iter_stmts() if s["k"] == "assign" and s["dst"]["l"] == 0 and not s["dst"]["p"]
           and s["rv"]["k"] == "agg" and s["rv"].get("variant") == "Ok"]
    if not oks:
        oks = list(b.returns())
    for ob in oks:
        p = b.find_path(0, {ob}, removed=set(heads))
        if p is None:
            sc.ok({"function": b.id, "ok_return": b.loc(ob, "term"), "verdict": "passes the channel loop"})
        else:
            sc.fail(Finding("SCAN/samples", b.id, "ok-without-scan", 0, b.loc(ob, "term"),
                            "verify_samples can return Ok without entering the per-channel scan: %s. Samples outside the "
                            "declared width are then encoded (truncated) instead of being refused"
                            % path_str(b, p)))
    # inside the loop: from the loop body back to the header only through a scanner call on the channel's samples and two
    # comparisons
    scans = []
    for bi, t in b.calls():
        fn = t.get("fn") or {}
        args = t.get("args") or []
        if not args:
            continue
        txt = lshow(lexpr(b, args[0]))
        if "channel_slice" in txt or ".samples" in txt:
            if fn.get("name") not in ("channel_slice", "channels", "len", "deref", "index"):
                scans.append(bi)
    for h in heads:
        body_succ = [x for x in b.succ[h] if not b.is_cleanup(x)]
        p = None
        for x in body_succ:
            # skip the path that leaves the loop at once (iterator exhausted)
            q = b.find_path(x, {h}, removed=set(scans))
            if q is not None and len(q) > 1:
                p = q
        if scans and p is None:
            sc.ok({"function": b.id, "loop": b.loc(h, "term"), "scanners": [b.loc(x, "term") for x in scans],
                   "verdict": "every iteration scans the channel"})
        else:
            sc.fail(Finding("SCAN/samples", b.id, "iteration-without-scan", 0, b.loc(h, "term"),
                            "an iteration of the channel loop can finish without scanning the channel's samples%s"
                            % (": " + path_str(b, p) if p else " (no scan of channel_slice(..) found)")))
    sc.require_floor(2, "scan obligations")
    return sc


# ------------------------------------------------------------------------------------------------ SCAN/bounds
# The scan of SCAN/samples rejects exactly the samples outside the declared two's-complement width: the conditions under
# which verify_samples returns Ok (path facts of the effect interpreter, the crate's array scanners kept opaque and
# replaced by their meaning) are evaluated for every declared width on the boundary values of the channel's minimum and
# maximum; Ok must be reachable iff  -2^(b-1) <= min  and  max <= 2^(b-1) - 1.

def rule_scan_bounds(facts):
    from . import lib_effect as E
    rr = RuleResult("SCAN/bounds", "verify_samples accepts a channel iff its samples lie in -2^(b-1) ..= 2^(b-1)-1")
    b = facts.bodies.get("source::FrameBuf::verify_samples")
    if b is None:
        rr.fail(Finding("SCAN/bounds", "source::FrameBuf::verify_samples", "anchor-missing", 0, "", "verify_samples not found"))
        return rr
    ectx = E.Ctx(facts)
    ectx.collect_asserts = True
    ectx.noinline = [r"^arrayutils::"]
    try:
        E.Interp(ectx, b).run()
    except E.Undecided as e:
        rr.fail(Finding("SCAN/bounds", b.id, "undecided", 0, b.loc(), "cannot summarise %s: %s" % (b.id, e)))
        return rr
    oks = [r for r in ectx.ok_returns if r[0] == b.id]
    if not oks:
        rr.fail(Finding("SCAN/bounds", b.id, "undecided", 0, b.loc(), "no Ok return recorded for %s" % b.id))
        return rr

    class Unmodelled(Exception):
        pass

    def subst(e, dmin, dmax):
        """Replace the results of the crate's array scanners by their meaning for a channel with the given extremes."""
        if not isinstance(e, tuple) or not e:
            return e
        if e[0] == "proj" and isinstance(e[1], tuple) and e[1] and e[1][0] == "call" and e[1][1].startswith("arrayutils::"):
            name = e[1][1].split("::<")[0]
            if name == "arrayutils::find_min_and_max" and len(e[1][2]) == 2 and e[2] in ((".0",), (".1",)):
                init = E.evalv(e[1][2][1], {}, facts)
                if not isinstance(init, int):
                    raise Unmodelled("find_min_and_max with a non-constant initial value")
                return E.C(min(dmin, init) if e[2] == (".0",) else max(dmax, init))
            raise Unmodelled(name)
        if e[0] == "call" and isinstance(e[1], str) and e[1].startswith("arrayutils::"):
            name = e[1].split("::<")[0]
            if name == "arrayutils::find_max_abs" and len(e[2]) == 1:
                return E.C(max(abs(dmin), abs(dmax)))
            raise Unmodelled(name)
        return tuple(subst(x, dmin, dmax) if isinstance(x, tuple) else x for x in e)

    def mentions_scanner(e):
        return E.mentions(e, lambda x: isinstance(x, tuple) and x and x[0] == "call" and isinstance(x[1], str)
                          and x[1].startswith("arrayutils::"))

    rows = 0
    bad = None
    for okr in oks:
        conds = []
        for f in okr[2]:
            if f[0] in ("forall", "ifnonempty") and mentions_scanner(f[2]):
                conds.append((f[2], f[3]))
            elif f[0] == "cond" and mentions_scanner(f[1]):
                conds.append((f[1], f[2]))
        if not conds:
            bad = (None, "the Ok return at %s carries no condition on a scan result" % b.loc(okr[1], "term"))
            break
        for bits in (4, 8, 9, 12, 16, 20, 24):
            h = 1 << (bits - 1)
            vals = [-h - 1, -h, -h + 1, -1, 0, 1, h - 1, h, h + 1]
            for dmin in vals:
                for dmax in vals:
                    if dmin > dmax:
                        continue
                    rows += 1
                    try:
                        got = True
                        for ce, cv in conds:
                            v = E.evalv(subst(ce, dmin, dmax), {2: bits}, facts)
                            if not isinstance(v, int):
                                raise Unmodelled("condition %s is not evaluable" % E.show(ce)[:160])
                            if v != cv:
                                got = False
                    except Unmodelled as u:
                        bad = (None, "the accept condition is not decided: %s" % u)
                        break
                    want = dmin >= -h and dmax <= h - 1
                    if got != want:
                        bad = ((bits, dmin, dmax), "a channel with minimum %d and maximum %d is %s for %d-bit samples "
                               "(declared range %d ..= %d)" % (dmin, dmax, "accepted" if got else "rejected", bits, -h, h - 1))
                        break
                if bad:
                    break
            if bad:
                break
        if bad:
            break
    if bad is None:
        rr.ok({"function": b.id, "rows": rows, "verdict": "accept iff -2^(b-1) <= min and max <= 2^(b-1)-1 on every row"})
    else:
        rr.fail(Finding("SCAN/bounds", b.id, "sample-range" if bad[0] else "undecided", 0, b.loc(),
                        "FrameBuf::verify_samples: %s. Samples outside the declared width must be refused with an error, "
                        "samples inside it accepted" % bad[1]))
    rr.require_floor(1, "sample-range scans")
    return rr
