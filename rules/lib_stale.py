"""First-access analysis of reusable buffers (C10 STALE-READ).

For a reference to cross-call storage (a `reuse!` storage or a `&mut self` of a struct kept in one) the analysis
tracks, through a MIR body and the crate callees the reference is passed to,

  * `buf`  locals: references to the storage, to one of its fields, or to a slice view of a buffer in it
            (path string, e.g. `.corr_coefs`, `.1[view]`);
  * `elem` locals: pointers / iterators / `Option`s that designate *elements* of such a buffer and were obtained
            through a mutable accessor (`index_mut`, `iter_mut`, `&mut (*v)[i]`, adapters of those, `next()` payloads);

and records two kinds of events on buffer paths:

  r  an element value is read (index read, read through an element pointer, immutable accessor, the buffer passed
     to code that is not known to only write it);
  w  elements are written or the buffer is defined as a whole (`clear`, `fill`, `reset_from_*`, indexed store, store
     through an element pointer, whole-field assignment).

`resize` / `push` / `extend` are neither: `resize` keeps the retained prefix as an earlier call left it.

A read is *exposed* when some path from the entry of the body reaches it without passing a write of a compatible
path; a loop that contains a write of the path but not the read is assumed to run at least once when the buffer has
elements (its header counts as the write).  An exposed read at a `reuse!` closure means that the first thing this
call does with elements of a buffer that outlives the call is to read them: what an earlier call left there flows
into this one.  The rule does NOT decide that the writes cover every element that is read later (index ranges are
runtime values); it decides the order of first accesses only.
"""
import re

from .core import op_local, op_place

DEPTH = 6

# accessors on a buffer reference whose result is a view of the same buffer
VIEW = {"deref", "deref_mut", "as_mut", "as_ref", "as_slice", "as_mut_slice", "borrow", "borrow_mut", "as_mut_simd",
        "as_ref_simd", "split_at_mut", "split_at", "as_simd", "as_simd_mut", "as_chunks", "as_chunks_mut",
        "as_rchunks", "split_first_mut", "split_last_mut", "as_mut_ptr", "as_ptr", "as_flattened", "as_flattened_mut",
        "get_unchecked_mut", "channel_slice_mut", "as_mut_vec", "unwrap", "expect", "into_iter", "raw_slice_mut",
        "as_mut_array", "first_chunk_mut", "split_at_mut_checked", "split_at_mut_unchecked"}
# mutable element accessors: the result designates elements
ELEM_MUT = {"index_mut", "get_mut", "first_mut", "last_mut", "iter_mut", "chunks_mut", "chunks_exact_mut",
            "rchunks_mut", "split_mut", "get_unchecked_mut", "array_chunks_mut", "rchunks_exact_mut", "column_mut",
            "row_mut", "as_mut_slice", "each_mut", "get_many_mut"}
# adapters: element-designating in, element-designating out
ADAPT = {"zip", "enumerate", "rev", "skip", "take", "step_by", "by_ref", "next", "next_back", "into_iter", "peekable",
         "unwrap", "expect", "unwrap_unchecked", "chain", "skip_while", "take_while", "fuse", "as_mut", "deref_mut",
         "deref", "into_remainder", "into_slice", "nth", "last", "borrow_mut", "as_deref_mut", "map_while", "from",
         "into", "branch", "from_residual", "as_mut_slice", "iter_mut", "split_at_mut", "index_mut", "get_mut",
         "first_mut", "last_mut", "chunks_mut", "chunks_exact_mut", "as_simd_mut", "as_mut_simd"}
# calls on a buffer reference that neither read nor write element values
NEUTRAL = {"len", "is_empty", "capacity", "reserve", "reserve_exact", "shrink_to_fit", "shrink_to", "simd_len",
           "push", "push_back", "extend", "extend_from_slice", "extend_from_within", "append", "insert", "truncate",
           "resize", "resize_with", "resize_mut", "set_len", "nrows", "ncols", "shape", "write", "write_lsbs",
           "write_msbs", "write_twoc", "write_zeros", "write_bytes_aligned", "align_to_byte", "push_str", "drop",
           "drop_in_place", "spare_capacity_mut", "with_capacity", "try_reserve", "size", "channels", "filled_size",
           "pop", "ptr_metadata", "as_ptr_range"}
# calls that (re)define elements without reading them
WRITES = {"clear", "fill", "fill_with", "reset_from_slice", "reset_from_iter_simd", "copy_from_slice",
          "clone_from_slice", "copy_within", "write_to_byte_slice", "set_zero", "fill_with_identity", "copy_from",
          "clone_from", "write_bytes"}
# argument positions (beyond 0) that a known call only writes
WRITES_ARG = {"write_to_byte_slice": {1}, "read_exact": {1}, "read": {1}, "clone_into": {1}}

PTRISH = re.compile(r"&|\*mut|\*const|Iter|std::iter::|Chunks|Windows|Zip<|Enumerate<|ControlFlow<")
MUTISH = re.compile(r"&mut|IterMut|Mut<|\*mut|Mut<'")
BUFFER_TY = re.compile(r"Vec<|SimdVec<|MemSink<|VecDeque<|String|DMatrix<|Matrix<|\[.*;|FrameBuf|Storage")


def norm(p):
    """Normalised buffer path: index projections lose their index, views and everything after them are dropped."""
    p = p.split("[view]")[0]
    p = re.sub(r"\[[^\]]*\]", "[]", p)
    p = re.sub(r"@[A-Za-z_0-9]+", "", p)
    return p


def compatible(p, q):
    return p.startswith(q) or q.startswith(p)


def natural_loops(body):
    """[(header, set(blocks))] of the natural loops of the live CFG."""
    succ = body.succ
    pred = body.pred
    out = {}
    for u in body.live:
        for h in succ[u]:
            if h in body.live and body.dominates(h, u):
                nodes = out.setdefault(h, {h})
                stack = [u]
                while stack:
                    n = stack.pop()
                    if n in nodes:
                        continue
                    nodes.add(n)
                    stack.extend(x for x in pred[n] if x in body.live)
    return list(out.items())


class Stale:
    def __init__(self, facts, opaque_types=()):
        self.facts = facts
        self.memo = {}
        self.opaque = opaque_types
        self.unknown_calls = {}   # name -> count: calls treated conservatively as reads

    # ------------------------------------------------------------------ taint
    def propagate(self, body, broots, eroots, upvars):
        buf = dict(broots)     # local -> raw path
        elem = dict(eroots)    # local -> raw path
        fixed = set(broots) | set(eroots)

        def ptrish(l):
            return bool(PTRISH.search(body.local_ty(l) or ""))

        def setk(d, l, v):
            if l in fixed:
                return False
            if d is elem and not MUTISH.search(body.local_ty(l) or ""):
                return False   # only mutable designators are tracked; shared accessors are read events
            if d.get(l) != v:
                d[l] = v
                return True
            return False

        changed = True
        it = 0
        while changed and it < 60:
            changed = False
            it += 1
            for bi in sorted(body.live):
                blk = body.blocks[bi]
                for s in blk["stmts"]:
                    if s["k"] != "assign" or s["dst"]["p"]:
                        continue
                    d = s["dst"]["l"]
                    rv = s["rv"]
                    pl = None
                    isref = False
                    if rv["k"] in ("ref", "rawptr", "copyderef"):
                        pl = rv["pl"]
                        isref = rv["k"] != "copyderef"
                    elif rv["k"] == "use":
                        pl = op_place(rv["op"])
                    elif rv["k"] == "cast":
                        pl = op_place(rv["op"])
                    elif rv["k"] == "agg" and rv.get("ak") in ("tuple", "adt", "array"):
                        # a tuple / Some(..) of element pointers stays element-designating
                        for o in rv["ops"]:
                            ol = op_local(o)
                            if ol in elem and ptrish(d):
                                changed |= setk(elem, d, elem[ol])
                            elif ol in buf and ptrish(d) and d not in elem:
                                changed |= setk(buf, d, buf[ol] + "[view]")
                        continue
                    if pl is None:
                        continue
                    base = pl["l"]
                    proj = [p for p in pl["p"] if p != "*"]
                    if base in elem:
                        if ptrish(d):
                            changed |= setk(elem, d, elem[base])
                    elif base in buf:
                        if not ptrish(d):
                            continue
                        hasidx = any(p.startswith("[") for p in proj)
                        dty = body.local_ty(d) or ""
                        if hasidx and not BUFFER_TY.search(dty.split("&")[-1] if "&" in dty else dty):
                            # &mut (*v)[i] : an element pointer (immutable refs are reads, handled as events)
                            if isref and rv.get("mut"):
                                changed |= setk(elem, d, buf[base] + "".join(proj))
                        else:
                            changed |= setk(buf, d, buf[base] + "".join(proj))
                    elif base == 1 and upvars:
                        if proj and re.match(r"^\.\d+$", proj[0]) and int(proj[0][1:]) in upvars and ptrish(d):
                            kind, path = upvars[int(proj[0][1:])]
                            changed |= setk(buf if kind == "buf" else elem, d, path + "".join(proj[1:]))
                t = blk["term"]
                if t["k"] != "call" or t["dst"]["p"] or not t["args"]:
                    continue
                d = t["dst"]["l"]
                if not ptrish(d):
                    continue
                fn = t.get("fn") or {}
                name = fn.get("name", "")
                a0 = op_local(t["args"][0])
                dty = body.local_ty(d) or ""
                if a0 in buf and (t.get("argtys") or [""])[0].startswith("&"):
                    p = buf[a0]
                    if name in ("index", "index_mut"):
                        inner = dty.split("&")[-1].replace("mut ", "").strip()
                        if inner.startswith("[") or BUFFER_TY.search(inner):
                            changed |= setk(buf, d, p + "[view]")
                        elif name == "index_mut":
                            changed |= setk(elem, d, p)
                    elif name in ELEM_MUT and not (name in VIEW and re.search(r"&(mut )?\[", dty)):
                        changed |= setk(elem, d, p)
                    elif name in VIEW:
                        if name == "into_iter" and "Iter" in dty:
                            if "IterMut" in dty:
                                changed |= setk(elem, d, p)
                        elif re.search(r"&(mut )?\[", dty) or "Simd" in dty or "*" in dty:
                            changed |= setk(buf, d, p + "[view]")
                        else:
                            changed |= setk(buf, d, p)   # RefMut / Box / &mut &mut T: same object
                    elif self.facts.callee_ids(t) and re.search(r"&mut ", dty):
                        # crate accessor returning a mutable borrow of (part of) the buffer
                        changed |= setk(buf, d, p + "[view]")
                else:
                    for a in t["args"]:
                        al = op_local(a)
                        if al in elem and (name in ADAPT or not self.facts.callee_ids(t)):
                            changed |= setk(elem, d, elem[al])
                            break
        return buf, elem

    # ----------------------------------------------------------------- events
    def analyse(self, body, broots, eroots=None, depth=0, upvars=None):
        """-> (exposed_reads [(path, text)], writes set(paths), events)."""
        eroots = eroots or {}
        upvars = upvars or {}
        key = (body.id, tuple(sorted(broots.items())), tuple(sorted(eroots.items())),
               tuple(sorted(upvars.items())))
        if key in self.memo:
            return self.memo[key]
        self.memo[key] = ([], set(), [])
        buf, elem = self.propagate(body, broots, eroots, upvars)
        ev = []   # (bi, order, kind, path, text)

        def add(bi, si, kind, path, text):
            ev.append((bi, si, kind, norm(path), text))

        def scan_operand(bi, si, op):
            pl = op_place(op)
            if pl is None or not pl["p"]:
                return
            base = pl["l"]
            if base in elem and "*" in pl["p"]:
                # moving a nested reference out of a designator (`(*it).0`) is not a value read
                add(bi, si, "r", elem[base], "read through element pointer %s" % body.loc(bi, si))
            elif base in buf and any(p.startswith("[") for p in pl["p"]):
                add(bi, si, "r", buf[base] + "".join(p for p in pl["p"] if p != "*"),
                    "indexed read %s" % body.loc(bi, si))

        for bi in sorted(body.live):
            blk = body.blocks[bi]
            for si, s in enumerate(blk["stmts"]):
                if s["k"] != "assign":
                    continue
                rv = s["rv"]
                d = s["dst"]
                # reads first (the right-hand side is evaluated before the store)
                k = rv["k"]
                if k == "use":
                    dl = d["l"]
                    plsrc = op_place(rv["op"])
                    # copying a reference out of a designator is propagation, not a value read
                    if not (plsrc is not None and not d["p"] and (dl in elem or dl in buf)):
                        scan_operand(bi, si, rv["op"])
                elif k == "cast":
                    scan_operand(bi, si, rv["op"])
                elif k == "bin":
                    scan_operand(bi, si, rv["a"])
                    scan_operand(bi, si, rv["b"])
                elif k == "un":
                    if rv.get("op") != "PtrMetadata":
                        scan_operand(bi, si, rv["a"])
                elif k == "agg":
                    for o in rv["ops"]:
                        scan_operand(bi, si, o)
                    if rv.get("ak") == "closure" and depth < DEPTH:
                        cup = {}
                        for i, ao in enumerate(rv["ops"]):
                            al = op_local(ao)
                            if al in buf:
                                cup[i] = ("buf", buf[al])
                            elif al in elem:
                                cup[i] = ("elem", elem[al])
                        ccb = self.facts.bodies.get(rv["closure"])
                        if cup and ccb is not None:
                            exp, wr, _ = self.analyse(ccb, {}, {}, depth + 1, cup)
                            for (p, text) in exp:
                                add(bi, si, "r", p, text + " in closure created at " + body.loc(bi, si))
                            for p in wr:
                                add(bi, si + 0.5, "w", p, "write in closure created at " + body.loc(bi, si))
                elif k == "ref" and not rv.get("mut"):
                    pl = rv["pl"]
                    dty = body.local_ty(d["l"]) or ""
                    if pl["l"] in buf and any(p.startswith("[") for p in pl["p"]) and \
                            not BUFFER_TY.search(dty.split("&")[-1]):
                        add(bi, si, "r", buf[pl["l"]], "shared borrow of an element %s" % body.loc(bi, si))
                    elif pl["l"] in elem and "*" in pl["p"] and not PTRISH.search(dty.replace("&", "", 1)):
                        add(bi, si, "r", elem[pl["l"]], "shared borrow through element pointer %s" % body.loc(bi, si))
                # the store
                if d["p"]:
                    base = d["l"]
                    proj = [p for p in d["p"] if p != "*"]
                    if base in elem and "*" in d["p"]:
                        add(bi, si + 0.5, "w", elem[base], "store through element pointer %s" % body.loc(bi, si))
                    elif base in buf:
                        add(bi, si + 0.5, "w", buf[base] + "".join(proj), "store %s" % body.loc(bi, si))
            t = blk["term"]
            if t["k"] != "call" or not t["args"]:
                continue
            fn = t.get("fn") or {}
            name = fn.get("name", "")
            TS = 10 ** 6
            where = "%s %s" % (name, body.loc(bi, "term"))
            ids = self.facts.callee_ids(t)
            cid = ids[0] if ids else None
            # closure invocation through Fn*::call*
            if name in ("call", "call_mut", "call_once") and len(t["args"]) == 2:
                cb = self.facts.bodies.get(fn.get("res")) if fn.get("res") else None
                br, er = {}, {}
                for o in body.origins(t["args"][1]):
                    if o[0] == "agg" and o[3].get("ak") == "tuple":
                        for i, ao in enumerate(o[3]["ops"]):
                            al = op_local(ao)
                            if al in buf:
                                br[2 + i] = buf[al]
                            elif al in elem:
                                er[2 + i] = elem[al]
                if br or er:
                    if cb is not None and depth < DEPTH:
                        exp, wr, _ = self.analyse(cb, br, er, depth + 1)
                        for (p, text) in exp:
                            add(bi, TS, "r", p, text + " via closure call " + body.loc(bi, "term"))
                        for p in wr:
                            add(bi, TS + 1, "w", p, "write via closure call " + body.loc(bi, "term"))
                    else:
                        for p in list(br.values()) + list(er.values()):
                            self.unknown_calls["<closure>"] = self.unknown_calls.get("<closure>", 0) + 1
                            add(bi, TS, "r", p, "passed to an unresolved closure at %s" % body.loc(bi, "term"))
                            add(bi, TS + 1, "w", p, "possibly written by an unresolved closure")
                    continue
            for ai, a in enumerate(t["args"]):
                l = op_local(a)
                if l is None:
                    # operands with projections: value reads of elements
                    scan_operand(bi, TS - 1, a)
                    continue
                if l in elem:
                    p = elem[l]
                    if cid is not None and depth < DEPTH and not self._opaque(cid):
                        exp, wr, _ = self.analyse(self.facts.bodies[cid], {}, {ai + 1: p}, depth + 1)
                        for (pp, text) in exp:
                            add(bi, TS, "r", pp, text + " via " + where)
                        for pp in wr:
                            add(bi, TS + 1, "w", pp, "write via " + where)
                    elif name in ADAPT or name in NEUTRAL:
                        pass
                    elif name in WRITES:
                        add(bi, TS + 1, "w", p, where)
                    else:
                        self.unknown_calls[name] = self.unknown_calls.get(name, 0) + 1
                        add(bi, TS, "r", p, "element pointer passed to %s" % where)
                        add(bi, TS + 1, "w", p, "element possibly updated by %s" % where)
                    continue
                if l not in buf:
                    continue
                p = buf[l]
                aty = (t.get("argtys") or [""] * (ai + 1))[ai]
                mutable = aty.startswith("&mut")
                if cid is not None and depth < DEPTH and not self._opaque(cid):
                    exp, wr, _ = self.analyse(self.facts.bodies[cid], {ai + 1: p}, {}, depth + 1)
                    for (pp, text) in exp:
                        add(bi, TS, "r", pp, text + " via " + where)
                    for pp in wr:
                        add(bi, TS + 1, "w", pp, "write via " + where)
                    continue
                if ai in WRITES_ARG.get(name, ()):
                    add(bi, TS + 1, "w", p, where)
                    continue
                if ai == 0:
                    if name in WRITES:
                        add(bi, TS + 1, "w", p, where)
                        continue
                    if name in NEUTRAL or name in VIEW or name in ELEM_MUT or name == "index_mut":
                        continue
                    if name == "index":
                        dty = body.local_ty(t["dst"]["l"]) or ""
                        inner = dty.split("&")[-1].strip()
                        if inner.startswith("[") or BUFFER_TY.search(inner):
                            continue   # a sub-view
                    self.unknown_calls[name] = self.unknown_calls.get(name, 0) + 1
                    add(bi, TS, "r", p, "%s reads the buffer" % where)
                    if mutable:
                        add(bi, TS + 1, "w", p, "%s may update the buffer" % where)
                else:
                    if not aty.startswith("&") and not PTRISH.search(aty):
                        continue
                    self.unknown_calls[name] = self.unknown_calls.get(name, 0) + 1
                    add(bi, TS, "r", p, "buffer passed to %s" % where)
                    if mutable:
                        add(bi, TS + 1, "w", p, "%s may update the buffer" % where)
        # ------------------------------------------------------- exposure
        loops = natural_loops(body)
        writes = [(bi, si, p) for (bi, si, k, p, _t) in ev if k == "w"]
        exposed = []
        seen = set()
        for (bi, si, k, p, text) in ev:
            if k != "r":
                continue
            ws = [(wb, wsi) for (wb, wsi, wp) in writes if compatible(p, wp)]
            if any(wb == bi and wsi < si for (wb, wsi) in ws):
                continue
            removed = set(wb for (wb, _s) in ws if wb != bi)
            for (h, nodes) in loops:
                if bi in nodes:
                    continue
                if any(wb in nodes for (wb, _s) in ws):
                    removed.add(h)
            if bi in removed:
                continue
            if bi != 0 and body.find_path(0, {bi}, removed=removed) is None:
                continue
            if 0 in removed and bi != 0:
                continue
            if (p, text) not in seen:
                seen.add((p, text))
                exposed.append((p, text))
        res = (exposed, set(p for (_b, _s, p) in writes), ev)
        self.memo[key] = res
        return res

    def _opaque(self, cid):
        head = cid.split("::<")[0]
        return any(x in head or cid.startswith("<" + x) or cid.startswith(x) for x in self.opaque)
