"""RANGE — extraction of range checks from verifying functions, and CHAIN helpers."""
import re

from .core import Finding, op_local, op_place, const_val

CMP = {"Ge", "Le", "Lt", "Gt", "Eq", "Ne"}
FLIP = {"Ge": "Le", "Le": "Ge", "Lt": "Gt", "Gt": "Lt", "Eq": "Eq", "Ne": "Ne"}


def check_helpers(facts):
    """Role: local functions turning a bool into Result<(), VerifyError>."""
    out = []
    for b in facts.body_list:
        if b.kind != "Fn":
            continue
        ins = b.raw.get("inputs", [])
        if ins and ins[0] == "bool" and b.raw.get("output") == "std::result::Result<(), error::VerifyError>":
            out.append(b)
    return out


def subject_of(body, origins):
    """Name a checked subject from its origin descriptors: last named field, else debug name."""
    names = set()
    for o in origins:
        kind = o[0]
        if kind in ("param", "local"):
            l, proj = o[1], o[2]
            fields = re.findall(r"\.([A-Za-z_][A-Za-z_0-9]*)", proj)
            if fields:
                names.add(fields[-1])
            else:
                n = body.local_name(l)
                if n is None:
                    # upvar debug names are recorded under the printed place
                    for k, v in body.names.items():
                        if k.startswith("(") and ("_%d." % l) in k:
                            # match the upvar index when possible
                            m = re.match(r"^\.(\d+)", proj)
                            if m and ("_%d.%s:" % (l, m.group(1))) in k:
                                n = v
                names.add(n or ("_%d%s" % (l, proj)))
        elif kind == "cast":
            sub = subject_of(body, o[4])
            names.add(sub)
        elif kind == "call":
            t = o[2]
            fn = t.get("fn")
            # accessor call on self: name by the callee
            names.add("call:" + (fn["name"] if fn else "?"))
        else:
            names.add("?" + kind)
    if len(names) == 1:
        return names.pop()
    return "|".join(sorted(str(n) for n in names))


def const_eval(body, op, depth=0):
    """Value of an operand when it is a constant expression (literals / named consts folded through
    Add/Sub/Mul/Shl/Shr/Neg/Not, the checked-arithmetic tuples and integer casts); else None."""
    if depth > 8:
        return None
    if op.get("k") == "const":
        if "f" in op:
            return float(op["f"])
        return const_val(op)
    pl = op_place(op)
    if pl is None:
        return None
    return _const_place(body, pl, depth)


def _const_place(body, pl, depth):
    ds = body.whole_defs(pl["l"])
    if len(ds) != 1:
        return None
    bi, si = ds[0]
    if si == "term":
        return None
    rv = body.blocks[bi]["stmts"][si]["rv"]
    proj = pl["p"]
    k = rv["k"]
    if k == "use":
        o = rv["op"]
        if o.get("k") == "const":
            return None if proj else const_eval(body, o, depth + 1)
        return _const_place(body, {"l": o["pl"]["l"], "p": o["pl"]["p"] + proj}, depth + 1)
    if k == "bin":
        a = const_eval(body, rv["a"], depth + 1)
        b = const_eval(body, rv["b"], depth + 1)
        if a is None or b is None or isinstance(a, float) or isinstance(b, float):
            return None
        opn = rv["op"]
        checked = opn.endswith("WithOverflow")
        if checked:
            if proj not in ([".0"],):
                return None
            opn = opn[:-len("WithOverflow")]
        elif proj:
            return None
        opn = opn.replace("Unchecked", "")
        try:
            return {"Add": a + b, "Sub": a - b, "Mul": a * b, "Shl": a << b if 0 <= b < 128 else None,
                    "Shr": a >> b if 0 <= b < 128 else None}.get(opn)
        except (TypeError, ValueError):
            return None
    if proj:
        return None
    if k == "un" and rv["op"] == "Neg":
        a = const_eval(body, rv["a"], depth + 1)
        return None if a is None else -a
    if k == "cast" and rv["ck"] == "IntToInt":
        return const_eval(body, rv["op"], depth + 1)
    return None


def decode_cond(body, op):
    """Decode a bool operand into (subject, op, const) if it is `subject CMP const`, `!subject`, or a call."""
    origins = body.origins(op)
    if len(origins) != 1:
        return None
    o = origins[0]
    if o[0] == "const":
        return {"kind": "const", "value": const_val(o[1])}
    if o[0] != "rv":
        if o[0] == "call":
            return {"kind": "call", "term": o[2], "bb": o[1]}
        return None
    rv = o[3]
    if rv["k"] == "bin" and rv["op"] in CMP:
        a, b = rv["a"], rv["b"]
        oa, ob = body.origins(a), body.origins(b)

        ca, cb = const_eval(body, a), const_eval(body, b)
        if cb is not None and ca is None:
            return {"kind": "cmp", "subject": subject_of(body, oa), "op": rv["op"], "const": cb,
                    "subject_origins": oa, "cdef": None}
        if ca is not None and cb is None:
            return {"kind": "cmp", "subject": subject_of(body, ob), "op": FLIP[rv["op"]], "const": ca,
                    "subject_origins": ob, "cdef": None}
        if ca is None and cb is None:
            return {"kind": "cmp2", "a": subject_of(body, oa), "b": subject_of(body, ob), "op": rv["op"],
                    "a_origins": oa, "b_origins": ob}
        return {"kind": "const", "value": None}
    if rv["k"] == "un" and rv["op"] == "Not":
        oa = body.origins(rv["a"])
        inner = decode_cond(body, rv["a"])
        if inner and inner["kind"] == "cmp":
            neg = {"Ge": "Lt", "Le": "Gt", "Lt": "Ge", "Gt": "Le", "Eq": "Ne", "Ne": "Eq"}
            return dict(inner, op=neg[inner["op"]])
        return {"kind": "cmp", "subject": subject_of(body, oa), "op": "Eq", "const": 0, "subject_origins": oa,
                "cdef": None}
    return None


def interval_from(checks):
    """checks: list of (op, const) on one integer subject -> dict(min,max,eq)."""
    iv = {}
    for op, c in checks:
        if op == "Ge":
            iv["min"] = max(iv.get("min", c), c)
        elif op == "Gt":
            iv["min"] = max(iv.get("min", c + 1), c + 1)
        elif op == "Le":
            iv["max"] = min(iv.get("max", c), c)
        elif op == "Lt":
            iv["max"] = min(iv.get("max", c - 1), c - 1)
        elif op == "Eq":
            iv["eq"] = c
        else:
            iv["other"] = (op, c)
    return iv


def helper_checks(facts, body, helpers, recursive=True, _depth=0):
    """All calls to a check helper in body (+closures): list of dict(body, bb, term, cond)."""
    hs = set(h.id for h in helpers)
    out = []
    bodies = [body] + (facts.closures_of(body) if recursive else [])
    for b in bodies:
        for bi, t in b.calls():
            fn = t.get("fn")
            if fn and fn["def"] in hs:
                out.append({"body": b, "bb": bi, "term": t, "cond": decode_cond(b, t["args"][0])})
            elif fn and _depth < 2 and fn.get("res", fn.get("def")) in facts.bodies and t["args"]:
                # a private helper of the same value (`self.verify_some_part()?`): its checks are this type's checks
                cb = facts.bodies[fn.get("res") if fn.get("res") in facts.bodies else fn["def"]]
                if cb.id == body.id or cb.raw.get("impl_trait") or not re.search(r"VerifyError>$", cb.raw.get("output") or ""):
                    continue
                o = b.origins(t["args"][0])
                if o and all(x[0] == "param" and x[1] == 1 and x[2] in ("", "*") for x in o):
                    out += helper_checks(facts, cb, helpers, recursive, _depth + 1)
                elif o and all(x[0] == "param" and x[1] == 1 for x in o) and len(t["args"]) == 1:
                    # a free helper handed one field of the value: `check_x(self.x)?` (the subject is named by the helper's
                    # parameter; only accepted when that name is the field's name)
                    fld = re.findall(r"\.([A-Za-z_][A-Za-z_0-9]*)", o[0][2])
                    sub = helper_checks(facts, cb, helpers, recursive, _depth + 1)
                    if fld and all((c.get("cond") or {}).get("subject") == fld[-1] for c in sub):
                        out += sub
    return out


def path_forces_err(body, start_bb):
    """Every path from start_bb to a return builds `_0 = Err(..)` (aggregate) or returns the
    result of a call whose type is a Result and is assigned to _0 from an Err-constructing helper."""
    err_blocks = set()
    for bi in body.live:
        for s in body.blocks[bi]["stmts"]:
            if s["k"] == "assign" and s["dst"]["l"] == 0 and not s["dst"]["p"]:
                rv = s["rv"]
                if rv["k"] == "agg" and rv.get("adt") == "std::result::Result" and rv.get("variant") == "Err":
                    err_blocks.add(bi)
    rets = body.returns()
    reach = body.reachable(start_bb, removed=err_blocks)
    return not any(r in reach for r in rets), err_blocks
