"""SAFE table for PANICSITE obligations: one site per entry, a reason, and optional machine-checked
premises (`requires`) so that an entry stops discharging when the guard it relies on disappears."""
import json
import os

from .lib_cast import dominating_checks

SAFE_FILE = os.path.join(os.path.dirname(os.path.dirname(os.path.abspath(__file__))), "oracle", "panicsite_safe.json")


def load_safe(prop):
    d = json.load(open(SAFE_FILE))
    return {e["key"]: e for e in d["entries"] if prop in e["properties"]}


def cond_matches(c, spec):
    if c["kind"] != spec["kind"]:
        return False
    if c["kind"] == "cmp":
        return c["subject"] == spec["subject"] and c["op"] == spec["op"] and c["const"] == spec["const"]
    if c["kind"] == "cmp2":
        flip = {"Ge": "Le", "Le": "Ge", "Lt": "Gt", "Gt": "Lt", "Eq": "Eq", "Ne": "Ne"}
        if c["op"] == spec["op"] and [c["a"], c["b"]] == spec["sides"]:
            return True
        if flip[c["op"]] == spec["op"] and [c["b"], c["a"]] == spec["sides"]:
            return True
    return False


def entry_holds(facts, entry):
    """All `requires` premises hold on the current tree. Returns (ok, message)."""
    for req in entry.get("requires", []):
        f = facts.bodies.get(req["fn"])
        if f is None:
            return False, "premise function %s not found" % req["fn"]
        sites = [bi for bi, t in f.calls() if (t.get("fn") or {}).get("def", "").endswith(req["before_call"])]
        if not sites:
            return False, "%s no longer calls %s" % (req["fn"], req["before_call"])
        for bi in sites:
            cs = dominating_checks(facts, f, (bi, "term"))
            if not any(cond_matches(c, req["cond"]) for c in cs):
                return False, ("in %s the call of %s at %s is no longer dominated by the `?`-propagated check %s"
                               % (req["fn"], req["before_call"], f.loc(bi, "term"), json.dumps(req["cond"])))
    return True, ""
