//! flacfacts — rustc_private driver exporting MIR / type facts of one crate as JSON.
//!
//! Used as RUSTC_WORKSPACE_WRAPPER: argv[1] is the real rustc path (dropped).
//! Environment:
//!   FLACFACTS_OUT    path of the fact file to write (required to export)
//!   FLACFACTS_CRATE  crate name to export (default: flacenc)
//!   FLACFACTS_NONCE  copied into the fact file (freshness check)
//!   FLACFACTS_TAG    feature-configuration tag copied into the fact file
#![feature(rustc_private)]

extern crate rustc_abi;
extern crate rustc_driver;
extern crate rustc_hir;
extern crate rustc_interface;
extern crate rustc_middle;
extern crate rustc_session;
extern crate rustc_span;

mod json;
use json::J;

use rustc_driver::Compilation;
use rustc_hir::def::DefKind;
use rustc_hir::def_id::{DefId, LocalDefId, LOCAL_CRATE};
use rustc_middle::mir::{
    self, AggregateKind, BasicBlock, Body, BorrowKind, CastKind, Const, ConstValue, Operand,
    Place, ProjectionElem, Rvalue, StatementKind, TerminatorKind, UnwindAction,
};
use rustc_middle::ty::print::with_no_trimmed_paths;
use rustc_middle::ty::{self, Instance, TyCtxt, TypingEnv};
use rustc_span::{ExpnKind, Span};

struct Cb;

impl rustc_driver::Callbacks for Cb {
    fn after_analysis<'tcx>(
        &mut self,
        _compiler: &rustc_interface::interface::Compiler,
        tcx: TyCtxt<'tcx>,
    ) -> Compilation {
        let want = std::env::var("FLACFACTS_CRATE").unwrap_or_else(|_| "flacenc".to_string());
        let name = tcx.crate_name(LOCAL_CRATE).to_string();
        if name != want {
            return Compilation::Continue;
        }
        // skip build-script / proc-macro style compilations of the same name
        let Ok(out) = std::env::var("FLACFACTS_OUT") else {
            return Compilation::Continue;
        };
        let facts = with_no_trimmed_paths!(export(tcx));
        let tmp = format!("{out}.tmp{}", std::process::id());
        std::fs::write(&tmp, facts).expect("write facts");
        std::fs::rename(&tmp, &out).expect("rename facts");
        Compilation::Continue
    }
}

fn main() {
    let mut args: Vec<String> = std::env::args().collect();
    // RUSTC_WORKSPACE_WRAPPER: argv[1] = path to rustc
    if args.len() > 1 && (args[1].ends_with("rustc") || args[1].contains("/rustc")) {
        args.remove(1);
    }
    let mut cb = Cb;
    rustc_driver::run_compiler(&args, &mut cb);
}

// ---------------------------------------------------------------------------

fn span_info(tcx: TyCtxt<'_>, sp: Span) -> (String, usize, usize, Vec<String>) {
    let sm = tcx.sess.source_map();
    // location of the outermost call site in the user's file
    let root = sp.source_callsite();
    let lo = sm.lookup_char_pos(root.lo());
    let hi = sm.lookup_char_pos(root.hi());
    let file = match &lo.file.name {
        rustc_span::FileName::Real(r) => r
            .local_path()
            .map(|p| p.display().to_string())
            .unwrap_or_else(|| format!("{:?}", lo.file.name)),
        other => format!("{other:?}"),
    };
    let mut macs = vec![];
    for ex in sp.macro_backtrace() {
        match ex.kind {
            ExpnKind::Macro(_, name) => macs.push(name.to_string()),
            ExpnKind::Desugaring(d) => macs.push(format!("desugar:{d:?}")),
            ExpnKind::AstPass(p) => macs.push(format!("astpass:{p:?}")),
            ExpnKind::Root => {}
        }
    }
    (file, lo.line, hi.line, macs)
}

fn put_span(tcx: TyCtxt<'_>, j: &mut J, sp: Span) {
    let (_f, lo, _hi, macs) = span_info(tcx, sp);
    j.key("line").num(lo as i128);
    if !macs.is_empty() {
        j.key("mac").arr_begin();
        for m in macs {
            j.str(&m);
        }
        j.arr_end();
    }
}

fn dpath(tcx: TyCtxt<'_>, did: DefId) -> String {
    tcx.def_path_str(did)
}

fn vis_str(tcx: TyCtxt<'_>, did: DefId) -> String {
    match tcx.def_kind(did) {
        DefKind::Fn
        | DefKind::AssocFn
        | DefKind::Struct
        | DefKind::Enum
        | DefKind::Union
        | DefKind::Trait
        | DefKind::Const { .. }
        | DefKind::AssocConst { .. }
        | DefKind::Static { .. }
        | DefKind::Mod
        | DefKind::Field
        | DefKind::Variant
        | DefKind::TyAlias
        | DefKind::Ctor(..) => {}
        _ => return "n/a".into(),
    }
    match tcx.visibility(did) {
        ty::Visibility::Public => "pub".into(),
        ty::Visibility::Restricted(m) => {
            if m.is_crate_root() {
                "crate".into()
            } else {
                format!("in:{}", dpath(tcx, m))
            }
        }
    }
}

/// Is the item nameable from outside the crate (effective visibility)?
fn reachable(tcx: TyCtxt<'_>, did: LocalDefId) -> bool {
    tcx.effective_visibilities(()).is_reachable(did)
}

struct Cx<'tcx> {
    tcx: TyCtxt<'tcx>,
    body: &'tcx Body<'tcx>,
    env: TypingEnv<'tcx>,
}

impl<'tcx> Cx<'tcx> {
    fn place(&self, j: &mut J, p: &Place<'tcx>) {
        let tcx = self.tcx;
        j.obj_begin();
        j.key("l").num(p.local.as_usize() as i128);
        j.key("p").arr_begin();
        let mut pty = mir::PlaceTy::from_ty(self.body.local_decls[p.local].ty);
        for elem in p.projection.iter() {
            match elem {
                ProjectionElem::Deref => {
                    j.str("*");
                }
                ProjectionElem::Field(f, _) => {
                    let mut name = format!(".{}", f.as_usize());
                    if let ty::Adt(adt, _) = pty.ty.kind() {
                        let vi = pty.variant_index.unwrap_or(rustc_abi::FIRST_VARIANT);
                        if adt.is_enum() || adt.is_struct() || adt.is_union() {
                            if let Some(v) = adt.variants().get(vi) {
                                if let Some(fd) = v.fields.get(f) {
                                    name = format!(".{}", fd.name);
                                }
                            }
                        }
                    }
                    j.str(&name);
                }
                ProjectionElem::Index(l) => {
                    j.str(&format!("[_{}]", l.as_usize()));
                }
                ProjectionElem::ConstantIndex { offset, from_end, .. } => {
                    if from_end {
                        j.str(&format!("[-{offset}]"));
                    } else {
                        j.str(&format!("[{offset}]"));
                    }
                }
                ProjectionElem::Subslice { from, to, from_end } => {
                    j.str(&format!("[{from}..{}{to}]", if from_end { "-" } else { "" }));
                }
                ProjectionElem::Downcast(name, vi) => {
                    let n = name
                        .map(|s| s.to_string())
                        .unwrap_or_else(|| format!("{}", vi.as_usize()));
                    j.str(&format!("@{n}"));
                }
                ProjectionElem::OpaqueCast(_) => {
                    j.str("opaque");
                }
                ProjectionElem::UnwrapUnsafeBinder(_) => {
                    j.str("unbind");
                }
            }
            pty = pty.projection_ty(tcx, elem);
        }
        j.arr_end();
        if !p.projection.is_empty() {
            j.key("ty").str(&format!("{}", pty.ty));
        }
        j.obj_end();
    }

    fn constant(&self, j: &mut J, c: &Const<'tcx>) {
        let tcx = self.tcx;
        let ty = c.ty();
        j.obj_begin();
        j.key("k").str("const");
        j.key("ty").str(&format!("{ty}"));
        // function items / closures used as values
        match ty.kind() {
            ty::FnDef(did, args) => {
                j.key("def").str(&dpath(tcx, *did));
                j.key("fn");
                self.callee(j, *did, args);
            }
            ty::Closure(did, _) => {
                j.key("closure").str(&dpath(tcx, *did));
            }
            _ => {}
        }
        if let Const::Unevaluated(uv, _) = c {
            if uv.promoted.is_none() {
                j.key("cdef").str(&dpath(tcx, uv.def));
            } else {
                j.key("promoted").bool(true);
            }
        }
        let is_scalar_ty = ty.is_integral() || ty.is_bool() || ty.is_char() || ty.is_floating_point();
        if is_scalar_ty {
            if let Some(si) = c.try_eval_scalar_int(tcx, self.env) {
                let size = si.size();
                let bits = si.to_bits(size);
                j.key("v").raw(&format!("{bits}"));
                if ty.is_signed() {
                    let sv = size.sign_extend(bits) as i128;
                    j.key("sv").raw(&format!("{sv}"));
                }
                if ty.is_floating_point() {
                    let f = if size.bytes() == 4 {
                        f32::from_bits(bits as u32) as f64
                    } else {
                        f64::from_bits(bits as u64)
                    };
                    j.key("f").str(&format!("{f:?}"));
                }
            }
        } else if let Const::Val(ConstValue::ZeroSized, _) = c {
            j.key("zst").bool(true);
        } else if let Const::Val(ConstValue::Scalar(mir::interpret::Scalar::Ptr(ptr, _)), _) = c {
            // reference to a static / fn / memory
            let aid = ptr.provenance.alloc_id();
            match tcx.global_alloc(aid) {
                mir::interpret::GlobalAlloc::Static(sd) => {
                    j.key("static").str(&dpath(tcx, sd));
                }
                mir::interpret::GlobalAlloc::Function { instance } => {
                    j.key("fnptr_to").str(&dpath(tcx, instance.def_id()));
                }
                _ => {}
            }
        }
        j.key("s").str(&format!("{c}"));
        j.obj_end();
    }

    fn operand(&self, j: &mut J, o: &Operand<'tcx>) {
        match o {
            Operand::Copy(p) | Operand::Move(p) => {
                j.obj_begin();
                j.key("k").str(if matches!(o, Operand::Copy(_)) { "copy" } else { "move" });
                j.key("pl");
                self.place(j, p);
                j.obj_end();
            }
            Operand::Constant(c) => self.constant(j, &c.const_),
            #[allow(unreachable_patterns)]
            _ => {
                j.obj_begin();
                j.key("k").str("other");
                j.key("s").str(&format!("{o:?}"));
                j.obj_end();
            }
        }
    }

    fn callee(&self, j: &mut J, did: DefId, args: ty::GenericArgsRef<'tcx>) {
        let tcx = self.tcx;
        j.obj_begin();
        j.key("def").str(&dpath(tcx, did));
        j.key("name").str(tcx.item_name(did).as_str());
        j.key("gargs").arr_begin();
        for a in args.iter() {
            j.str(&format!("{a}"));
        }
        j.arr_end();
        j.key("full").str(&tcx.def_path_str_with_args(did, args));
        if let Some(assoc) = tcx.opt_associated_item(did) {
            match assoc.container {
                ty::AssocContainer::Trait => {
                    let tr = tcx.parent(did);
                    j.key("trait").str(&dpath(tcx, tr));
                    if let Some(a0) = args.get(0).and_then(|a| a.as_type()) {
                        j.key("self_ty").str(&format!("{a0}"));
                    }
                }
                ty::AssocContainer::InherentImpl => {
                    let imp = tcx.parent(did);
                    let st = tcx.type_of(imp).instantiate(tcx, args).skip_norm_wip();
                    j.key("self_ty").str(&format!("{st}"));
                }
                ty::AssocContainer::TraitImpl(_) => {
                    let imp = tcx.parent(did);
                    let st = tcx.type_of(imp).instantiate(tcx, args).skip_norm_wip();
                    j.key("self_ty").str(&format!("{st}"));
                    let tr = tcx.impl_trait_ref(imp).instantiate(tcx, args).skip_norm_wip();
                    j.key("trait").str(&dpath(tcx, tr.def_id));
                }
            }
        }
        // resolution
        if matches!(tcx.def_kind(did), DefKind::Fn | DefKind::AssocFn) {
            if let Ok(Some(inst)) = Instance::try_resolve(tcx, self.env, did, args) {
                let rd = inst.def_id();
                if rd != did {
                    j.key("res").str(&dpath(tcx, rd));
                    j.key("res_full").str(&tcx.def_path_str_with_args(rd, inst.args));
                }
                j.key("res_kind").str(match inst.def {
                    ty::InstanceKind::Item(_) => "item",
                    ty::InstanceKind::Virtual(..) => "virtual",
                    ty::InstanceKind::ClosureOnceShim { .. } => "closure_once",
                    ty::InstanceKind::FnPtrShim(..) => "fnptr_shim",
                    ty::InstanceKind::Intrinsic(_) => "intrinsic",
                    _ => "shim",
                });
            } else {
                j.key("res_kind").str("unresolved");
            }
        }
        j.key("local").bool(did.is_local());
        j.obj_end();
    }

    fn rvalue(&self, j: &mut J, rv: &Rvalue<'tcx>) {
        let tcx = self.tcx;
        j.obj_begin();
        match rv {
            Rvalue::Use(op, ..) => {
                j.key("k").str("use");
                j.key("op");
                self.operand(j, op);
            }
            Rvalue::Repeat(op, n) => {
                j.key("k").str("repeat");
                j.key("op");
                self.operand(j, op);
                j.key("n").str(&format!("{n}"));
            }
            Rvalue::Ref(_, bk, pl) => {
                j.key("k").str("ref");
                j.key("mut").bool(matches!(bk, BorrowKind::Mut { .. }));
                j.key("pl");
                self.place(j, pl);
            }
            Rvalue::ThreadLocalRef(did) => {
                j.key("k").str("tlref");
                j.key("def").str(&dpath(tcx, *did));
            }
            Rvalue::RawPtr(k, pl) => {
                j.key("k").str("rawptr");
                j.key("mut").bool(matches!(k, mir::RawPtrKind::Mut));
                j.key("pl");
                self.place(j, pl);
            }
            Rvalue::Cast(ck, op, to) => {
                j.key("k").str("cast");
                let cks = match ck {
                    CastKind::IntToInt => "IntToInt".to_string(),
                    CastKind::FloatToInt => "FloatToInt".to_string(),
                    CastKind::FloatToFloat => "FloatToFloat".to_string(),
                    CastKind::IntToFloat => "IntToFloat".to_string(),
                    CastKind::PtrToPtr => "PtrToPtr".to_string(),
                    CastKind::Transmute => "Transmute".to_string(),
                    other => format!("{other:?}"),
                };
                j.key("ck").str(&cks);
                j.key("op");
                self.operand(j, op);
                j.key("from").str(&format!("{}", op.ty(self.body, tcx)));
                j.key("to").str(&format!("{to}"));
            }
            Rvalue::BinaryOp(bop, ops) => {
                j.key("k").str("bin");
                j.key("op").str(&format!("{bop:?}"));
                j.key("a");
                self.operand(j, &ops.0);
                j.key("b");
                self.operand(j, &ops.1);
            }
            Rvalue::UnaryOp(uop, op) => {
                j.key("k").str("un");
                j.key("op").str(&format!("{uop:?}"));
                j.key("a");
                self.operand(j, op);
            }
            Rvalue::Discriminant(pl) => {
                j.key("k").str("discr");
                j.key("pl");
                self.place(j, pl);
            }
            Rvalue::Aggregate(ak, ops) => {
                j.key("k").str("agg");
                match &**ak {
                    AggregateKind::Array(t) => {
                        j.key("ak").str("array");
                        j.key("elem").str(&format!("{t}"));
                    }
                    AggregateKind::Tuple => {
                        j.key("ak").str("tuple");
                    }
                    AggregateKind::Adt(did, vi, gargs, _, active) => {
                        j.key("ak").str("adt");
                        j.key("adt").str(&dpath(tcx, *did));
                        let adt = tcx.adt_def(*did);
                        let v = adt.variant(*vi);
                        j.key("variant").str(v.name.as_str());
                        j.key("vidx").num(vi.as_usize() as i128);
                        j.key("gargs").arr_begin();
                        for a in gargs.iter() {
                            j.str(&format!("{a}"));
                        }
                        j.arr_end();
                        j.key("fields").arr_begin();
                        if let Some(a) = active {
                            j.str(v.fields[*a].name.as_str());
                        } else {
                            for f in v.fields.iter() {
                                j.str(f.name.as_str());
                            }
                        }
                        j.arr_end();
                    }
                    AggregateKind::Closure(did, _) => {
                        j.key("ak").str("closure");
                        j.key("closure").str(&dpath(tcx, *did));
                    }
                    AggregateKind::Coroutine(did, _) | AggregateKind::CoroutineClosure(did, _) => {
                        j.key("ak").str("coroutine");
                        j.key("closure").str(&dpath(tcx, *did));
                    }
                    AggregateKind::RawPtr(..) => {
                        j.key("ak").str("rawptr");
                    }
                }
                j.key("ops").arr_begin();
                for o in ops.iter() {
                    self.operand(j, o);
                }
                j.arr_end();
            }
            Rvalue::CopyForDeref(pl) => {
                j.key("k").str("copyderef");
                j.key("pl");
                self.place(j, pl);
            }
            other => {
                j.key("k").str("other");
                j.key("s").str(&format!("{other:?}"));
            }
        }
        j.obj_end();
    }

    fn bb(&self, b: BasicBlock) -> i128 {
        b.as_usize() as i128
    }

    fn unwind(&self, j: &mut J, u: &UnwindAction) {
        if let UnwindAction::Cleanup(b) = u {
            j.key("u").num(self.bb(*b));
        }
    }

    fn terminator(&self, j: &mut J, t: &mir::Terminator<'tcx>) {
        let tcx = self.tcx;
        j.obj_begin();
        match &t.kind {
            TerminatorKind::Goto { target } => {
                j.key("k").str("goto");
                j.key("t").num(self.bb(*target));
            }
            TerminatorKind::SwitchInt { discr, targets } => {
                j.key("k").str("switch");
                j.key("d");
                self.operand(j, discr);
                j.key("dty").str(&format!("{}", discr.ty(self.body, tcx)));
                j.key("vals").arr_begin();
                for (v, b) in targets.iter() {
                    j.arr_begin();
                    j.raw(&format!("{v}"));
                    j.num(self.bb(b));
                    j.arr_end();
                }
                j.arr_end();
                j.key("else").num(self.bb(targets.otherwise()));
            }
            TerminatorKind::UnwindResume => {
                j.key("k").str("resume");
            }
            TerminatorKind::UnwindTerminate(_) => {
                j.key("k").str("abort");
            }
            TerminatorKind::Return => {
                j.key("k").str("ret");
            }
            TerminatorKind::Unreachable => {
                j.key("k").str("unreachable");
            }
            TerminatorKind::Drop { place, target, unwind, .. } => {
                j.key("k").str("drop");
                j.key("pl");
                self.place(j, place);
                j.key("t").num(self.bb(*target));
                self.unwind(j, unwind);
            }
            TerminatorKind::Call { func, args, destination, target, unwind, fn_span, .. } => {
                j.key("k").str("call");
                if let Some((did, gargs)) = func.const_fn_def() {
                    j.key("fn");
                    self.callee(j, did, gargs);
                } else {
                    j.key("fnptr");
                    self.operand(j, func);
                    j.key("fnty").str(&format!("{}", func.ty(self.body, tcx)));
                }
                j.key("args").arr_begin();
                for a in args.iter() {
                    self.operand(j, &a.node);
                }
                j.arr_end();
                j.key("argtys").arr_begin();
                for a in args.iter() {
                    j.str(&format!("{}", a.node.ty(self.body, tcx)));
                }
                j.arr_end();
                j.key("dst");
                self.place(j, destination);
                j.key("dty").str(&format!("{}", destination.ty(self.body, tcx).ty));
                if let Some(t) = target {
                    j.key("t").num(self.bb(*t));
                }
                self.unwind(j, unwind);
                let (_f, fl, _h, _m) = span_info(tcx, *fn_span);
                j.key("fn_line").num(fl as i128);
            }
            TerminatorKind::TailCall { .. } => {
                j.key("k").str("tailcall");
            }
            TerminatorKind::Assert { cond, expected, msg, target, unwind } => {
                j.key("k").str("assert");
                j.key("cond");
                self.operand(j, cond);
                j.key("exp").bool(*expected);
                let m = match &**msg {
                    mir::AssertKind::BoundsCheck { .. } => "BoundsCheck".to_string(),
                    mir::AssertKind::Overflow(op, ..) => format!("Overflow({op:?})"),
                    mir::AssertKind::OverflowNeg(_) => "OverflowNeg".to_string(),
                    mir::AssertKind::DivisionByZero(_) => "DivisionByZero".to_string(),
                    mir::AssertKind::RemainderByZero(_) => "RemainderByZero".to_string(),
                    mir::AssertKind::MisalignedPointerDereference { .. } => "Misaligned".to_string(),
                    mir::AssertKind::NullPointerDereference => "NullDeref".to_string(),
                    _ => "Other".to_string(),
                };
                j.key("msg").str(&m);
                j.key("t").num(self.bb(*target));
                self.unwind(j, unwind);
            }
            other => {
                j.key("k").str("other");
                j.key("s").str(&format!("{other:?}"));
            }
        }
        put_span(tcx, j, t.source_info.span);
        j.obj_end();
    }

    fn export_body(&self, j: &mut J) {
        let tcx = self.tcx;
        let body = self.body;
        j.key("argc").num(body.arg_count as i128);
        j.key("locals").arr_begin();
        for (l, d) in body.local_decls.iter_enumerated() {
            j.obj_begin();
            j.key("ty").str(&format!("{}", d.ty));
            if d.mutability.is_mut() {
                j.key("mut").bool(true);
            }
            let _ = l;
            j.obj_end();
        }
        j.arr_end();
        // debug names
        j.key("names").obj_begin();
        for vdi in body.var_debug_info.iter() {
            if let mir::VarDebugInfoContents::Place(p) = &vdi.value {
                if p.projection.is_empty() {
                    j.key(&format!("{}", p.local.as_usize())).str(vdi.name.as_str());
                } else {
                    // captured upvar etc: record as "name" -> place string
                    j.key(&format!("{:?}", p)).str(vdi.name.as_str());
                }
            }
        }
        j.obj_end();
        j.key("blocks").arr_begin();
        for (_bb, data) in body.basic_blocks.iter_enumerated() {
            j.obj_begin();
            if data.is_cleanup {
                j.key("cleanup").bool(true);
            }
            j.key("stmts").arr_begin();
            for st in data.statements.iter() {
                match &st.kind {
                    StatementKind::Assign(b) => {
                        let (pl, rv) = &**b;
                        j.obj_begin();
                        j.key("k").str("assign");
                        j.key("dst");
                        self.place(j, pl);
                        j.key("rv");
                        self.rvalue(j, rv);
                        put_span(tcx, j, st.source_info.span);
                        j.obj_end();
                    }
                    StatementKind::SetDiscriminant { place, variant_index } => {
                        j.obj_begin();
                        j.key("k").str("setdiscr");
                        j.key("dst");
                        self.place(j, place);
                        j.key("vidx").num(variant_index.as_usize() as i128);
                        put_span(tcx, j, st.source_info.span);
                        j.obj_end();
                    }
                    StatementKind::Intrinsic(i) => {
                        j.obj_begin();
                        j.key("k").str("intrinsic");
                        j.key("s").str(&format!("{i:?}"));
                        put_span(tcx, j, st.source_info.span);
                        j.obj_end();
                    }
                    _ => {}
                }
            }
            j.arr_end();
            if let Some(t) = &data.terminator {
                j.key("term");
                self.terminator(j, t);
            }
            j.obj_end();
        }
        j.arr_end();
    }
}

#[allow(deprecated)]
fn doc_of(tcx: TyCtxt<'_>, did: DefId) -> String {
    let mut s = String::new();
    for a in tcx.get_all_attrs(did) {
        if let Some((d, _)) = a.doc_str_and_fragment_kind() {
            s.push_str(d.as_str());
            s.push('\n');
        }
    }
    s
}

fn export<'tcx>(tcx: TyCtxt<'tcx>) -> String {
    let mut j = J::new();
    j.obj_begin();
    j.key("nonce").str(&std::env::var("FLACFACTS_NONCE").unwrap_or_default());
    j.key("tag").str(&std::env::var("FLACFACTS_TAG").unwrap_or_default());
    j.key("crate").str(tcx.crate_name(LOCAL_CRATE).as_str());
    j.key("rustc").str(&format!("{}", rustc_interface::util::rustc_version_str().unwrap_or("?")));

    // ---------------- bodies
    j.key("bodies").arr_begin();
    for ldid in tcx.hir_body_owners() {
        let did = ldid.to_def_id();
        let kind = tcx.def_kind(did);
        let body: &Body<'tcx> = match kind {
            DefKind::Fn | DefKind::AssocFn | DefKind::Closure | DefKind::Ctor(..) => {
                if tcx.is_mir_available(did) {
                    tcx.optimized_mir(did)
                } else {
                    continue;
                }
            }
            DefKind::Const { .. } | DefKind::AssocConst { .. } | DefKind::Static { .. } => {
                tcx.mir_for_ctfe(did)
            }
            _ => continue,
        };
        let env = TypingEnv::post_analysis(tcx, did);
        let cx = Cx { tcx, body, env };
        j.obj_begin();
        j.key("id").str(&dpath(tcx, did));
        j.key("kind").str(&format!("{kind:?}"));
        let (file, lo, hi, macs) = span_info(tcx, tcx.def_span(did));
        let (_f2, _lo2, bhi, _m2) = span_info(tcx, body.span);
        j.key("file").str(&file);
        j.key("lo").num(lo as i128);
        j.key("hi").num(std::cmp::max(hi, bhi) as i128);
        if !macs.is_empty() {
            j.key("mac").arr_begin();
            for m in macs {
                j.str(&m);
            }
            j.arr_end();
        }
        j.key("vis").str(&vis_str(tcx, did));
        j.key("reachable").bool(reachable(tcx, ldid));
        if !matches!(kind, DefKind::Closure) {
            j.key("name").str(tcx.item_name(did).as_str());
        }
        if let Some(p) = tcx.opt_parent(did) {
            j.key("parent").str(&dpath(tcx, p));
            j.key("parent_kind").str(&format!("{:?}", tcx.def_kind(p)));
        }
        // enclosing fn for closures
        if matches!(kind, DefKind::Closure) {
            let root = tcx.typeck_root_def_id(did);
            j.key("root").str(&dpath(tcx, root));
        }
        if let Some(assoc) = tcx.opt_associated_item(did) {
            let imp = tcx.parent(did);
            match assoc.container {
                ty::AssocContainer::Trait => {
                    j.key("in_trait").str(&dpath(tcx, imp));
                }
                ty::AssocContainer::InherentImpl => {
                    let st = tcx.type_of(imp).instantiate_identity().skip_norm_wip();
                    j.key("impl_self").str(&format!("{st}"));
                }
                ty::AssocContainer::TraitImpl(_) => {
                    let st = tcx.type_of(imp).instantiate_identity().skip_norm_wip();
                    j.key("impl_self").str(&format!("{st}"));
                    let tr = tcx.impl_trait_ref(imp).instantiate_identity().skip_norm_wip();
                    j.key("impl_trait").str(&dpath(tcx, tr.def_id));
                    j.key("impl_trait_full").str(&format!("{tr}"));
                }
            }
        }
        if matches!(kind, DefKind::Fn | DefKind::AssocFn) {
            let sig = tcx.fn_sig(did).instantiate_identity().skip_norm_wip().skip_binder();
            j.key("inputs").arr_begin();
            for t in sig.inputs() {
                j.str(&format!("{t}"));
            }
            j.arr_end();
            j.key("output").str(&format!("{}", sig.output()));
            j.key("unsafe").bool(sig.safety().is_unsafe());
            // predicates
            j.key("preds").arr_begin();
            let preds = tcx.predicates_of(did).instantiate_identity(tcx);
            for (p, _) in preds.predicates.iter().zip(preds.spans.iter()) {
                j.str(&format!("{}", p.skip_norm_wip()));
            }
            j.arr_end();
        }
        cx.export_body(&mut j);
        j.obj_end();
        // promoted constants of this body (e.g. `0.0..=1.0` used by reference)
        if matches!(
            kind,
            DefKind::Fn | DefKind::AssocFn | DefKind::Closure | DefKind::Static { .. } | DefKind::Const { .. }
        ) {
            for (pi, pbody) in tcx.promoted_mir(did).iter_enumerated() {
                let pcx = Cx { tcx, body: pbody, env };
                j.obj_begin();
                j.key("id").str(&format!("{}::promoted[{}]", dpath(tcx, did), pi.as_usize()));
                j.key("kind").str("Promoted");
                j.key("file").str(&file);
                j.key("lo").num(lo as i128);
                j.key("hi").num(std::cmp::max(hi, bhi) as i128);
                j.key("vis").str("n/a");
                j.key("reachable").bool(false);
                j.key("parent").str(&dpath(tcx, did));
                j.key("parent_kind").str(&format!("{kind:?}"));
                pcx.export_body(&mut j);
                j.obj_end();
            }
        }
    }
    j.arr_end();

    // ---------------- ADTs, traits, impls, statics, consts, fns without bodies
    j.key("adts").arr_begin();
    let items = tcx.hir_crate_items(());
    for ldid in items.definitions() {
        let did = ldid.to_def_id();
        let kind = tcx.def_kind(did);
        if !matches!(kind, DefKind::Struct | DefKind::Enum | DefKind::Union) {
            continue;
        }
        let adt = tcx.adt_def(did);
        j.obj_begin();
        j.key("path").str(&dpath(tcx, did));
        j.key("kind").str(&format!("{kind:?}"));
        j.key("vis").str(&vis_str(tcx, did));
        j.key("reachable").bool(reachable(tcx, ldid));
        let (file, lo, _hi, _m) = span_info(tcx, tcx.def_span(did));
        j.key("file").str(&file);
        j.key("line").num(lo as i128);
        j.key("doc").str(&doc_of(tcx, did));
        j.key("variants").arr_begin();
        for (vi, v) in adt.variants().iter_enumerated() {
            j.obj_begin();
            j.key("name").str(v.name.as_str());
            if adt.is_enum() {
                let d = adt.discriminant_for_variant(tcx, vi);
                j.key("discr").raw(&format!("{}", d.val));
            }
            j.key("ctor").str(&format!("{:?}", v.ctor_kind()));
            j.key("fields").arr_begin();
            for f in v.fields.iter() {
                j.obj_begin();
                j.key("name").str(f.name.as_str());
                let fty = tcx.type_of(f.did).instantiate_identity().skip_norm_wip();
                j.key("ty").str(&format!("{fty}"));
                j.key("vis").str(&match f.vis {
                    ty::Visibility::Public => "pub".to_string(),
                    ty::Visibility::Restricted(m) => {
                        if m.is_crate_root() {
                            "crate".to_string()
                        } else {
                            format!("in:{}", dpath(tcx, m))
                        }
                    }
                });
                j.key("doc").str(&doc_of(tcx, f.did));
                j.obj_end();
            }
            j.arr_end();
            j.obj_end();
        }
        j.arr_end();
        j.obj_end();
    }
    j.arr_end();

    j.key("traits").arr_begin();
    for ldid in items.definitions() {
        let did = ldid.to_def_id();
        if tcx.def_kind(did) != DefKind::Trait {
            continue;
        }
        j.obj_begin();
        j.key("path").str(&dpath(tcx, did));
        j.key("vis").str(&vis_str(tcx, did));
        j.key("reachable").bool(reachable(tcx, ldid));
        j.key("items").arr_begin();
        for it in tcx.associated_items(did).in_definition_order() {
            j.obj_begin();
            j.key("name").str(it.name().as_str());
            j.key("kind").str(&format!("{:?}", it.kind).chars().take(40).collect::<String>());
            j.key("has_default").bool(it.defaultness(tcx).has_value());
            j.obj_end();
        }
        j.arr_end();
        j.key("supers").arr_begin();
        for p in tcx.explicit_super_predicates_of(did).iter_identity_copied() {
            let (p, _) = p.skip_norm_wip();
            j.str(&format!("{p}"));
        }
        j.arr_end();
        j.obj_end();
    }
    j.arr_end();

    j.key("impls").arr_begin();
    for ldid in items.definitions() {
        let did = ldid.to_def_id();
        if !matches!(tcx.def_kind(did), DefKind::Impl { .. }) {
            continue;
        }
        j.obj_begin();
        let st = tcx.type_of(did).instantiate_identity().skip_norm_wip();
        j.key("self").str(&format!("{st}"));
        if let ty::Adt(a, _) = st.kind() {
            j.key("self_adt").str(&dpath(tcx, a.did()));
        }
        if matches!(tcx.def_kind(did), DefKind::Impl { of_trait: true }) {
            let tr = tcx.impl_trait_ref(did).instantiate_identity().skip_norm_wip();
            j.key("trait").str(&dpath(tcx, tr.def_id));
            j.key("trait_full").str(&format!("{tr}"));
            j.key("trait_local").bool(tr.def_id.is_local());
        }
        let (file, lo, _hi, macs) = span_info(tcx, tcx.def_span(did));
        j.key("file").str(&file);
        j.key("line").num(lo as i128);
        j.key("derived").bool(tcx.is_automatically_derived(did));
        if !macs.is_empty() {
            j.key("mac").arr_begin();
            for m in macs {
                j.str(&m);
            }
            j.arr_end();
        }
        j.key("preds").arr_begin();
        let preds = tcx.predicates_of(did).instantiate_identity(tcx);
        for p in preds.predicates.iter() {
            j.str(&format!("{}", p.skip_norm_wip()));
        }
        j.arr_end();
        j.key("items").arr_begin();
        for it in tcx.associated_items(did).in_definition_order() {
            j.str(&dpath(tcx, it.def_id));
        }
        j.arr_end();
        j.key("assoc_tys").obj_begin();
        for it in tcx.associated_items(did).in_definition_order() {
            if it.is_type() {
                let t = tcx.type_of(it.def_id).instantiate_identity().skip_norm_wip();
                j.key(it.name().as_str()).str(&format!("{t}"));
            }
        }
        j.obj_end();
        j.obj_end();
    }
    j.arr_end();

    j.key("statics").arr_begin();
    for ldid in items.definitions() {
        let did = ldid.to_def_id();
        let DefKind::Static { mutability, nested, .. } = tcx.def_kind(did) else {
            continue;
        };
        j.obj_begin();
        j.key("path").str(&dpath(tcx, did));
        let sty = tcx.type_of(did).instantiate_identity().skip_norm_wip();
        j.key("ty").str(&format!("{sty}"));
        j.key("mut").bool(mutability.is_mut());
        j.key("nested").bool(nested);
        let env = TypingEnv::fully_monomorphized();
        j.key("freeze").bool(sty.is_freeze(tcx, env));
        j.key("thread_local").bool(tcx.is_thread_local_static(did));
        let (file, lo, _hi, macs) = span_info(tcx, tcx.def_span(did));
        j.key("file").str(&file);
        j.key("line").num(lo as i128);
        j.key("mac").arr_begin();
        for m in macs {
            j.str(&m);
        }
        j.arr_end();
        if let Some(p) = tcx.opt_parent(did) {
            j.key("parent").str(&dpath(tcx, p));
            j.key("parent_kind").str(&format!("{:?}", tcx.def_kind(p)));
        }
        j.obj_end();
    }
    j.arr_end();

    j.key("consts").arr_begin();
    for ldid in items.definitions() {
        let did = ldid.to_def_id();
        if !matches!(tcx.def_kind(did), DefKind::Const { .. } | DefKind::AssocConst { .. }) {
            continue;
        }
        j.obj_begin();
        j.key("path").str(&dpath(tcx, did));
        let cty = tcx.type_of(did).instantiate_identity().skip_norm_wip();
        j.key("ty").str(&format!("{cty}"));
        let (file, lo, _hi, macs) = span_info(tcx, tcx.def_span(did));
        j.key("file").str(&file);
        j.key("line").num(lo as i128);
        if !macs.is_empty() {
            j.key("mac").arr_begin();
            for m in macs {
                j.str(&m);
            }
            j.arr_end();
        }
        if let Some(p) = tcx.opt_parent(did) {
            j.key("parent").str(&dpath(tcx, p));
            j.key("parent_kind").str(&format!("{:?}", tcx.def_kind(p)));
        }
        let generic = tcx.generics_of(did).requires_monomorphization(tcx);
        if !generic {
            if let ty::Adt(adt, _) = cty.kind() {
                if adt.is_struct() {
                    if let Ok(v) = tcx.const_eval_poly(did) {
                        if let Some(d) = tcx.try_destructure_mir_constant_for_user_output(v, cty) {
                            let var = adt.non_enum_variant();
                            j.key("fields").obj_begin();
                            for (fd, (fv, fty)) in var.fields.iter().zip(d.fields.iter()) {
                                if let Some(si) = fv.try_to_scalar_int() {
                                    let size = si.size();
                                    let bits = si.to_bits(size);
                                    if fty.is_signed() {
                                        j.key(fd.name.as_str()).raw(&format!("{}", size.sign_extend(bits) as i128));
                                    } else {
                                        j.key(fd.name.as_str()).raw(&format!("{bits}"));
                                    }
                                }
                            }
                            j.obj_end();
                        }
                    }
                }
            }
        }
        if !generic && (cty.is_integral() || cty.is_bool() || cty.is_floating_point()) {
            if let Ok(v) = tcx.const_eval_poly(did) {
                if let Some(si) = v.try_to_scalar_int() {
                    let size = si.size();
                    let bits = si.to_bits(size);
                    j.key("v").raw(&format!("{bits}"));
                    if cty.is_signed() {
                        j.key("sv").raw(&format!("{}", size.sign_extend(bits) as i128));
                    }
                    if cty.is_floating_point() {
                        let f = if size.bytes() == 4 {
                            f32::from_bits(bits as u32) as f64
                        } else {
                            f64::from_bits(bits as u64)
                        };
                        j.key("f").str(&format!("{f:?}"));
                    }
                }
            }
        }
        j.obj_end();
    }
    j.arr_end();

    // all fn-like definitions (including trait methods without bodies)
    j.key("fns").arr_begin();
    for ldid in items.definitions() {
        let did = ldid.to_def_id();
        if !matches!(tcx.def_kind(did), DefKind::Fn | DefKind::AssocFn) {
            continue;
        }
        j.obj_begin();
        j.key("path").str(&dpath(tcx, did));
        j.key("name").str(tcx.item_name(did).as_str());
        j.key("vis").str(&vis_str(tcx, did));
        j.key("reachable").bool(reachable(tcx, ldid));
        j.key("has_body").bool(tcx.is_mir_available(did));
        let sig = tcx.fn_sig(did).instantiate_identity().skip_norm_wip().skip_binder();
        j.key("inputs").arr_begin();
        for t in sig.inputs() {
            j.str(&format!("{t}"));
        }
        j.arr_end();
        j.key("output").str(&format!("{}", sig.output()));
        j.key("unsafe").bool(sig.safety().is_unsafe());
        j.key("doc").str(&doc_of(tcx, did));
        j.obj_end();
    }
    j.arr_end();

    // ---------------- `use` items: (module, local name) -> resolved def path (alias resolution)
    j.key("uses").arr_begin();
    for id in items.free_items() {
        let item = tcx.hir_item(id);
        if let rustc_hir::ItemKind::Use(path, rustc_hir::UseKind::Single(ident)) = item.kind {
            let module = tcx.parent_module_from_def_id(item.owner_id.def_id).to_def_id();
            let mut targets: Vec<String> = Vec::new();
            for r in [path.res.type_ns, path.res.value_ns, path.res.macro_ns].into_iter().flatten() {
                if let Some(d) = r.opt_def_id() {
                    let p = dpath(tcx, d);
                    if !targets.contains(&p) {
                        targets.push(p);
                    }
                }
            }
            if targets.is_empty() {
                continue;
            }
            j.obj_begin();
            j.key("module").str(&dpath(tcx, module));
            j.key("name").str(ident.as_str());
            j.key("targets").arr_begin();
            for t in &targets {
                j.str(t);
            }
            j.arr_end();
            j.obj_end();
        }
    }
    j.arr_end();

    j.obj_end();
    j.finish()
}
