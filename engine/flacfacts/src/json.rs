//! Minimal streaming JSON writer (no dependencies).

pub struct J {
    out: String,
    // stack of "needs comma" flags
    stack: Vec<bool>,
    after_key: bool,
}

impl J {
    pub fn new() -> Self {
        Self { out: String::with_capacity(1 << 20), stack: vec![false], after_key: false }
    }

    fn pre(&mut self) {
        if self.after_key {
            self.after_key = false;
            return;
        }
        if let Some(top) = self.stack.last_mut() {
            if *top {
                self.out.push(',');
            }
            *top = true;
        }
    }

    pub fn obj_begin(&mut self) -> &mut Self {
        self.pre();
        self.out.push('{');
        self.stack.push(false);
        self
    }

    pub fn obj_end(&mut self) -> &mut Self {
        self.stack.pop();
        self.out.push('}');
        self
    }

    pub fn arr_begin(&mut self) -> &mut Self {
        self.pre();
        self.out.push('[');
        self.stack.push(false);
        self
    }

    pub fn arr_end(&mut self) -> &mut Self {
        self.stack.pop();
        self.out.push(']');
        self
    }

    pub fn key(&mut self, k: &str) -> &mut Self {
        self.pre();
        Self::esc(&mut self.out, k);
        self.out.push(':');
        self.after_key = true;
        self
    }

    pub fn str(&mut self, s: &str) -> &mut Self {
        self.pre();
        Self::esc(&mut self.out, s);
        self
    }

    pub fn num(&mut self, n: i128) -> &mut Self {
        self.pre();
        self.out.push_str(&n.to_string());
        self
    }

    pub fn raw(&mut self, s: &str) -> &mut Self {
        self.pre();
        self.out.push_str(s);
        self
    }

    pub fn bool(&mut self, b: bool) -> &mut Self {
        self.pre();
        self.out.push_str(if b { "true" } else { "false" });
        self
    }

    fn esc(out: &mut String, s: &str) {
        out.push('"');
        for c in s.chars() {
            match c {
                '"' => out.push_str("\\\""),
                '\\' => out.push_str("\\\\"),
                '\n' => out.push_str("\\n"),
                '\r' => out.push_str("\\r"),
                '\t' => out.push_str("\\t"),
                c if (c as u32) < 0x20 => out.push_str(&format!("\\u{:04x}", c as u32)),
                c => out.push(c),
            }
        }
        out.push('"');
    }

    pub fn finish(self) -> String {
        self.out
    }
}
