// expect: E0277
// claim: the operand trait Bits is sealed: it cannot be implemented for a user type
use flacenc::bitsink::Bits;
pub trait Local {}
#[derive(Clone, Copy)]
pub struct MyInt(pub u8);
impl Bits for MyInt {}
