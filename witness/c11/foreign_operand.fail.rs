// expect: E0277
// claim: a sink accepts only the sealed integer operand types (a user type cannot be written)
use flacenc::bitsink::{BitSink, ByteSink};
#[derive(Clone, Copy)]
pub struct MyInt(pub u8);
pub fn f() {
    let mut sink = ByteSink::new();
    let v = MyInt(1);
    let _ = v;
    let _ = sink.write(v);
}
