// expect: E0277
// claim: the signed operand trait SignedBits is sealed as well
use flacenc::bitsink::SignedBits;
pub trait Local {}
#[derive(Clone, Copy)]
pub struct MyInt(pub i8);
impl Local for MyInt {}
