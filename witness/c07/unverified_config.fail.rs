// expect: E0308
// claim: the stream entry point cannot be called with an unverified configuration
use flacenc::config::Encoder;
use flacenc::error::Verify;
use flacenc::source::MemSource;
pub fn f(src: MemSource) {
    let cfg = Encoder::default();
    let v = cfg.clone().into_verified().unwrap();
    let _ = &v;
    let _ = flacenc::encode_with_fixed_block_size(&cfg, src, 4096);
}
