// expect: E0532 E0603 E0423
// claim: a Verified<T> cannot be destructured to reach the inner value by pattern
use flacenc::config::Encoder;
use flacenc::error::{Verified, Verify};
pub fn f() -> usize {
    let v: Verified<Encoder> = Encoder::default().into_verified().unwrap();
    let Verified(inner) = v;
    inner.block_size
}
