// expect: E0423 E0603 E0532
// claim: Verified(..) cannot be constructed outside the crate (private tuple field)
use flacenc::config::Encoder;
use flacenc::error::{Verified, Verify};
pub fn f() -> Verified<Encoder> {
    let cfg = Encoder::default();
    let r: Verified<Encoder> = Verified(cfg);
    r
}
