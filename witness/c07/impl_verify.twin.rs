// expect: E0277 E0603
// claim: Verify is sealed: an outside type cannot implement it (and so cannot obtain Verified<Own>)
use flacenc::error::{Verify, VerifyError};
pub struct Mine;
impl Mine {
    pub fn verify(&self) -> Result<(), VerifyError> { Ok(()) }
}
