// expect: E0133
// claim: wrapping without verification requires `unsafe`
use flacenc::config::Encoder;
use flacenc::error::{Verified, Verify};
pub fn f() -> Verified<Encoder> {
    let cfg = Encoder::default();
    let r: Verified<Encoder> = cfg.assume_verified();
    r
}
