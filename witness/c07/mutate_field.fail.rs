// expect: E0594
// claim: a field of a verified configuration cannot be assigned (no DerefMut)
use flacenc::config::Encoder;
use flacenc::error::{Verified, Verify};
pub fn f() -> usize {
    let mut v: Verified<Encoder> = Encoder::default().into_verified().unwrap();
    let _ = &mut v;
    v.block_size = 1;
    v.block_size
}
