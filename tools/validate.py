#!/usr/bin/env python3
"""Validates MANIFEST.json and every evidence file against the given schemas (run with python3-vt)."""
import json, glob, sys
import jsonschema
ok = True
def v(path, schema):
    global ok
    try:
        jsonschema.validate(json.load(open(path)), json.load(open(schema)))
    except Exception as e:
        ok = False
        print("INVALID", path, str(e)[:300])
v('/verif/MANIFEST.json', '/root/.vp/MANIFEST.schema.json')
for f in sorted(glob.glob('/verif/evidence/*.json')):
    v(f, '/root/.vp/EVIDENCE.schema.json')
m = json.load(open('/verif/MANIFEST.json'))
ids = {c['property_id'] for c in m['checks']} | {n['property_id'] for n in m['not_applicable']}
want = {"C%02d" % i for i in range(1, 21)}
if ids != want:
    ok = False; print("ids mismatch", sorted(want ^ ids))
print("valid" if ok else "FAILED"); sys.exit(0 if ok else 1)
