#!/bin/bash
# prints one line per processed seed: pid/k result detected-by
for f in /tmp/seed-out/*/*/process.log; do
  d=$(dirname $f); k=$(basename $d); pid=$(basename $(dirname $d))
  res=$(grep "^RESULT" $f | head -1)
  det=$(awk '/^VIOLATION/{split($2,a,"="); p=a[2]} /^  rule/{r=$2} /^  instance/{print p":"r"/"$2}' $f | sort -u | tr '\n' ' ')
  fin=$(grep -c "quick:" $f)
  echo "$pid/$k | $res | checks=$fin | $det"
done
