#!/bin/bash
# usage: verify_seed.sh <pid> <k> [cargo test feature flags for the demo, e.g. "--features decode"]
# Confirms a sub-agent's seeded change in its scratch worktree /tmp/seed/<pid>:
#   patch applies; whole suite passes with it; demo fails with it; demo passes without it.
set -u
pid=$1; k=$2; feats=${3:-}
wt=/tmp/seed/$pid; out=/tmp/seed-out/$pid/$k
cd $wt || exit 2
git checkout -q -- . ; git clean -fdq tests 2>/dev/null
git apply --check $out/patch.diff || { echo "RESULT patch-does-not-apply"; exit 1; }
git apply $out/patch.diff
demos=$(ls $out/*.rs 2>/dev/null)
suite=$(CARGO_NET_OFFLINE=true timeout 1200 cargo test --workspace --offline 2>&1 | grep -E "^test result|FAILED|failed" | tr '\n' ';')
echo "SUITE-WITH: $suite"
mkdir -p tests; for d in $demos; do cp $d tests/; done
with_rc=0
for d in $demos; do n=$(basename $d .rs); CARGO_NET_OFFLINE=true timeout 900 cargo test --offline $feats --test $n >/tmp/seed-out/$pid/$k/with.log 2>&1 || with_rc=1; done
echo "DEMO-WITH rc=$with_rc: $(grep -E '^test result' /tmp/seed-out/$pid/$k/with.log | tr '\n' ';')"
git checkout -q -- src
without_rc=0
for d in $demos; do n=$(basename $d .rs); CARGO_NET_OFFLINE=true timeout 900 cargo test --offline $feats --test $n >/tmp/seed-out/$pid/$k/without.log 2>&1 || without_rc=1; done
echo "DEMO-WITHOUT rc=$without_rc: $(grep -E '^test result' /tmp/seed-out/$pid/$k/without.log | tr '\n' ';')"
for d in $demos; do rm -f tests/$(basename $d); done
git checkout -q -- . ; git status --short | head -3
if [ $with_rc -ne 0 ] && [ $without_rc -eq 0 ] && ! echo "$suite" | grep -q "FAILED\|[1-9][0-9]* failed"; then echo "RESULT confirmed"; else echo "RESULT NOT-confirmed"; fi
