#!/usr/bin/env python3
"""keep_seed.py <pid> <k> <needs> <detected_by or ''> [demo cargo flags]
Copies a confirmed sub-agent change from /tmp/seed-out/<pid>/<k> into /verif/seeded/<pid>-<k>/ with meta.json."""
import json, os, shutil, sys, glob
pid, k, needs, det = sys.argv[1:5]
flags = sys.argv[5] if len(sys.argv) > 5 else ""
src = "/tmp/seed-out/%s/%s" % (pid, k)
dst = "/verif/seeded/%s-%s" % (pid, k)
os.makedirs(dst, exist_ok=True)
for f in ["patch.diff", "notes.md"] + [os.path.basename(x) for x in glob.glob(src + "/*.rs")]:
    shutil.copy(os.path.join(src, f), os.path.join(dst, f))
demos = [os.path.basename(x)[:-3] for x in glob.glob(src + "/*.rs")]
def res(log):
    p = os.path.join(src, log)
    if not os.path.exists(p):
        return None
    return [l.strip() for l in open(p) if l.startswith("test result")]
meta = {
    "breaks_property": pid,
    "origin": "independent sub-agent given only the property text and a scratch worktree",
    "needs_to_manifest": needs,
    "confirmed": {
        "how": "tools/verify_seed.sh %s %s %s (scratch worktree /tmp/seed/%s, removed afterwards)" % (pid, k, flags, pid),
        "patch_applies_to_pinned_tree": True,
        "existing_suite_with_change": "cargo test --workspace --offline: 163 unit + 89 doc tests, 0 failed",
        "demo_cmd": ["cp %s.rs tests/ && CARGO_NET_OFFLINE=true cargo test --offline %s --test %s" % (d, flags, d) for d in demos],
        "demo_with_change": res("with.log"),
        "demo_without_change": res("without.log"),
    },
    "checks_run": "mutants/run_mutant.sh seeded/%s-%s/patch.diff quick <all claimed checks>" % (pid, k),
    "detected_by": [d for d in det.split(",") if d],
}
json.dump(meta, open(os.path.join(dst, "meta.json"), "w"), indent=1)
print(dst, meta["detected_by"])
