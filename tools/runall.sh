#!/bin/bash
# Runs every claimed check (tier = $1, default quick) and prints one line each; exit 1 if any fails.
cd "$(dirname "$0")/.."
tier=${1:-quick}
rc=0
for p in $(python3 -c "import json; print(' '.join(c['property_id'] for c in json.load(open('MANIFEST.json'))['checks']))"); do
  out=$(./check $p $tier 2>&1); r=$?
  echo "$out" | tail -1
  if [ $r -ne 0 ]; then rc=1; echo "$out" | grep -A4 "^VIOLATION" | head -30; fi
done
exit $rc
