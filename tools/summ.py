#!/usr/bin/env python3
"""Debug helper: summ.py [--patch file] <body-regex>...  prints events / return summary of matching bodies (F2 facts)."""
import sys, os, re, subprocess, tempfile, shutil, traceback
sys.path.insert(0, os.path.dirname(os.path.dirname(os.path.abspath(__file__))))
from rules import engine
from rules.core import Facts
from rules import lib_effect as E
args = sys.argv[1:]
repo = None
scratch = None
if args and args[0] == "--patch":
    scratch = tempfile.mkdtemp(prefix="vsumm.", dir="/tmp")
    repo = os.path.join(scratch, "repo")
    subprocess.check_call(["rsync", "-a", "--exclude", "target", "--exclude", ".git", "/repo/", repo + "/"])
    subprocess.check_call("patch -p1 -s < %s" % os.path.abspath(args[1]), shell=True, cwd=repo)
    args = args[2:]
try:
    f = Facts(engine.export_facts("F2", repo) if repo else engine.export_facts("F2"))
    for pat in args:
        for b in f.find_bodies(pat):
            print("=" * 20, b.id)
            try:
                ev, rv, _ = E.analyse(f, b)
                print("\n".join(E.flat(ev)))
                print("RET:", E.show(rv))
            except Exception:
                traceback.print_exc()
finally:
    if scratch:
        import hashlib
        key = hashlib.sha256(os.path.abspath(repo).encode()).hexdigest()[:8]
        for d in os.listdir(engine.CACHE):
            if d.endswith(key) or ("-" + key) in d:
                shutil.rmtree(os.path.join(engine.CACHE, d), ignore_errors=True) if os.path.isdir(os.path.join(engine.CACHE, d)) else os.remove(os.path.join(engine.CACHE, d))
        shutil.rmtree(scratch, ignore_errors=True)
