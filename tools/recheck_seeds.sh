#!/bin/bash
# usage: recheck_seeds.sh [glob, e.g. 'C*-9']
# Re-runs every claimed quick check against every kept seed (scratch copies) and rewrites meta.json's detected_by.
cd "$(dirname "$0")/.."
props=$(python3 -c "import json; print(' '.join(c['property_id'] for c in json.load(open('MANIFEST.json'))['checks']))")
ls -d seeded/${1:-*}/ | xargs -P 5 -I{} bash -c '
  d={}; d=${d%/}
  out=$(MUT_LINES=6 mutants/run_mutant.sh $(realpath $d/patch.diff) quick '"$props"' 2>&1)
  det=$(echo "$out" | awk "/^VIOLATION/{split(\$2,a,\"=\"); p=a[2]} /^  rule/{r=\$2} /^  instance/{print p\":\"r\"/\"\$2}" | sort -u | tr "\n" "," | sed "s/,$//")
  if echo "$out" | grep -q "BUILD\|PATCH-FAILED"; then det="ERROR:$(echo "$out" | grep -m1 "BUILD\|PATCH-FAILED" | cut -c1-80)"; fi
  python3 - "$d" "$det" <<PY
import json,sys
p=sys.argv[1]+"/meta.json"; m=json.load(open(p)); m["detected_by"]=[x for x in sys.argv[2].split(",") if x]; json.dump(m,open(p,"w"),indent=1)
print(sys.argv[1], m["detected_by"] or "MISSED")
PY
'
