#!/bin/bash
# usage: mkmut.sh <out.patch> <file-relative-to-repo> <python-expr over s (source text) returning new text>
# builds a one-file patch against /repo's working tree without touching /repo
out=$1; file=$2; expr=$3
tmp=$(mktemp -d /tmp/mkmut.XXXX)
mkdir -p $tmp/a/$(dirname $file) $tmp/b/$(dirname $file)
cp /repo/$file $tmp/a/$file
python3 - "$tmp/a/$file" "$tmp/b/$file" "$expr" <<'PY'
import sys,re
s=open(sys.argv[1]).read()
t=eval(sys.argv[3])
assert t!=s, "mutation did not change the file"
open(sys.argv[2],'w').write(t)
PY
[ $? -eq 0 ] || { rm -rf $tmp; exit 1; }
(cd $tmp && diff -u a/$file b/$file) > $out
rm -rf $tmp; wc -l $out
