#!/usr/bin/env python3
"""Debug helper: pretty-print the exported MIR of bodies matching a regex."""
import sys, glob, os, json
sys.path.insert(0, os.path.dirname(os.path.dirname(os.path.abspath(__file__))))
from rules.core import Facts, place_str

def opstr(o):
    if o is None: return "?"
    if o.get("k") == "const":
        s = o.get("s")
        if "cdef" in o: s = "%s(=%s)" % (o["cdef"], o.get("sv", o.get("v")))
        if "closure" in o: s = "closure " + o["closure"]
        return "const " + str(s)
    if o.get("k") in ("copy", "move"):
        return "%s %s" % (o["k"], place_str(o["pl"]))
    return str(o)

def rvstr(rv):
    k = rv["k"]
    if k == "use": return opstr(rv["op"])
    if k == "cast": return "%s as %s (%s)" % (opstr(rv["op"]), rv["to"], rv["ck"])
    if k == "bin": return "%s(%s, %s)" % (rv["op"], opstr(rv["a"]), opstr(rv["b"]))
    if k == "un": return "%s(%s)" % (rv["op"], opstr(rv["a"]))
    if k == "ref": return "&%s%s" % ("mut " if rv["mut"] else "", place_str(rv["pl"]))
    if k == "discr": return "discr(%s)" % place_str(rv["pl"])
    if k == "agg":
        h = rv.get("adt", rv.get("ak"))
        if rv.get("ak") == "adt": h += "::" + rv["variant"]
        if rv.get("ak") == "closure": h = "closure " + rv["closure"]
        return "%s{%s}" % (h, ", ".join(opstr(o) for o in rv["ops"]))
    if k in ("copyderef", "rawptr"): return "%s %s" % (k, place_str(rv["pl"]))
    return json.dumps(rv)[:200]

def dump(b):
    print("=" * 100)
    print(b.id, b.loc(), "argc", b.argc, b.raw.get("output", ""))
    print("  names:", b.names)
    for i, l in enumerate(b.locals):
        print("    _%d: %s" % (i, l["ty"]))
    for bi, blk in enumerate(b.blocks):
        print("  bb%d%s%s:" % (bi, " (cleanup)" if blk.get("cleanup") else "", "" if bi in b.live else " (dead)"))
        for s in blk["stmts"]:
            if s["k"] == "assign":
                print("    %s = %s   // :%s %s" % (place_str(s["dst"]), rvstr(s["rv"]), s.get("line"), ",".join(s.get("mac", []))))
            else:
                print("    %s" % json.dumps(s)[:160])
        t = blk["term"]
        k = t["k"]
        if k == "call":
            fn = t.get("fn")
            name = fn["full"] if fn else "fnptr " + opstr(t.get("fnptr"))
            res = (" [res=%s]" % fn.get("res", fn.get("res_kind"))) if fn else ""
            print("    %s = %s(%s) -> bb%s unwind %s%s  // :%s %s" % (place_str(t["dst"]), name, ", ".join(opstr(a) for a in t["args"]), t.get("t"), t.get("u"), res, t.get("line"), ",".join(t.get("mac", []))))
        elif k == "switch":
            print("    switch %s [%s] else bb%d  // :%s" % (opstr(t["d"]), ", ".join("%s->bb%d" % (v, x) for v, x in t["vals"]), t["else"], t.get("line")))
        elif k == "drop":
            print("    drop %s -> bb%d" % (place_str(t["pl"]), t["t"]))
        elif k == "assert":
            print("    assert(%s == %s, %s) -> bb%d" % (opstr(t["cond"]), t["exp"], t["msg"], t["t"]))
        elif k == "goto":
            print("    goto bb%d" % t["t"])
        else:
            print("    %s" % k)

if __name__ == "__main__":
    tag = os.environ.get("TAG", "F2")
    fs = sorted(glob.glob("/verif/.cache/facts-%s-*.json" % tag), key=os.path.getmtime)
    f = Facts(fs[-1])
    import re
    rx = re.compile(sys.argv[1])
    for b in f.body_list:
        if rx.search(b.id):
            dump(b)
