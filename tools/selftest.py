#!/usr/bin/env python3
"""selftest.py <Cxx> [--json]

Both-ways test of one check, run as part of its thorough tier: every positive control of the property - the hand-made
mutants under mutants/<cxx>/ and the independently seeded changes under seeded/<Cxx>-*/ whose meta.json says this check
detects them - is applied to a scratch copy of /repo's *current* tree (outside /repo and /verif, removed afterwards) and
the check's quick tier is run against the copy.  A control that applies but is not reported means the check went blind.
A control that no longer applies (the tree moved on) is skipped, not failed.
"""
import glob
import json
import os
import re
import subprocess
import sys
from concurrent.futures import ThreadPoolExecutor

HERE = os.path.dirname(os.path.dirname(os.path.abspath(__file__)))


def controls(prop):
    out = sorted(glob.glob(os.path.join(HERE, "mutants", prop.lower(), "*.patch")))
    for d in sorted(glob.glob(os.path.join(HERE, "seeded", prop + "-*"))):
        try:
            meta = json.load(open(os.path.join(d, "meta.json")))
        except Exception:
            continue
        if any(x.startswith(prop + ":") for x in meta.get("detected_by", [])):
            out.append(os.path.join(d, "patch.diff"))
    return out


def run_one(prop, patch):
    env = dict(os.environ, VERIF_NO_SELFTEST="1", MUT_LINES="0")
    p = subprocess.run([os.path.join(HERE, "mutants", "run_mutant.sh"), patch, "quick", prop],
                       stdout=subprocess.PIPE, stderr=subprocess.STDOUT, text=True, env=env)
    txt = p.stdout
    if "PATCH-FAILED" in txt:
        return {"control": os.path.relpath(patch, HERE), "status": "skipped (does not apply to the current tree)"}
    if "BUILD" in txt and "violations=" not in txt:
        return {"control": os.path.relpath(patch, HERE), "status": "skipped (scratch copy did not build)"}
    detected = p.returncode == 1 and re.search(r"violations=[1-9]", txt) is not None
    return {"control": os.path.relpath(patch, HERE), "status": "detected" if detected else "NOT DETECTED"}


def main():
    prop = sys.argv[1]
    cs = controls(prop)
    with ThreadPoolExecutor(max_workers=6) as ex:
        res = list(ex.map(lambda c: run_one(prop, c), cs))
    if "--json" in sys.argv:
        print(json.dumps(res))
    else:
        for r in res:
            print("%-60s %s" % (r["control"], r["status"]))
    return 3 if any(r["status"] == "NOT DETECTED" for r in res) else 0


if __name__ == "__main__":
    sys.exit(main())
