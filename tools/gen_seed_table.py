#!/usr/bin/env python3
"""Rewrites the region between <!-- SEEDTABLE --> markers in DESIGN.md from seeded/*/meta.json."""
import glob, json, os, re
HERE = os.path.dirname(os.path.dirname(os.path.abspath(__file__)))
rows = []
for d in sorted(glob.glob(os.path.join(HERE, "seeded", "*"))):
    m = json.load(open(os.path.join(d, "meta.json")))
    title = open(os.path.join(d, "notes.md")).readline().strip("# \n")
    title = re.sub(r"^C\d+ ?/ ?change ?\d+ ?[—-]+ ?", "", title)[:110]
    det = sorted({x.split("/")[0] + "/" + x.split("/")[1] if x.count("/") else x for x in m.get("detected_by", [])})
    rows.append("| %s | %s | %s |" % (os.path.basename(d), title.replace("|", "/"), ", ".join(det) if det else "**not detected**"))
tab = "| seed | change | detected by (property:rule) |\n|---|---|---|\n" + "\n".join(rows) + "\n"
p = os.path.join(HERE, "DESIGN.md")
s = open(p).read()
a, b = "<!-- SEEDTABLE -->", "<!-- /SEEDTABLE -->"
if a in s:
    s = s[:s.index(a) + len(a)] + "\n" + tab + s[s.index(b):]
    open(p, "w").write(s)
n = sum(1 for r in rows if "not detected" not in r)
print("%d seeds, %d detected" % (len(rows), n))
