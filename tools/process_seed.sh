#!/bin/bash
# usage: process_seed.sh <pid> <k> [demo cargo flags]   -> verify in scratch worktree, then run every claimed check on the patch
pid=$1; k=$2; feats=${3:-}
cd "$(dirname "$0")/.."
out=/tmp/seed-out/$pid/$k
{
echo "=== verify $pid/$k"
tools/verify_seed.sh $pid $k "$feats"
echo "=== checks"
props=$(python3 -c "import json; print(' '.join(c['property_id'] for c in json.load(open('MANIFEST.json'))['checks']))")
MUT_LINES=8 mutants/run_mutant.sh $out/patch.diff quick $props
} > $out/process.log 2>&1
grep -E "^RESULT|^SUITE|^DEMO|violations=[1-9]|^VIOLATION|^  rule|^  instance" $out/process.log
