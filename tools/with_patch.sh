#!/bin/bash
# usage: with_patch.sh <patch> <python-script>   -> runs the script with REPO_SCRATCH pointing at a patched scratch copy of /repo
P=$(realpath "$1"); S=$(mktemp -d /tmp/vdbg.XXXX); rsync -a --exclude target --exclude .git /repo/ $S/repo/
(cd $S/repo && patch -p1 -s < "$P") || { rm -rf $S; exit 3; }
REPO_SCRATCH=$S/repo python3 "$2"
key=$(python3 -c "import hashlib,sys;print(hashlib.sha256(sys.argv[1].encode()).hexdigest()[:8])" "$S/repo")
rm -rf "$(dirname "$0")"/../.cache/target-*-$key "$(dirname "$0")"/../.cache/export-*-$key.lock $S
